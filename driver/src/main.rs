// mirfacts: a rustc_private driver that dumps the type-checked, resolved program
// (MIR at mir-opt-level=0, resolved callees, evaluated constants, impl and ADT
// tables) of the sonic* crates as one JSON fact file per crate.
//
// Used as RUSTC_WRAPPER: argv[1] is the real rustc and is dropped.  For crates
// other than sonic_rs / sonic_number / sonic_simd it behaves as plain rustc.
#![feature(rustc_private)]
#![allow(clippy::all)]
extern crate rustc_abi;
extern crate rustc_driver;
extern crate rustc_hir;
extern crate rustc_interface;
extern crate rustc_middle;
extern crate rustc_span;

use rustc_driver::Compilation;
use rustc_hir::def::DefKind;
use rustc_interface::interface::Compiler;
use rustc_middle::mir::{
    self, AggregateKind, BasicBlock, Body, Const as MirConst, ConstValue, Operand, Place,
    PlaceElem, Rvalue, StatementKind, TerminatorKind,
};
use rustc_middle::ty::print::{with_no_trimmed_paths, with_no_visible_paths};
use rustc_middle::ty::{self, Instance, Ty, TyCtxt, TypingEnv};
use rustc_span::def_id::{DefId, LOCAL_CRATE};
use rustc_span::Span;
use std::collections::BTreeSet;
use std::fmt::Write as _;

// ---------------------------------------------------------------- JSON helpers
fn js(s: &str) -> String {
    let mut o = String::with_capacity(s.len() + 2);
    o.push('"');
    for c in s.chars() {
        match c {
            '"' => o.push_str("\\\""),
            '\\' => o.push_str("\\\\"),
            '\n' => o.push_str("\\n"),
            '\r' => o.push_str("\\r"),
            '\t' => o.push_str("\\t"),
            c if (c as u32) < 0x20 => {
                let _ = write!(o, "\\u{:04x}", c as u32);
            }
            c => o.push(c),
        }
    }
    o.push('"');
    o
}
fn jarr(v: &[String]) -> String {
    format!("[{}]", v.join(","))
}
fn hex(b: &[u8]) -> String {
    let mut o = String::with_capacity(b.len() * 2);
    for x in b {
        let _ = write!(o, "{:02x}", x);
    }
    o
}

// ---------------------------------------------------------------- naming
fn qpath(tcx: TyCtxt<'_>, did: DefId) -> String {
    let p = with_no_trimmed_paths!(with_no_visible_paths!(tcx.def_path_str(did)));
    if did.is_local() {
        format!("{}::{}", tcx.crate_name(LOCAL_CRATE), p)
    } else {
        p
    }
}
fn tystr<'tcx>(t: Ty<'tcx>) -> String {
    with_no_trimmed_paths!(with_no_visible_paths!(format!("{}", t)))
}
fn adts_of<'tcx>(tcx: TyCtxt<'tcx>, t: Ty<'tcx>) -> Vec<String> {
    let mut out = BTreeSet::new();
    for arg in t.walk() {
        if let Some(t) = arg.as_type() {
            match t.kind() {
                ty::Adt(def, _) => {
                    out.insert(qpath(tcx, def.did()));
                }
                ty::Closure(d, _) => {
                    out.insert(qpath(tcx, *d));
                }
                _ => {}
            }
        }
    }
    out.into_iter().map(|s| js(&s)).collect()
}
fn head_adt<'tcx>(tcx: TyCtxt<'tcx>, mut t: Ty<'tcx>) -> Option<String> {
    loop {
        match t.kind() {
            ty::Ref(_, inner, _) => t = *inner,
            ty::RawPtr(inner, _) => t = *inner,
            ty::Adt(def, _) => return Some(qpath(tcx, def.did())),
            ty::Closure(d, _) => return Some(qpath(tcx, *d)),
            _ => return None,
        }
    }
}


fn relocs_json<'tcx>(tcx: TyCtxt<'tcx>, alloc_id: mir::interpret::AllocId, off: usize, len: usize, depth: usize) -> String {
    // pointers stored inside [off, off+len) of the allocation, with the bytes they point to
    let alloc = match tcx.try_get_global_alloc(alloc_id) {
        Some(mir::interpret::GlobalAlloc::Memory(a)) => a,
        Some(mir::interpret::GlobalAlloc::Static(did)) => match tcx.eval_static_initializer(did) {
            Ok(a) => a,
            Err(_) => return "[]".into(),
        },
        _ => return "[]".into(),
    };
    let inner = alloc.inner();
    let mut out = Vec::new();
    for (o, prov) in inner.provenance().ptrs().iter() {
        let o = o.bytes() as usize;
        if o < off || o >= off + len {
            continue;
        }
        let target = prov.alloc_id();
        // the pointer value (offset into the target) is stored in the bytes
        let raw = inner.inspect_with_uninit_and_ptr_outside_interpreter(o..o + 8);
        let mut toff = 0usize;
        for (i, b) in raw.iter().enumerate() {
            toff |= (*b as usize) << (8 * i);
        }
        match tcx.try_get_global_alloc(target) {
            Some(mir::interpret::GlobalAlloc::Memory(t)) => {
                let ti = t.inner();
                let end = ti.len().min(toff + 4096);
                if toff <= end {
                    let bytes = ti.inspect_with_uninit_and_ptr_outside_interpreter(toff..end);
                    let nested = if depth < 3 { relocs_json(tcx, target, toff, end - toff, depth + 1) } else { "[]".into() };
                    out.push(format!("{{\"off\":{},\"bytes\":\"{}\",\"relocs\":{}}}", o - off, hex(bytes), nested));
                }
            }
            Some(mir::interpret::GlobalAlloc::Function { instance }) => {
                out.push(format!("{{\"off\":{},\"fn\":{}}}", o - off, js(&qpath(tcx, instance.def_id()))));
            }
            Some(mir::interpret::GlobalAlloc::Static(did)) => {
                out.push(format!("{{\"off\":{},\"static\":{}}}", o - off, js(&qpath(tcx, did))));
            }
            _ => {}
        }
    }
    format!("[{}]", out.join(","))
}

struct Cx<'a, 'tcx> {
    tcx: TyCtxt<'tcx>,
    body: &'a Body<'tcx>,
    env: TypingEnv<'tcx>,
}

fn span_info(tcx: TyCtxt<'_>, sp: Span) -> String {
    let sm = tcx.sess.source_map();
    let exp = sp.from_expansion();
    let site = if exp { sp.source_callsite() } else { sp };
    let lo = sm.lookup_char_pos(site.lo());
    let mut s = format!("\"ln\":{}", lo.line);
    if exp {
        let data = sp.ctxt().outer_expn_data();
        let name = match data.kind {
            rustc_span::ExpnKind::Macro(_, name) => name.to_string(),
            rustc_span::ExpnKind::Desugaring(d) => format!("desugar:{:?}", d),
            rustc_span::ExpnKind::AstPass(p) => format!("astpass:{:?}", p),
            rustc_span::ExpnKind::Root => "root".to_string(),
        };
        let _ = write!(s, ",\"mac\":{}", js(&name));
    }
    s
}

impl<'a, 'tcx> Cx<'a, 'tcx> {
    fn place(&self, p: &Place<'tcx>) -> String {
        let tcx = self.tcx;
        let mut pty = mir::PlaceTy::from_ty(self.body.local_decls[p.local].ty);
        let mut projs: Vec<String> = Vec::new();
        for elem in p.projection.iter() {
            let s = match elem {
                PlaceElem::Deref => "\"*\"".to_string(),
                PlaceElem::Field(f, _) => {
                    let mut name = format!("{}", f.index());
                    if let ty::Adt(def, _) = pty.ty.kind() {
                        let vidx = pty.variant_index.unwrap_or(rustc_abi::FIRST_VARIANT);
                        if def.is_enum() || def.is_struct() || def.is_union() {
                            if let Some(v) = def.variants().get(vidx) {
                                if let Some(fd) = v.fields.get(f) {
                                    name = fd.name.to_string();
                                }
                            }
                        }
                    }
                    format!("[\".\",{},{}]", f.index(), js(&name))
                }
                PlaceElem::Downcast(name, idx) => {
                    let n = match name {
                        Some(n) => n.to_string(),
                        None => format!("{}", idx.index()),
                    };
                    format!("[\"as\",{},{}]", js(&n), idx.index())
                }
                PlaceElem::Index(l) => format!("[\"idx\",{}]", l.index()),
                PlaceElem::ConstantIndex { offset, from_end, .. } => {
                    format!("[\"cidx\",{},{}]", offset, from_end)
                }
                PlaceElem::Subslice { from, to, from_end } => {
                    format!("[\"sub\",{},{},{}]", from, to, from_end)
                }
                PlaceElem::OpaqueCast(_) => "\"opaque\"".to_string(),
                PlaceElem::UnwrapUnsafeBinder(_) => "\"unbind\"".to_string(),
            };
            projs.push(s);
            pty = pty.projection_ty(tcx, elem);
        }
        format!("[{},{}]", p.local.index(), jarr(&projs))
    }

    fn read_alloc_bytes(&self, alloc_id: mir::interpret::AllocId, off: usize, len: usize) -> Option<(Vec<u8>, bool)> {
        let ga = self.tcx.try_get_global_alloc(alloc_id)?;
        let alloc = match ga {
            mir::interpret::GlobalAlloc::Memory(a) => a,
            mir::interpret::GlobalAlloc::Static(did) => self.tcx.eval_static_initializer(did).ok()?,
            _ => return None,
        };
        let inner = alloc.inner();
        if off + len > inner.len() {
            return None;
        }
        let bytes = inner.inspect_with_uninit_and_ptr_outside_interpreter(off..off + len).to_vec();
        let has_ptr = !inner.provenance().ptrs().is_empty();
        Some((bytes, has_ptr))
    }

    fn constant(&self, c: &mir::ConstOperand<'tcx>) -> String {
        let tcx = self.tcx;
        let ty = c.const_.ty();
        let mut s = format!("{{\"k\":\"const\",\"ty\":{}", js(&tystr(ty)));
        match ty.kind() {
            ty::FnDef(did, args) => {
                let _ = write!(s, ",\"fn\":{}", js(&qpath(tcx, *did)));
                let ga: Vec<String> = args.iter().map(|a| js(&with_no_trimmed_paths!(with_no_visible_paths!(format!("{}", a))))).collect();
                let _ = write!(s, ",\"gargs\":{}", jarr(&ga));
                s.push('}');
                return s;
            }
            _ => {}
        }
        // where does it come from (named const / promoted)?
        match c.const_ {
            MirConst::Unevaluated(u, _) => {
                let _ = write!(s, ",\"def\":{}", js(&qpath(tcx, u.def)));
                if let Some(p) = u.promoted {
                    let _ = write!(s, ",\"promoted\":{}", p.index());
                }
            }
            _ => {}
        }
        match c.const_.eval(tcx, self.env, c.span) {
            Ok(ConstValue::Scalar(mir::interpret::Scalar::Int(i))) => {
                let size = i.size();
                let bits = i.to_bits(size);
                let _ = write!(s, ",\"int\":\"{}\",\"size\":{}", bits, size.bytes());
            }
            Ok(ConstValue::Scalar(mir::interpret::Scalar::Ptr(ptr, _))) => {
                // pointer to an allocation: for &[u8; N], &T with sized T: read the pointee
                let (prov, off) = ptr.into_raw_parts();
                let alloc_id = prov.alloc_id();
                let pointee = match ty.kind() {
                    ty::Ref(_, inner, _) => Some(*inner),
                    ty::RawPtr(inner, _) => Some(*inner),
                    _ => None,
                };
                if let Some(pt) = pointee {
                    if let Ok(layout) = tcx.layout_of(self.env.as_query_input(pt)) {
                        let len = layout.size.bytes() as usize;
                        if len <= 1 << 16 {
                            if let Some((b, hp)) = self.read_alloc_bytes(alloc_id, off.bytes() as usize, len) {
                                let _ = write!(s, ",\"bytes\":\"{}\",\"has_ptr\":{}", hex(&b), hp);
                                if hp {
                                    let _ = write!(s, ",\"relocs\":{}", relocs_json(tcx, alloc_id, off.bytes() as usize, len, 0));
                                }
                            }
                        }
                    }
                }
                if let Some(mir::interpret::GlobalAlloc::Static(did)) = tcx.try_get_global_alloc(alloc_id) {
                    let _ = write!(s, ",\"static\":{}", js(&qpath(tcx, did)));
                }
                if let Some(mir::interpret::GlobalAlloc::Function { instance }) = tcx.try_get_global_alloc(alloc_id) {
                    let _ = write!(s, ",\"fnptr\":{}", js(&qpath(tcx, instance.def_id())));
                }
            }
            Ok(ConstValue::ZeroSized) => {
                s.push_str(",\"zst\":true");
            }
            Ok(ConstValue::Slice { alloc_id, meta }) => {
                if let Some((b, hp)) = self.read_alloc_bytes(alloc_id, 0, meta as usize) {
                    // for &[T] with T wider than a byte, meta counts elements: read whole alloc then
                    let _ = hp;
                    let full = match tcx.try_get_global_alloc(alloc_id) {
                        Some(mir::interpret::GlobalAlloc::Memory(a)) => a.inner().len(),
                        _ => b.len(),
                    };
                    if full != b.len() {
                        if let Some((b2, _)) = self.read_alloc_bytes(alloc_id, 0, full) {
                            let _ = write!(s, ",\"bytes\":\"{}\",\"elems\":{}", hex(&b2), meta);
                        }
                    } else {
                        let _ = write!(s, ",\"bytes\":\"{}\",\"elems\":{}", hex(&b), meta);
                    }
                }
            }
            Ok(ConstValue::Indirect { alloc_id, offset }) => {
                if let Ok(layout) = tcx.layout_of(self.env.as_query_input(ty)) {
                    let len = layout.size.bytes() as usize;
                    if len <= 1 << 16 {
                        if let Some((b, hp)) = self.read_alloc_bytes(alloc_id, offset.bytes() as usize, len) {
                            let _ = write!(s, ",\"bytes\":\"{}\",\"has_ptr\":{}", hex(&b), hp);
                            if hp {
                                let _ = write!(s, ",\"relocs\":{}", relocs_json(tcx, alloc_id, offset.bytes() as usize, len, 0));
                            }
                        }
                    }
                }
            }
            Err(_) => {
                s.push_str(",\"uneval\":true");
            }
        }
        s.push('}');
        s
    }

    fn operand(&self, o: &Operand<'tcx>) -> String {
        match o {
            Operand::Copy(p) => format!("{{\"k\":\"copy\",\"p\":{}}}", self.place(p)),
            Operand::Move(p) => format!("{{\"k\":\"move\",\"p\":{}}}", self.place(p)),
            Operand::Constant(c) => self.constant(c),
            Operand::RuntimeChecks(rc) => format!("{{\"k\":\"rtcheck\",\"what\":{}}}", js(&format!("{:?}", rc))),
        }
    }

    fn rvalue(&self, rv: &Rvalue<'tcx>) -> String {
        let tcx = self.tcx;
        match rv {
            Rvalue::Use(o, _) => format!("{{\"k\":\"use\",\"op\":{}}}", self.operand(o)),
            Rvalue::Repeat(o, n) => format!("{{\"k\":\"repeat\",\"op\":{},\"n\":{}}}", self.operand(o), js(&format!("{}", n))),
            Rvalue::Ref(_, bk, p) => {
                let m = matches!(bk, mir::BorrowKind::Mut { .. });
                format!("{{\"k\":\"ref\",\"mut\":{},\"p\":{}}}", m, self.place(p))
            }
            Rvalue::ThreadLocalRef(d) => format!("{{\"k\":\"tls\",\"def\":{}}}", js(&qpath(tcx, *d))),
            Rvalue::RawPtr(k, p) => {
                format!("{{\"k\":\"rawptr\",\"mut\":{},\"p\":{}}}", matches!(k, mir::RawPtrKind::Mut), self.place(p))
            }
            Rvalue::Cast(ck, o, t) => {
                let ckind = format!("{:?}", ck);
                let ckind = ckind.split('(').next().unwrap_or("").to_string();
                format!(
                    "{{\"k\":\"cast\",\"ck\":{},\"ckfull\":{},\"op\":{},\"ty\":{}}}",
                    js(&ckind),
                    js(&format!("{:?}", ck)),
                    self.operand(o),
                    js(&tystr(*t))
                )
            }
            Rvalue::BinaryOp(op, ab) => format!(
                "{{\"k\":\"binop\",\"op\":{},\"a\":{},\"b\":{}}}",
                js(&format!("{:?}", op)),
                self.operand(&ab.0),
                self.operand(&ab.1)
            ),
            Rvalue::UnaryOp(op, a) => format!("{{\"k\":\"unop\",\"op\":{},\"a\":{}}}", js(&format!("{:?}", op)), self.operand(a)),
            Rvalue::Discriminant(p) => format!("{{\"k\":\"discr\",\"p\":{}}}", self.place(p)),
            Rvalue::Aggregate(kind, fields) => {
                let fs: Vec<String> = fields.iter().map(|f| self.operand(f)).collect();
                match &**kind {
                    AggregateKind::Array(t) => format!("{{\"k\":\"agg\",\"ak\":\"array\",\"ty\":{},\"f\":{}}}", js(&tystr(*t)), jarr(&fs)),
                    AggregateKind::Tuple => format!("{{\"k\":\"agg\",\"ak\":\"tuple\",\"f\":{}}}", jarr(&fs)),
                    AggregateKind::Adt(did, vidx, gargs, _, active) => {
                        let def = tcx.adt_def(*did);
                        let v = def.variant(*vidx);
                        let mut names: Vec<String> = v.fields.iter().map(|f| js(&f.name.to_string())).collect();
                        if let Some(a) = active {
                            names = vec![js(&v.fields[*a].name.to_string())];
                        }
                        let ga: Vec<String> = gargs.iter().map(|a| js(&with_no_trimmed_paths!(with_no_visible_paths!(format!("{}", a))))).collect();
                        format!(
                            "{{\"k\":\"agg\",\"ak\":\"adt\",\"adt\":{},\"variant\":{},\"vidx\":{},\"fields\":{},\"gargs\":{},\"f\":{}}}",
                            js(&qpath(tcx, *did)),
                            js(&v.name.to_string()),
                            vidx.index(),
                            jarr(&names),
                            jarr(&ga),
                            jarr(&fs)
                        )
                    }
                    AggregateKind::Closure(did, _) => format!("{{\"k\":\"agg\",\"ak\":\"closure\",\"def\":{},\"f\":{}}}", js(&qpath(tcx, *did)), jarr(&fs)),
                    AggregateKind::RawPtr(t, _) => format!("{{\"k\":\"agg\",\"ak\":\"rawptr\",\"ty\":{},\"f\":{}}}", js(&tystr(*t)), jarr(&fs)),
                    other => format!("{{\"k\":\"agg\",\"ak\":\"other\",\"dbg\":{},\"f\":{}}}", js(&format!("{:?}", other)), jarr(&fs)),
                }
            }
            Rvalue::CopyForDeref(p) => format!("{{\"k\":\"use\",\"op\":{{\"k\":\"copy\",\"p\":{}}}}}", self.place(p)),
            other => format!("{{\"k\":\"other\",\"dbg\":{}}}", js(&format!("{:?}", other))),
        }
    }

    fn call(&self, func: &Operand<'tcx>, args: &[rustc_span::Spanned<Operand<'tcx>>]) -> String {
        let tcx = self.tcx;
        let fty = func.ty(&self.body.local_decls, tcx);
        let mut s = String::new();
        match fty.kind() {
            ty::FnDef(cdid, gargs) => {
                let ga: Vec<String> = gargs.iter().map(|a| js(&with_no_trimmed_paths!(with_no_visible_paths!(format!("{}", a))))).collect();
                let _ = write!(s, "\"orig\":{},\"gargs\":{}", js(&qpath(tcx, *cdid)), jarr(&ga));
                // trait method?
                if let Some(tr) = tcx.trait_of_assoc(*cdid) {
                    let _ = write!(s, ",\"trait\":{}", js(&qpath(tcx, tr)));
                }
                match Instance::try_resolve(tcx, self.env, *cdid, gargs) {
                    Ok(Some(inst)) => {
                        let rdid = inst.def_id();
                        let rga: Vec<String> = inst.args.iter().map(|a| js(&with_no_trimmed_paths!(with_no_visible_paths!(format!("{}", a))))).collect();
                        let kind = match inst.def {
                            ty::InstanceKind::Item(_) => "item",
                            ty::InstanceKind::Intrinsic(_) => "intrinsic",
                            ty::InstanceKind::Virtual(..) => "virtual",
                            ty::InstanceKind::ClosureOnceShim { .. } => "closure_once_shim",
                            ty::InstanceKind::FnPtrShim(..) => "fnptr_shim",
                            ty::InstanceKind::DropGlue(..) => "drop_glue",
                            ty::InstanceKind::CloneShim(..) => "clone_shim",
                            _ => "shim",
                        };
                        let _ = write!(s, ",\"st\":\"R\",\"callee\":{},\"rgargs\":{},\"ik\":{}", js(&qpath(tcx, rdid)), jarr(&rga), js(kind));
                    }
                    _ => {
                        let _ = write!(s, ",\"st\":\"U\",\"callee\":{}", js(&qpath(tcx, *cdid)));
                    }
                }
                // unsafety of the callee signature
                let sig = tcx.fn_sig(*cdid).skip_binder();
                if sig.safety().is_unsafe() {
                    s.push_str(",\"unsafe_callee\":true");
                }
            }
            _ => {
                let _ = write!(s, "\"st\":\"I\",\"callee\":\"<indirect>\",\"fop\":{}", self.operand(func));
            }
        }
        let a: Vec<String> = args.iter().map(|a| self.operand(&a.node)).collect();
        let at: Vec<String> = args.iter().map(|a| js(&tystr(a.node.ty(&self.body.local_decls, tcx)))).collect();
        let mut adts = BTreeSet::new();
        for x in args.iter() {
            for a in adts_of(tcx, x.node.ty(&self.body.local_decls, tcx)) {
                adts.insert(a);
            }
        }
        let adts: Vec<String> = adts.into_iter().collect();
        let _ = write!(s, ",\"args\":{},\"argtys\":{},\"arg_adts\":{}", jarr(&a), jarr(&at), jarr(&adts));
        s
    }
}

fn bbid(b: BasicBlock) -> usize {
    b.index()
}

fn dump_body<'tcx>(tcx: TyCtxt<'tcx>, did: DefId, out: &mut String) {
    let body = tcx.optimized_mir(did);
    let env = TypingEnv::post_analysis(tcx, did);
    let cx = Cx { tcx, body, env };
    let kind = tcx.def_kind(did);
    let sm = tcx.sess.source_map();
    let sp = tcx.def_span(did);
    let full = body.span;
    let lo = sm.lookup_char_pos(full.lo());
    let hi = sm.lookup_char_pos(full.hi());
    let file = format!("{}", lo.file.name.prefer_local_unconditionally());
    let _ = sp;
    let _ = write!(
        out,
        "{{\"id\":{},\"name\":{},\"kind\":{},\"file\":{},\"line\":{},\"end_line\":{}",
        js(&qpath(tcx, did)),
        js(&tcx.opt_item_name(did).map(|s| s.to_string()).unwrap_or_default()),
        js(&format!("{:?}", kind)),
        js(&file),
        lo.line,
        hi.line
    );
    // parent / impl info
    let mut owner = did;
    while matches!(tcx.def_kind(owner), DefKind::Closure | DefKind::InlineConst) {
        owner = tcx.parent(owner);
    }
    if owner != did {
        let _ = write!(out, ",\"parent_fn\":{}", js(&qpath(tcx, owner)));
    }
    if matches!(tcx.def_kind(owner), DefKind::AssocFn) {
        let parent = tcx.parent(owner);
        match tcx.def_kind(parent) {
            DefKind::Impl { of_trait } => {
                let self_ty = tcx.type_of(parent).instantiate_identity().skip_norm_wip();
                let _ = write!(out, ",\"impl\":{{\"self_ty\":{}", js(&tystr(self_ty)));
                if let Some(a) = head_adt(tcx, self_ty) {
                    let _ = write!(out, ",\"self_adt\":{}", js(&a));
                }
                if of_trait {
                    let tr = tcx.impl_trait_ref(parent).instantiate_identity().skip_norm_wip();
                    let _ = write!(out, ",\"trait\":{},\"trait_ref\":{}", js(&qpath(tcx, tr.def_id)), js(&with_no_trimmed_paths!(with_no_visible_paths!(format!("{}", tr)))));
                }
                out.push('}');
            }
            DefKind::Trait => {
                let _ = write!(out, ",\"trait_default\":{}", js(&qpath(tcx, parent)));
            }
            _ => {}
        }
    }
    if matches!(kind, DefKind::Fn | DefKind::AssocFn) {
        let sig = tcx.fn_sig(did).instantiate_identity().skip_norm_wip().skip_binder();
        let ins: Vec<String> = sig.inputs().iter().map(|t| js(&tystr(*t))).collect();
        let mut adts = BTreeSet::new();
        for t in sig.inputs().iter() {
            for a in adts_of(tcx, *t) {
                adts.insert(a);
            }
        }
        let adts: Vec<String> = adts.into_iter().collect();
        let _ = write!(
            out,
            ",\"unsafe\":{},\"vis\":{},\"inputs\":{},\"output\":{},\"sig_adts\":{}",
            sig.safety().is_unsafe(),
            js(&format!("{:?}", tcx.visibility(did))),
            jarr(&ins),
            js(&tystr(sig.output())),
            jarr(&adts)
        );
        let preds = tcx.predicates_of(did).instantiate_identity(tcx);
        let ps: Vec<String> = preds.predicates.iter().map(|p| js(&with_no_trimmed_paths!(with_no_visible_paths!(format!("{}", p.skip_norm_wip()))))).collect();
        let _ = write!(out, ",\"preds\":{}", jarr(&ps));
    }
    let _ = write!(out, ",\"argc\":{}", body.arg_count);
    // locals
    let mut names: Vec<Option<String>> = vec![None; body.local_decls.len()];
    for vdi in body.var_debug_info.iter() {
        if let mir::VarDebugInfoContents::Place(p) = &vdi.value {
            if p.projection.is_empty() {
                names[p.local.index()] = Some(vdi.name.to_string());
            }
        }
    }
    out.push_str(",\"locals\":[");
    for (i, (l, d)) in body.local_decls.iter_enumerated().enumerate() {
        if i > 0 {
            out.push(',');
        }
        let _ = write!(out, "{{\"ty\":{}", js(&tystr(d.ty)));
        if let Some(n) = &names[l.index()] {
            let _ = write!(out, ",\"name\":{}", js(n));
        }
        if let Some(a) = head_adt(tcx, d.ty) {
            let _ = write!(out, ",\"adt\":{}", js(&a));
        }
        out.push('}');
    }
    out.push_str("],\"blocks\":[");
    for (bi, (_bb, data)) in body.basic_blocks.iter_enumerated().enumerate() {
        if bi > 0 {
            out.push(',');
        }
        let _ = write!(out, "{{\"cleanup\":{},\"stmts\":[", data.is_cleanup);
        let mut first = true;
        for st in data.statements.iter() {
            let s = match &st.kind {
                StatementKind::Assign(b) => {
                    let (p, rv) = &**b;
                    Some(format!("\"k\":\"assign\",\"lhs\":{},\"rv\":{}", cx.place(p), cx.rvalue(rv)))
                }
                StatementKind::SetDiscriminant { place, variant_index } => {
                    Some(format!("\"k\":\"setdiscr\",\"p\":{},\"vidx\":{}", cx.place(place), variant_index.index()))
                }
                StatementKind::StorageLive(l) => Some(format!("\"k\":\"live\",\"l\":{}", l.index())),
                StatementKind::StorageDead(l) => Some(format!("\"k\":\"dead\",\"l\":{}", l.index())),
                StatementKind::Intrinsic(b) => match &**b {
                    mir::NonDivergingIntrinsic::Assume(o) => Some(format!("\"k\":\"assume\",\"op\":{}", cx.operand(o))),
                    mir::NonDivergingIntrinsic::CopyNonOverlapping(c) => Some(format!(
                        "\"k\":\"copy_nonoverlapping\",\"src\":{},\"dst\":{},\"count\":{},\"srcty\":{}",
                        cx.operand(&c.src),
                        cx.operand(&c.dst),
                        cx.operand(&c.count),
                        js(&tystr(c.src.ty(&body.local_decls, tcx)))
                    )),
                },
                _ => None,
            };
            if let Some(s) = s {
                if !first {
                    out.push(',');
                }
                first = false;
                let _ = write!(out, "{{{},{}}}", s, span_info(tcx, st.source_info.span));
            }
        }
        out.push_str("],\"term\":{");
        let term = data.terminator();
        match &term.kind {
            TerminatorKind::Goto { target } => {
                let _ = write!(out, "\"k\":\"goto\",\"t\":{}", bbid(*target));
            }
            TerminatorKind::SwitchInt { discr, targets } => {
                let ts: Vec<String> = targets.iter().map(|(v, t)| format!("[\"{}\",{}]", v, bbid(t))).collect();
                let dty = discr.ty(&body.local_decls, tcx);
                let _ = write!(
                    out,
                    "\"k\":\"switch\",\"discr\":{},\"dty\":{},\"targets\":{},\"otherwise\":{}",
                    cx.operand(discr),
                    js(&tystr(dty)),
                    jarr(&ts),
                    bbid(targets.otherwise())
                );
            }
            TerminatorKind::UnwindResume => out.push_str("\"k\":\"resume\""),
            TerminatorKind::UnwindTerminate(_) => out.push_str("\"k\":\"terminate\""),
            TerminatorKind::Return => out.push_str("\"k\":\"return\""),
            TerminatorKind::Unreachable => out.push_str("\"k\":\"unreachable\""),
            TerminatorKind::Drop { place, target, unwind, .. } => {
                let t = place.ty(&body.local_decls, tcx).ty;
                let _ = write!(
                    out,
                    "\"k\":\"drop\",\"p\":{},\"ty\":{},\"adts\":{},\"t\":{}",
                    cx.place(place),
                    js(&tystr(t)),
                    jarr(&adts_of(tcx, t)),
                    bbid(*target)
                );
                if let mir::UnwindAction::Cleanup(u) = unwind {
                    let _ = write!(out, ",\"unwind\":{}", bbid(*u));
                }
            }
            TerminatorKind::Call { func, args, destination, target, unwind, .. } => {
                let dty = destination.ty(&body.local_decls, tcx).ty;
                let _ = write!(out, "\"k\":\"call\",{},\"dest\":{},\"dty\":{}", cx.call(func, args), cx.place(destination), js(&tystr(dty)));
                if let Some(t) = target {
                    let _ = write!(out, ",\"t\":{}", bbid(*t));
                }
                if let mir::UnwindAction::Cleanup(u) = unwind {
                    let _ = write!(out, ",\"unwind\":{}", bbid(*u));
                }
            }
            TerminatorKind::TailCall { func, args, .. } => {
                let _ = write!(out, "\"k\":\"tailcall\",{}", cx.call(func, args));
            }
            TerminatorKind::Assert { cond, expected, msg, target, unwind } => {
                let mk = format!("{:?}", msg);
                let mkind = mk.split(|c: char| c == '(' || c == ' ' || c == '{').next().unwrap_or("").to_string();
                let _ = write!(
                    out,
                    "\"k\":\"assert\",\"cond\":{},\"expected\":{},\"msg\":{},\"t\":{}",
                    cx.operand(cond),
                    expected,
                    js(&mkind),
                    bbid(*target)
                );
                if let mir::UnwindAction::Cleanup(u) = unwind {
                    let _ = write!(out, ",\"unwind\":{}", bbid(*u));
                }
            }
            TerminatorKind::InlineAsm { targets, .. } => {
                let ts: Vec<String> = targets.iter().map(|t| format!("{}", bbid(*t))).collect();
                let _ = write!(out, "\"k\":\"asm\",\"targets\":{}", jarr(&ts));
            }
            other => {
                let _ = write!(out, "\"k\":\"other\",\"dbg\":{}", js(&format!("{:?}", other)));
            }
        }
        let _ = write!(out, ",{}}}}}", span_info(tcx, term.source_info.span));
    }
    out.push_str("]}");
}

fn dump_const<'tcx>(tcx: TyCtxt<'tcx>, did: DefId, out: &mut Vec<String>) {
    let kind = tcx.def_kind(did);
    let generics = tcx.generics_of(did);
    if generics.own_requires_monomorphization() || generics.parent_count > 0 && tcx.generics_of(did).requires_monomorphization(tcx) {
        return;
    }
    let ty = tcx.type_of(did).instantiate_identity().skip_norm_wip();
    let env = TypingEnv::fully_monomorphized();
    let mut s = format!("{{\"id\":{},\"kind\":{},\"ty\":{}", js(&qpath(tcx, did)), js(&format!("{:?}", kind)), js(&tystr(ty)));
    let sm = tcx.sess.source_map();
    let lo = sm.lookup_char_pos(tcx.def_span(did).lo());
    let _ = write!(s, ",\"file\":{},\"line\":{}", js(&format!("{}", lo.file.name.prefer_local_unconditionally())), lo.line);
    let layout = tcx.layout_of(env.as_query_input(ty));
    let size = layout.as_ref().map(|l| l.size.bytes() as usize).unwrap_or(0);
    let read = |alloc: mir::interpret::ConstAllocation<'tcx>, off: usize, len: usize| -> Option<(Vec<u8>, bool)> {
        let inner = alloc.inner();
        if off + len > inner.len() {
            return None;
        }
        Some((inner.inspect_with_uninit_and_ptr_outside_interpreter(off..off + len).to_vec(), !inner.provenance().ptrs().is_empty()))
    };
    // layout of array elements (field offsets are not guaranteed to follow declaration order)
    if let ty::Array(elem, _) = ty.kind() {
        if let Ok(el) = tcx.layout_of(env.as_query_input(*elem)) {
            let n = el.fields.count();
            let mut offs = Vec::new();
            let mut sizes = Vec::new();
            if matches!(elem.kind(), ty::Tuple(_) | ty::Adt(..)) && !matches!(el.fields, rustc_abi::FieldsShape::Array { .. }) {
                for i in 0..n {
                    offs.push(format!("{}", el.fields.offset(i).bytes()));
                    sizes.push(format!("{}", el.field(&rustc_middle::ty::layout::LayoutCx::new(tcx, env), i).size.bytes()));
                }
            }
            let _ = write!(s, ",\"elem\":{{\"ty\":{},\"size\":{},\"offsets\":{},\"sizes\":{}}}", js(&tystr(*elem)), el.size.bytes(), jarr(&offs), jarr(&sizes));
        }
    }
    if matches!(kind, DefKind::Static { .. }) {
        if let Ok(alloc) = tcx.eval_static_initializer(did) {
            if let Some((b, hp)) = read(alloc, 0, alloc.inner().len()) {
                let _ = write!(s, ",\"bytes\":\"{}\",\"has_ptr\":{}", hex(&b), hp);
            }
        }
    } else {
        match tcx.const_eval_poly(did) {
            Ok(ConstValue::Scalar(mir::interpret::Scalar::Int(i))) => {
                let sz = i.size();
                let _ = write!(s, ",\"int\":\"{}\",\"size\":{}", i.to_bits(sz), sz.bytes());
            }
            Ok(ConstValue::Indirect { alloc_id, offset }) => {
                if let Some(mir::interpret::GlobalAlloc::Memory(a)) = tcx.try_get_global_alloc(alloc_id) {
                    if let Some((b, hp)) = read(a, offset.bytes() as usize, size) {
                        let _ = write!(s, ",\"bytes\":\"{}\",\"has_ptr\":{}", hex(&b), hp);
                    }
                }
            }
            Ok(ConstValue::Slice { alloc_id, meta }) => {
                if let Some(mir::interpret::GlobalAlloc::Memory(a)) = tcx.try_get_global_alloc(alloc_id) {
                    if let Some((b, _)) = read(a, 0, a.inner().len()) {
                        let _ = write!(s, ",\"bytes\":\"{}\",\"elems\":{}", hex(&b), meta);
                    }
                }
            }
            Ok(ConstValue::Scalar(mir::interpret::Scalar::Ptr(ptr, _))) => {
                let (prov, off) = ptr.into_raw_parts();
                if let Some(mir::interpret::GlobalAlloc::Memory(a)) = tcx.try_get_global_alloc(prov.alloc_id()) {
                    let len = a.inner().len() - off.bytes() as usize;
                    if let Some((b, hp)) = read(a, off.bytes() as usize, len) {
                        let _ = write!(s, ",\"pointee_bytes\":\"{}\",\"has_ptr\":{}", hex(&b), hp);
                    }
                }
            }
            Ok(ConstValue::ZeroSized) => s.push_str(",\"zst\":true"),
            Err(_) => s.push_str(",\"uneval\":true"),
        }
    }
    s.push('}');
    out.push(s);
}

struct Cb;
impl rustc_driver::Callbacks for Cb {
    fn after_analysis<'tcx>(&mut self, _c: &Compiler, tcx: TyCtxt<'tcx>) -> Compilation {
        let krate = tcx.crate_name(LOCAL_CRATE).to_string();
        if !(krate == "sonic_rs" || krate == "sonic_number" || krate == "sonic_simd") {
            return Compilation::Continue;
        }
        let outdir = match std::env::var("MIRFACTS_OUT") {
            Ok(p) => p,
            Err(_) => return Compilation::Continue,
        };
        let mut out = String::with_capacity(64 << 20);
        let _ = write!(out, "{{\"crate\":{},\"target\":{},\"fns\":[", js(&krate), js(&tcx.sess.opts.target_triple.tuple().to_string()));
        let mut first = true;
        let mut nfn = 0usize;
        for ldid in tcx.mir_keys(()) {
            let did = ldid.to_def_id();
            let kind = tcx.def_kind(did);
            if !matches!(kind, DefKind::Fn | DefKind::AssocFn | DefKind::Closure) {
                continue;
            }
            if !first {
                out.push(',');
            }
            first = false;
            dump_body(tcx, did, &mut out);
            nfn += 1;
        }
        out.push_str("],\"consts\":[");
        let mut consts = Vec::new();
        for ldid in tcx.hir_crate_items(()).definitions() {
            let did = ldid.to_def_id();
            match tcx.def_kind(did) {
                DefKind::Const { .. } | DefKind::AssocConst { .. } | DefKind::Static { .. } => dump_const(tcx, did, &mut consts),
                _ => {}
            }
        }
        out.push_str(&consts.join(","));
        // impl table
        out.push_str("],\"impls\":[");
        let mut impls = Vec::new();
        for (trait_did, ims) in tcx.all_local_trait_impls(()) {
            for impl_ldid in ims {
                let impl_did = impl_ldid.to_def_id();
                let self_ty = tcx.type_of(impl_did).instantiate_identity().skip_norm_wip();
                let mut ms = Vec::new();
                let mut tys = Vec::new();
                for item in tcx.associated_items(impl_did).in_definition_order() {
                    match item.kind {
                        ty::AssocKind::Fn { .. } => ms.push(format!("{}:{}", js(&item.name().to_string()), js(&qpath(tcx, item.def_id)))),
                        ty::AssocKind::Type { .. } => {
                            let t = tcx.type_of(item.def_id).instantiate_identity().skip_norm_wip();
                            tys.push(format!("{}:{}", js(&item.name().to_string()), js(&tystr(t))));
                        }
                        ty::AssocKind::Const { .. } => {}
                    }
                }
                let mut s = format!(
                    "{{\"trait\":{},\"self_ty\":{},\"methods\":{{{}}},\"types\":{{{}}}",
                    js(&qpath(tcx, *trait_did)),
                    js(&tystr(self_ty)),
                    ms.join(","),
                    tys.join(",")
                );
                if let Some(a) = head_adt(tcx, self_ty) {
                    let _ = write!(s, ",\"self_adt\":{}", js(&a));
                }
                let tr = tcx.impl_trait_ref(impl_did).instantiate_identity().skip_norm_wip();
                let _ = write!(s, ",\"trait_ref\":{}", js(&with_no_trimmed_paths!(with_no_visible_paths!(format!("{}", tr)))));
                let sm = tcx.sess.source_map();
                let lo = sm.lookup_char_pos(tcx.def_span(impl_did).lo());
                let _ = write!(s, ",\"file\":{},\"line\":{}}}", js(&format!("{}", lo.file.name.prefer_local_unconditionally())), lo.line);
                impls.push(s);
            }
        }
        out.push_str(&impls.join(","));
        // ADTs and traits
        out.push_str("],\"adts\":[");
        let mut adts = Vec::new();
        let mut traits = Vec::new();
        for ldid in tcx.hir_crate_items(()).definitions() {
            let did = ldid.to_def_id();
            match tcx.def_kind(did) {
                DefKind::Struct | DefKind::Enum | DefKind::Union => {
                    let def = tcx.adt_def(did);
                    let mut vs = Vec::new();
                    for (vi, v) in def.variants().iter_enumerated() {
                        let mut fs = Vec::new();
                        for f in v.fields.iter() {
                            let t = tcx.type_of(f.did).instantiate_identity().skip_norm_wip();
                            fs.push(format!(
                                "{{\"name\":{},\"ty\":{},\"adts\":{},\"vis\":{}}}",
                                js(&f.name.to_string()),
                                js(&tystr(t)),
                                jarr(&adts_of(tcx, t)),
                                js(&format!("{:?}", f.vis))
                            ));
                        }
                        let discr = if def.is_enum() { format!("\"{}\"", def.discriminant_for_variant(tcx, vi).val) } else { "\"0\"".into() };
                        vs.push(format!("{{\"name\":{},\"discr\":{},\"fields\":{}}}", js(&v.name.to_string()), discr, jarr(&fs)));
                    }
                    let mut s = format!(
                        "{{\"id\":{},\"kind\":{},\"vis\":{},\"variants\":{}",
                        js(&qpath(tcx, did)),
                        js(&format!("{:?}", tcx.def_kind(did))),
                        js(&format!("{:?}", tcx.visibility(did))),
                        jarr(&vs)
                    );
                    if let Some(d) = def.destructor(tcx) {
                        let _ = write!(s, ",\"drop\":{}", js(&qpath(tcx, d.did)));
                    }
                    s.push('}');
                    adts.push(s);
                }
                DefKind::Trait => {
                    let mut ms = Vec::new();
                    for item in tcx.associated_items(did).in_definition_order() {
                        if let ty::AssocKind::Fn { .. } = item.kind {
                            ms.push(format!(
                                "{{\"name\":{},\"id\":{},\"has_default\":{}}}",
                                js(&item.name().to_string()),
                                js(&qpath(tcx, item.def_id)),
                                item.defaultness(tcx).has_value()
                            ));
                        }
                    }
                    traits.push(format!(
                        "{{\"id\":{},\"vis\":{},\"methods\":{}}}",
                        js(&qpath(tcx, did)),
                        js(&format!("{:?}", tcx.visibility(did))),
                        jarr(&ms)
                    ));
                }
                _ => {}
            }
        }
        out.push_str(&adts.join(","));
        out.push_str("],\"traits\":[");
        out.push_str(&traits.join(","));
        let _ = write!(out, "],\"nfn\":{}}}", nfn);
        std::fs::create_dir_all(&outdir).ok();
        let tmp = format!("{}/{}.json.tmp{}", outdir, krate, std::process::id());
        std::fs::write(&tmp, out.as_bytes()).expect("write facts");
        std::fs::rename(&tmp, format!("{}/{}.json", outdir, krate)).expect("rename facts");
        Compilation::Continue
    }
}

fn main() {
    let mut args: Vec<String> = std::env::args().collect();
    // RUSTC_WRAPPER protocol: argv[1] is the path of the real rustc
    if args.len() > 1 && (args[1].ends_with("rustc") || args[1].contains("/rustc")) {
        args.remove(1);
    }
    rustc_driver::run_compiler(&args, &mut Cb);
}

import sys, glob, collections, re
impls=collections.defaultdict(list)   # trait -> [(selfty, method, defpath)]
adt_impls=collections.defaultdict(list) # adt path -> [(trait, method, defpath)]
fns={}
calls=[]
drops=[]
for f in glob.glob('/tmp/probe/out/*.txt'):
    for line in open(f):
        p=line.rstrip('\n').split('\t')
        if p[0]=='IMPL':
            _,tr,selfty,m,dp=p
            impls[tr].append((selfty,m,dp))
        elif p[0]=='FN': fns[p[1]]=p[2]
        elif p[0]=='CALL': calls.append(p[1:])
        elif p[0]=='DROP': drops.append(p[1:])
# map self type strings to adt-ish keys
def adt_key(selfty):
    # strip refs and generics
    s=selfty.replace('&mut ','').replace("&'a mut ",'').replace('&','')
    s=re.sub(r"'[a-z_]+ ?",'',s)
    s=re.sub(r'<.*>','',s)
    return s.strip()
for tr,lst in impls.items():
    for selfty,m,dp in lst:
        adt_impls[adt_key(selfty)].append((tr,m,dp))
edges=collections.defaultdict(set)
unres=collections.Counter()
for caller,status,name,bb,dty,adts,span,dropped in calls:
    if status=='R':
        edges[caller].add(name)
    elif status=='U':
        # name = crate::trait::method
        tr,m=name.rsplit('::',1)
        if tr in impls:  # local trait: CHA
            for selfty,mm,dp in impls[tr]:
                if mm==m: edges[caller].add(dp)
            edges[caller].add(name)
        else:
            # callback modelling: foreign trait generic call; may re-enter any foreign-trait impl method of local ADTs in args
            unres[name]+=1
            for a in filter(None,adts.split(',')):
                key=a.split('::',1)[1] if '::' in a else a
                for k,lst in adt_impls.items():
                    if k.endswith(key.split('::')[-1]) and key.split('::')[-1] in k:
                        for tr2,m2,dp in lst:
                            if not tr2.startswith('sonic'):
                                edges[caller].add(dp)
# drop edges
dropimpl={}
for selfty,m,dp in impls.get('core::ops::Drop',[])+impls.get('core::std::ops::Drop',[]):
    dropimpl[adt_key(selfty)]=dp
for tr in impls:
    if tr.endswith('ops::Drop'):
        for selfty,m,dp in impls[tr]: dropimpl[adt_key(selfty)]=dp
for caller,ty,adts in drops:
    for a in filter(None,adts.split(',')):
        last=a.split('::')[-1]
        for k,dp in dropimpl.items():
            if k.split('::')[-1]==last: edges[caller].add(dp)
# Tarjan
sys.setrecursionlimit(100000)
index={};low={};stack=[];on=set();sccs=[];idx=[0]
def sc(v):
    index[v]=low[v]=idx[0];idx[0]+=1;stack.append(v);on.add(v)
    for w in edges.get(v,()):
        if w not in index: sc(w);low[v]=min(low[v],low[w])
        elif w in on: low[v]=min(low[v],index[w])
    if low[v]==index[v]:
        comp=[]
        while True:
            w=stack.pop();on.discard(w);comp.append(w)
            if w==v:break
        sccs.append(comp)
for v in list(edges):
    if v not in index: sc(v)
rec=[c for c in sccs if len(c)>1 or c[0] in edges.get(c[0],())]
print("fns",len(fns),"calls",len(calls),"edges",sum(len(v) for v in edges.values()),"recursive sccs",len(rec))
for c in sorted(rec,key=len,reverse=True):
    print(len(c), sorted(c)[:12], '...' if len(c)>12 else '')
print("drop impls", dropimpl)

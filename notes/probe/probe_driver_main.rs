#![feature(rustc_private)]
extern crate rustc_driver;
extern crate rustc_interface;
extern crate rustc_middle;
extern crate rustc_hir;
extern crate rustc_span;

use rustc_driver::Compilation;
use rustc_interface::interface::Compiler;
use rustc_middle::ty::{self, TyCtxt, Instance, TypingEnv, Ty};
use rustc_middle::mir::{TerminatorKind, StatementKind, Rvalue, Operand, Place, visit::Visitor as MirVisitor, Location, visit::PlaceContext, Local};
use rustc_hir::def::DefKind;
use std::io::Write;
use std::collections::BTreeSet;

fn qpath<'tcx>(tcx: TyCtxt<'tcx>, did: rustc_span::def_id::DefId) -> String {
    format!("{}::{}", tcx.crate_name(did.krate), tcx.def_path_str(did))
}

fn local_adts<'tcx>(tcx: TyCtxt<'tcx>, t: Ty<'tcx>, out: &mut BTreeSet<String>) {
    for arg in t.walk() {
        if let Some(t) = arg.as_type() {
            if let ty::Adt(def, _) = t.kind() {
                let k = tcx.crate_name(def.did().krate).to_string();
                if k.starts_with("sonic") { out.insert(qpath(tcx, def.did())); }
            }
        }
    }
}

struct UseCounter { target: Local, uses: Vec<String> }
impl<'tcx> MirVisitor<'tcx> for UseCounter {
    fn visit_local(&mut self, l: Local, ctx: PlaceContext, _loc: Location) {
        if l == self.target { self.uses.push(format!("{:?}", ctx)); }
    }
}

struct Cb;
impl rustc_driver::Callbacks for Cb {
    fn after_analysis<'tcx>(&mut self, _c: &Compiler, tcx: TyCtxt<'tcx>) -> Compilation {
        let krate = tcx.crate_name(rustc_span::def_id::LOCAL_CRATE).to_string();
        if !krate.starts_with("sonic") { return Compilation::Continue; }
        let mut out = String::new();
        // impl table
        for (trait_did, impls) in tcx.all_local_trait_impls(()) {
            for impl_ldid in impls {
                let impl_did = impl_ldid.to_def_id();
                let self_ty = tcx.type_of(impl_did).instantiate_identity().skip_norm_wip();
                for item in tcx.associated_items(impl_did).in_definition_order() {
                    if matches!(item.kind, ty::AssocKind::Fn { .. }) {
                        out.push_str(&format!("IMPL\t{}\t{}\t{}\t{}\n", qpath(tcx, *trait_did), self_ty, item.name(), qpath(tcx, item.def_id)));
                    }
                }
            }
        }
        for ldid in tcx.mir_keys(()) {
            let did = ldid.to_def_id();
            let kind = tcx.def_kind(did);
            if !matches!(kind, DefKind::Fn | DefKind::AssocFn | DefKind::Closure) { continue; }
            let body = tcx.optimized_mir(did);
            let env = TypingEnv::post_analysis(tcx, did);
            let me = qpath(tcx, did);
            out.push_str(&format!("FN\t{}\t{:?}\n", me, tcx.def_span(did)));
            for (bb, data) in body.basic_blocks.iter_enumerated() {
                let term = data.terminator();
                match &term.kind {
                    TerminatorKind::Call { func, args, destination, .. } => {
                        let fty = func.ty(&body.local_decls, tcx);
                        let dty = destination.ty(&body.local_decls, tcx).ty;
                        let mut adts = BTreeSet::new();
                        for a in args.iter() { local_adts(tcx, a.node.ty(&body.local_decls, tcx), &mut adts); }
                        let (status, name) = if let ty::FnDef(cdid, gargs) = fty.kind() {
                            match Instance::try_resolve(tcx, env, *cdid, gargs) {
                                Ok(Some(inst)) => ("R", qpath(tcx, inst.def_id())),
                                _ => ("U", qpath(tcx, *cdid)),
                            }
                        } else { ("I", "<indirect>".to_string()) };
                        // result use classification
                        let mut dropped = String::new();
                        if let Some(l) = destination.as_local() {
                            let dts = format!("{}", dty);
                            if dts.contains("Result<") {
                                let mut uc = UseCounter { target: l, uses: vec![] };
                                uc.visit_body(body);
                                let real: Vec<_> = uc.uses.iter().filter(|u| !u.contains("Storage") ).collect();
                                dropped = format!("{:?}", real);
                            }
                        }
                        out.push_str(&format!("CALL\t{}\t{}\t{}\tbb{}\t{}\t{}\t{:?}\t{}\n", me, status, name, bb.index(), dty, adts.into_iter().collect::<Vec<_>>().join(","), term.source_info.span, dropped));
                    }
                    TerminatorKind::Drop { place, .. } => {
                        let t = place.ty(&body.local_decls, tcx).ty;
                        let mut adts = BTreeSet::new();
                        local_adts(tcx, t, &mut adts);
                        out.push_str(&format!("DROP\t{}\t{}\t{}\n", me, t, adts.into_iter().collect::<Vec<_>>().join(",")));
                    }
                    _ => {}
                }
            }
        }
        let path = std::env::var("PROBE_OUT").unwrap_or("/tmp/probe/out".into());
        std::fs::create_dir_all(&path).ok();
        let mut f = std::fs::File::create(format!("{}/{}.{}.txt", path, krate, std::process::id())).unwrap();
        f.write_all(out.as_bytes()).unwrap();
        Compilation::Continue
    }
}

fn main() {
    let mut args: Vec<String> = std::env::args().collect();
    args.remove(1);
    rustc_driver::run_compiler(&args, &mut Cb);
}

"""Exhaustive evaluation of a pure integer decision DAG of one MIR body at a reduced bit width.

From a start block, with some locals bound to concrete values, statements made of constants, copies, integer casts,
bitwise/arithmetic binops, Not/Neg and the wrapping_* / trailing_zeros calls are evaluated, switches are followed, and the
walk stops at the first block in `stops` (returned) or at the first terminator it cannot model (returns None).  All
values of the bound type are masked to `width` bits: the operations used by the bitmap scanners (and, or, xor, not,
x - 1, shifts by constants, comparisons with 0) are uniform in the width, so 8 bits stand for 32/64.  Nothing of the
library is executed: the body is read as data."""
from .facts import op_int, op_local, op_place


class Unmodelled(Exception):
    pass


def _val(env, o, mask):
    c = op_int(o)
    if c is not None:
        return c & mask if c >= 0 else c
    p = op_place(o)
    if p is not None and len(p[1]) == 1 and isinstance(p[1][0], list) and p[1][0][0] == "." and p[1][0][2] == "0":
        p = [p[0], []]   # the value half of a (value, overflowed) pair
    elif p is not None and len(p[1]) == 1 and isinstance(p[1][0], list) and p[1][0][0] == "." and p[1][0][2] == "1":
        return 0         # the overflow flag: the checked form panics instead of wrapping; not followed here
    if p is None or p[1]:
        raise Unmodelled(f"operand {o}")
    if p[0] not in env:
        raise Unmodelled(f"unbound local _{p[0]}")
    return env[p[0]]


def run(fn, start, env, stops, width=8, reduced_types=("u32", "u64"), max_steps=200):
    env = dict(env)
    mask = (1 << width) - 1
    cur = start
    for _ in range(max_steps):
        if cur in stops:
            return cur, env
        blk = fn.d["blocks"][cur]
        for s in blk["stmts"]:
            if s["k"] != "assign":
                continue
            lhs, rv = s["lhs"], s["rv"]
            if lhs[1]:
                continue
            ty = fn.locals[lhs[0]]["ty"]
            m = mask if ty in reduced_types else (1 if ty == "bool" else (1 << 64) - 1)
            try:
                k = rv["k"]
                if k == "use":
                    env[lhs[0]] = _val(env, rv["op"], mask)
                elif k == "cast" and rv.get("ck") == "IntToInt":
                    env[lhs[0]] = _val(env, rv["op"], mask) & m
                elif k == "unop" and rv["op"] == "Not":
                    env[lhs[0]] = (~_val(env, rv["a"], mask)) & m
                elif k == "binop":
                    a, b = _val(env, rv["a"], mask), _val(env, rv["b"], mask)
                    op = rv["op"].replace("WithOverflow", "").replace("Unchecked", "")
                    r = {"BitAnd": a & b, "BitOr": a | b, "BitXor": a ^ b, "Add": a + b, "Sub": a - b, "Mul": a * b,
                         "Shl": a << (b % 64), "Shr": a >> (b % 64), "Eq": int(a == b), "Ne": int(a != b), "Lt": int(a < b),
                         "Le": int(a <= b), "Gt": int(a > b), "Ge": int(a >= b)}.get(op)
                    if r is None:
                        raise Unmodelled(op)
                    env[lhs[0]] = r & m
                else:
                    env.pop(lhs[0], None)
            except Unmodelled:
                env.pop(lhs[0], None)
        t = blk["term"]
        if t["k"] == "goto":
            cur = t["t"]
        elif t["k"] == "switch":
            try:
                v = _val(env, t["discr"], mask)
            except Unmodelled:
                return None, env
            nxt = None
            for val, x in t["targets"]:
                if int(val) == v:
                    nxt = x
            cur = nxt if nxt is not None else t["otherwise"]
        elif t["k"] == "assert":
            cur = t["t"]
        elif t["k"] == "call":
            nm = t["callee"].rsplit("::", 1)[-1]
            d = t.get("dest")
            if "core::num" in t["callee"] and nm in ("wrapping_sub", "wrapping_add", "trailing_zeros", "count_ones") and d and not d[1]:
                try:
                    a = _val(env, t["args"][0], mask)
                    if nm in ("wrapping_sub", "wrapping_add"):
                        _val(env, t["args"][1], mask)
                except Unmodelled:
                    return None, env
                if nm == "wrapping_sub":
                    env[d[0]] = (a - _val(env, t["args"][1], mask)) & mask
                elif nm == "wrapping_add":
                    env[d[0]] = (a + _val(env, t["args"][1], mask)) & mask
                elif nm == "trailing_zeros":
                    env[d[0]] = (a & -a).bit_length() - 1 if a else width
                else:
                    env[d[0]] = bin(a).count("1")
                cur = t["t"]
            else:
                return None, env
        else:
            return None, env
    return None, env

"""Interval abstract interpretation over one MIR body (forward, flow-sensitive, with branch refinement
and widening).  Values are tracked for integer/bool locals and for the scalar fields of tuple locals
(the `(value, overflowed)` pairs of the *WithOverflow operations).  Everything else is the type range.

Soundness notes (what a "proved" answer rests on):
  * a local whose address is taken mutably (`&mut _x`, `&raw mut _x`) is forgotten at every call and at
    every store through a pointer;
  * arithmetic that can leave the type range yields the whole type range (wrapping in release builds,
    a panic edge in debug builds);
  * callees are opaque except the small model table below (bit counting, min/max);
  * loops are widened to the type bound after WIDEN visits of a block.
"""
import re
from .facts import op_local, op_int

WIDEN = 4
INT_BITS = {"u8": 8, "u16": 16, "u32": 32, "u64": 64, "u128": 128, "usize": 64,
            "i8": 8, "i16": 16, "i32": 32, "i64": 64, "i128": 128, "isize": 64}


def ty_range(ty):
    if ty == "bool":
        return (0, 1)
    if ty in INT_BITS:
        n = INT_BITS[ty]
        return (-(1 << (n - 1)), (1 << (n - 1)) - 1) if ty[0] == "i" else (0, (1 << n) - 1)
    if ty == "char":
        return (0, 0x10FFFF)
    return None


def top(rng):
    """the whole type range; the two flags say whether a bound comes from the program's own constants and
    guards (True) or merely from the machine width / widening (False)"""
    return None if rng is None else (rng[0], rng[1], False, False)


def _clamp(iv, rng):
    if iv is None or rng is None:
        return top(rng)
    if iv[0] < rng[0] or iv[1] > rng[1]:
        return top(rng)
    return iv


def _lo(a, b):
    """minimum of two (value, flag) bounds"""
    if a[0] != b[0]:
        return a if a[0] < b[0] else b
    return (a[0], a[1] and b[1])


def _hi(a, b):
    if a[0] != b[0]:
        return a if a[0] > b[0] else b
    return (a[0], a[1] and b[1])


def _hull(a, b):
    if a is None or b is None:
        return None
    l = _lo((a[0], a[2]), (b[0], b[2]))
    h = _hi((a[1], a[3]), (b[1], b[3]))
    return (l[0], h[0], l[1], h[1])


CMP = ("Lt", "Le", "Gt", "Ge", "Eq", "Ne")
NEG = {"Lt": "Ge", "Ge": "Lt", "Le": "Gt", "Gt": "Le", "Eq": "Ne", "Ne": "Eq"}
SWAP = {"Lt": "Gt", "Gt": "Lt", "Le": "Ge", "Ge": "Le", "Eq": "Eq", "Ne": "Ne"}


class Intervals:
    def __init__(self, fn):
        self.fn = fn
        self.blocks = fn.d["blocks"]
        self.tys = [l["ty"] for l in fn.locals]
        self.addr_taken = set()
        for b, i, s in fn.assigns():
            rv = s["rv"]
            if rv["k"] in ("ref", "rawptr") and rv.get("mut") and "*" not in rv["p"][1]:
                self.addr_taken.add(rv["p"][0])
        self.state_in = {}
        self.visits = {}
        self.informative = {}
        self._run()

    # ---- keys: (local, fieldpath) for places made of field projections only
    def key_of(self, p):
        fl = []
        for e in p[1]:
            if isinstance(e, list) and e[0] == ".":
                fl.append(int(e[1]))
            else:
                return None
        return (p[0], tuple(fl))

    def rng_of_key(self, k):
        if k is None:
            return None
        if not k[1]:
            return ty_range(self.tys[k[0]])
        ty = self.tys[k[0]]
        m = re.match(r"^\((\w+), bool\)$", ty)
        if m and k[1] == (0,):
            return ty_range(m.group(1))
        if m and k[1] == (1,):
            return (0, 1)
        return None

    def get(self, st, k):
        if k is None:
            return None
        if k in st:
            return st[k]
        return top(self.rng_of_key(k))

    def op_iv(self, st, o):
        if o["k"] == "const":
            v = op_int(o)
            if v is None:
                return top(ty_range(o.get("ty", "")))
            ty = o.get("ty", "")
            if ty in INT_BITS and ty[0] == "i" and v >= (1 << (INT_BITS[ty] - 1)):
                v -= 1 << INT_BITS[ty]  # constants are dumped as their unsigned bit pattern
            return (v, v, True, True)
        k = self.key_of(o["p"])
        return self.get(st, k)

    def op_ty(self, o):
        if o["k"] == "const":
            return o.get("ty")
        p = o["p"]
        if not p[1]:
            return self.tys[p[0]]
        k = self.key_of(p)
        if k and k[1] == (0,):
            m = re.match(r"^\((\w+), bool\)$", self.tys[p[0]])
            if m:
                return m.group(1)
        return None

    # ---- transfer
    def arith(self, op, a, b, rng):
        """returns (interval, may_overflow)"""
        if a is None or b is None or rng is None:
            return top(rng), True
        base = op.replace("WithOverflow", "").replace("Unchecked", "")
        T = top(rng)
        if base == "Add":
            r = (a[0] + b[0], a[1] + b[1], a[2] and b[2], a[3] and b[3])
        elif base == "Sub":
            r = (a[0] - b[1], a[1] - b[0], a[2] and b[3], a[3] and b[2])
        elif base == "Mul":
            c = [(a[0] * b[0], a[2] and b[2]), (a[0] * b[1], a[2] and b[3]), (a[1] * b[0], a[3] and b[2]), (a[1] * b[1], a[3] and b[3])]
            l, h = c[0], c[0]
            for x in c[1:]:
                l, h = _lo(l, x), _hi(h, x)
            r = (l[0], h[0], l[1], h[1])
        elif base == "BitAnd":
            if a[0] >= 0 and b[0] >= 0:
                h = _lo((a[1], a[3]), (b[1], b[3]))
                r = (0, h[0], True, h[1])
            elif b[0] >= 0:
                r = (0, b[1], True, b[3])
            elif a[0] >= 0:
                r = (0, a[1], True, a[3])
            else:
                return T, False
        elif base in ("BitOr", "BitXor"):
            if a[0] >= 0 and b[0] >= 0:
                r = (0, (1 << max(a[1].bit_length(), b[1].bit_length())) - 1, True, a[3] and b[3])
            else:
                return T, False
        elif base == "Shr":
            if a[0] >= 0 and b[0] >= 0 and b[1] < 256:
                r = (a[0] >> b[1], a[1] >> b[0], a[2] and b[3], a[3] and b[2])
            else:
                return T, False
        elif base == "Shl":
            if a[0] >= 0 and b[0] >= 0 and b[1] < 256:
                r = (a[0] << b[0], a[1] << b[1], a[2] and b[2], a[3] and b[3])
            else:
                return T, True
        elif base == "Div":
            if a[0] >= 0 and b[0] > 0:
                r = (a[0] // b[1], a[1] // b[0], a[2] and b[3], a[3] and b[2])
            else:
                return T, False
        elif base == "Rem":
            if a[0] >= 0 and b[0] > 0:
                h = _lo((a[1], a[3]), (b[1] - 1, b[3]))
                r = (0, h[0], True, h[1])
            else:
                return T, False
        else:
            return T, False
        ov = r[0] < rng[0] or r[1] > rng[1]
        return (T if ov else r), ov

    def rv_iv(self, st, rv, lhs_key):
        k = rv["k"]
        rng = self.rng_of_key(lhs_key)
        if k == "use":
            return _clamp(self.op_iv(st, rv["op"]), rng) if rng else None
        if k == "cast" and rv["ck"] == "IntToInt":
            return _clamp(self.op_iv(st, rv["op"]), rng)
        if k == "binop":
            op = rv["op"]
            if op in CMP:
                a, b = self.op_iv(st, rv["a"]), self.op_iv(st, rv["b"])
                if a and b:
                    t = {"Lt": a[1] < b[0], "Le": a[1] <= b[0], "Gt": a[0] > b[1], "Ge": a[0] >= b[1],
                         "Eq": a[0] == a[1] == b[0] == b[1], "Ne": a[1] < b[0] or a[0] > b[1]}[op]
                    f = {"Lt": a[0] >= b[1], "Le": a[0] > b[1], "Gt": a[1] <= b[0], "Ge": a[1] < b[0],
                         "Eq": a[1] < b[0] or a[0] > b[1], "Ne": a[0] == a[1] == b[0] == b[1]}[op]
                    if t:
                        return (1, 1, True, True)
                    if f:
                        return (0, 0, True, True)
                return (0, 1, True, True)
            if op.endswith("WithOverflow"):
                return None  # handled by the caller (tuple)
            r, ov = self.arith(op, self.op_iv(st, rv["a"]), self.op_iv(st, rv["b"]), rng)
            return r
        if k == "unop" and rv["op"] == "Not" and rng == (0, 1):
            a = self.op_iv(st, rv["a"])
            if a and a[0] == a[1]:
                return (1 - a[0], 1 - a[0], True, True)
            return (0, 1, True, True)
        return top(rng)

    def assign(self, st, s):
        lhs = s["lhs"]
        rv = s["rv"]
        if "*" in lhs[1] or any(not (isinstance(e, list) and e[0] == ".") for e in lhs[1]):
            # store through a pointer / into an element: forget address-taken locals
            if "*" in lhs[1]:
                self.forget_addr_taken(st)
            return
        key = self.key_of(lhs)
        # evaluate the right-hand side in the state before the write
        tup = None
        carry = None
        iv = None
        if rv["k"] == "binop" and rv["op"].endswith("WithOverflow") and not lhs[1]:
            m = re.match(r"^\((\w+), bool\)$", self.tys[lhs[0]])
            rng = ty_range(m.group(1)) if m else None
            r, ov = self.arith(rv["op"], self.op_iv(st, rv["a"]), self.op_iv(st, rv["b"]), rng)
            tup = (r, ov)
        elif rv["k"] == "use" and rv["op"]["k"] != "const" and not lhs[1] and self.rng_of_key(key) is None:
            # moving a tuple local: carry its fields
            sk = self.key_of(rv["op"]["p"])
            carry = {}
            if sk is not None:
                for k2, v in st.items():
                    if k2[0] == sk[0] and k2[1][:len(sk[1])] == sk[1] and len(k2[1]) > len(sk[1]):
                        carry[(lhs[0], k2[1][len(sk[1]):])] = v
        else:
            iv = self.rv_iv(st, rv, key)
        # a write kills the knowledge about the written place and its fields
        for k in [k for k in st if k[0] == lhs[0] and (not lhs[1] or k[1][:len(key[1])] == key[1])]:
            del st[k]
        self.kill_eq(st, lhs[0])
        if not lhs[1] and rv["k"] == "use" and rv["op"]["k"] != "const" and not rv["op"]["p"][1] and ty_range(self.tys[lhs[0]]) is not None:
            src = rv["op"]["p"][0]
            if src != lhs[0]:
                st[("eq", lhs[0])] = st.get(("eq", src), src)
        if tup is not None:
            r, ov = tup
            if r is not None:
                st[(lhs[0], (0,))] = r
                st[(lhs[0], (1,))] = (0, 1, True, True) if ov else (0, 0, True, True)
            return
        if carry is not None:
            st.update(carry)
            return
        if iv is not None and self.rng_of_key(key) is not None:
            st[key] = iv

    def forget_addr_taken(self, st):
        for k in [k for k in st if k[0] in self.addr_taken]:
            del st[k]
        for k in [k for k, v in st.items() if k[0] == "eq" and (k[1] in self.addr_taken or v in self.addr_taken)]:
            del st[k]

    def kill_eq(self, st, l):
        for k in [k for k, v in st.items() if k[0] == "eq" and (k[1] == l or v == l)]:
            del st[k]

    def same_as(self, st, l):
        """locals known to hold the same value as l in state st"""
        root = st.get(("eq", l), l)
        out = {l, root}
        for k, v in st.items():
            if k[0] == "eq" and v == root:
                out.add(k[1])
        return out

    def call(self, st, t):
        dest = t.get("dest")
        argiv = [self.op_iv(st, a) for a in t["args"]]
        self.forget_addr_taken(st)
        if dest:
            self.kill_eq(st, dest[0])
        if not dest or dest[1]:
            return
        for k in [k for k in st if k[0] == dest[0]]:
            del st[k]
        rng = ty_range(self.tys[dest[0]])
        if rng is None:
            return
        nm = t["callee"].rsplit("::", 1)[-1]
        m = re.search(r"core::num::<impl (\w+)>::", t["callee"])
        iv = top(rng)

        def mn(a, b):
            l, h = _lo((a[0], a[2]), (b[0], b[2])), _lo((a[1], a[3]), (b[1], b[3]))
            return (l[0], h[0], l[1], h[1])

        def mx(a, b):
            l, h = _hi((a[0], a[2]), (b[0], b[2])), _hi((a[1], a[3]), (b[1], b[3]))
            return (l[0], h[0], l[1], h[1])

        if m and m.group(1) in INT_BITS and t["args"]:
            bits = INT_BITS[m.group(1)]
            a = argiv[0]
            if nm in ("trailing_zeros", "leading_zeros", "count_ones", "count_zeros", "trailing_ones", "leading_ones"):
                iv = (0, bits, True, False)  # `bits` itself only for a zero argument: not a bound the program chose
                if nm in ("trailing_zeros", "leading_zeros") and a and (a[0] > 0 or a[1] < 0):
                    iv = (0, bits - 1, True, True)
            elif nm in ("min", "max") and len(t["args"]) > 1:
                b = argiv[1]
                if a and b:
                    iv = mn(a, b) if nm == "min" else mx(a, b)
            elif nm in ("wrapping_shr",) and len(t["args"]) > 1:
                b = argiv[1]
                if a and b and a[0] >= 0 and 0 <= b[0] and b[1] < bits:
                    iv = (a[0] >> b[1], a[1] >> b[0], a[2] and b[3], a[3] and b[2])
            elif nm in ("saturating_sub",) and len(t["args"]) > 1:
                b = argiv[1]
                if a and b and rng[0] == 0:
                    iv = (max(0, a[0] - b[1]), max(0, a[1] - b[0]), True, a[3] and b[2])
        elif nm in ("min", "max") and "cmp" in t["callee"] and len(t["args"]) > 1:
            a, b = argiv[0], argiv[1]
            if a and b:
                iv = mn(a, b) if nm == "min" else mx(a, b)
        st[(dest[0], ())] = _clamp(iv, rng)

    # ---- branch refinement
    def _aliases(self, b, upto, l):
        """locals that hold the same value as `l` at the end of block b: l itself and, when l is a
        temporary defined in this block by `copy/move x` (or a value-preserving cast of x) and x is not
        written afterwards, x as well (recursively)."""
        out = [l]
        stmts = self.blocks[b]["stmts"]
        cur = l
        for _ in range(4):
            di = None
            for i in range(len(stmts) - 1, -1, -1):
                s = stmts[i]
                if s["k"] == "assign" and s["lhs"] == [cur, []]:
                    di = i
                    break
            if di is None:
                break
            rv = stmts[di]["rv"]
            src = None
            if rv["k"] == "use" and rv["op"]["k"] != "const" and not rv["op"]["p"][1]:
                src = rv["op"]["p"][0]
            if src is None:
                break
            if any(s["k"] == "assign" and s["lhs"][0] == src for s in stmts[di + 1:]):
                break
            out.append(src)
            cur = src
        return out

    def refine_cmp(self, st, b, op, a, c):
        """assume `a op c` holds (a, c operands)"""
        ia, ic = self.op_iv(st, a), self.op_iv(st, c)
        if ia is None or ic is None:
            return st
        def meet(cur, new):
            l = _hi((cur[0], cur[2]), (new[0], new[2]))
            h = _lo((cur[1], cur[3]), (new[1], new[3]))
            # on a tie prefer the program-originated flag: the guard confirms the bound
            if cur[0] == new[0]:
                l = (l[0], cur[2] or new[2])
            if cur[1] == new[1]:
                h = (h[0], cur[3] or new[3])
            return (l[0], h[0], l[1], h[1])

        def upd(o, new):
            if o["k"] == "const":
                return
            if o["p"][1]:
                k = self.key_of(o["p"])
                if k is not None and self.rng_of_key(k) is not None:
                    st[k] = meet(self.get(st, k), new)
                return
            for l in set(self._aliases(b, None, o["p"][0])) | self.same_as(st, o["p"][0]):
                if ty_range(self.tys[l]) is not None:
                    cur = self.get(st, (l, ()))
                    st[(l, ())] = meet(cur, new) if cur else new
            # a bound on `x >> c` (c constant, x unsigned) is a bound on x
            stmts = self.blocks[b]["stmts"]
            for i in range(len(stmts) - 1, -1, -1):
                s_ = stmts[i]
                if s_["k"] == "assign" and s_["lhs"] == [o["p"][0], []]:
                    rv_ = s_["rv"]
                    if rv_["k"] == "binop" and rv_["op"] in ("Shr", "ShrUnchecked") and rv_["a"]["k"] != "const" and not rv_["a"]["p"][1]:
                        c_ = op_int(rv_["b"])
                        x_ = rv_["a"]["p"][0]
                        rng_ = ty_range(self.tys[x_])
                        if c_ is not None and rng_ is not None and rng_[0] == 0 and new[0] >= 0 and not any(z["k"] == "assign" and z["lhs"][0] == x_ for z in stmts[i + 1:]):
                            xb = (new[0] << c_, ((new[1] + 1) << c_) - 1, new[2], new[3])
                            for l2 in {x_} | self.same_as(st, x_):
                                cur = self.get(st, (l2, ()))
                                if cur and ty_range(self.tys[l2]) is not None:
                                    st[(l2, ())] = meet(cur, xb)
                    break
        A = (ia[0], ia[1], ia[2], ia[3])
        C = (ic[0], ic[1], ic[2], ic[3])
        if op == "Lt":
            na = (A[0], C[1] - 1, A[2], C[3]) if C[1] - 1 < A[1] else A
            nc = (A[0] + 1, C[1], A[2], C[3]) if A[0] + 1 > C[0] else C
        elif op == "Le":
            na = (A[0], C[1], A[2], C[3]) if C[1] < A[1] else A
            nc = (A[0], C[1], A[2], C[3]) if A[0] > C[0] else C
        elif op == "Gt":
            na = (C[0] + 1, A[1], C[2], A[3]) if C[0] + 1 > A[0] else A
            nc = (C[0], A[1] - 1, C[2], A[3]) if A[1] - 1 < C[1] else C
        elif op == "Ge":
            na = (C[0], A[1], C[2], A[3]) if C[0] > A[0] else A
            nc = (C[0], A[1], C[2], A[3]) if A[1] < C[1] else C
        elif op == "Eq":
            l = _hi((A[0], A[2]), (C[0], C[2]))
            h = _lo((A[1], A[3]), (C[1], C[3]))
            na = nc = (l[0], h[0], l[1], h[1])
        else:  # Ne: only the ends can be cut
            na, nc = A, C
            if C[0] == C[1]:
                if A[0] == C[0]:
                    na = (A[0] + 1, A[1], C[2], A[3])
                elif A[1] == C[0]:
                    na = (A[0], A[1] - 1, A[2], C[3])
            if A[0] == A[1]:
                if C[0] == A[0]:
                    nc = (C[0] + 1, C[1], A[2], C[3])
                elif C[1] == A[0]:
                    nc = (C[0], C[1] - 1, C[2], A[3])
        if na[0] > na[1] or nc[0] > nc[1]:
            return None  # infeasible edge
        upd(a, na)
        upd(c, nc)
        return st

    def cond_def(self, b, l, depth=0):
        """the comparison defining bool local l inside block b: (op, a, c) or None"""
        stmts = self.blocks[b]["stmts"]
        for i in range(len(stmts) - 1, -1, -1):
            s = stmts[i]
            if s["k"] == "assign" and s["lhs"] == [l, []]:
                rv = s["rv"]
                if rv["k"] == "binop" and rv["op"] in CMP:
                    # the operands must not be rewritten between the comparison and the branch
                    for o in (rv["a"], rv["b"]):
                        if o["k"] != "const" and any(x["k"] == "assign" and x["lhs"][0] == o["p"][0] for x in stmts[i + 1:]):
                            return None
                    return (rv["op"], rv["a"], rv["b"])
                if rv["k"] == "unop" and rv["op"] == "Not" and rv["a"]["k"] != "const" and not rv["a"]["p"][1] and depth < 3:
                    r = self.cond_def(b, rv["a"]["p"][0], depth + 1)
                    return (NEG[r[0]], r[1], r[2]) if r else None
                if rv["k"] == "use" and rv["op"]["k"] != "const" and not rv["op"]["p"][1] and depth < 3:
                    return self.cond_def(b, rv["op"]["p"][0], depth + 1)
                return None
        return None

    def edges(self, b, st):
        """successor states: list of (target, state)"""
        t = self.blocks[b]["term"]
        k = t["k"]
        out = []
        if k == "goto":
            out.append((t["t"], st))
        elif k == "switch":
            d = t["discr"]
            dl = op_local(d)
            tgts = [(int(v), x) for v, x in t["targets"]]
            cd = self.cond_def(b, dl) if (dl is not None and t.get("dty") == "bool") else None
            for v, x in tgts:
                s2 = dict(st)
                if cd:
                    op = cd[0] if v != 0 else NEG[cd[0]]
                    s2 = self.refine_cmp(s2, b, op, cd[1], cd[2])
                elif dl is not None and not d["p"][1] and ty_range(self.tys[dl]) is not None:
                    s2 = self.refine_cmp(s2, b, "Eq", d, {"k": "const", "int": str(v), "ty": self.tys[dl]})
                if s2 is not None:
                    out.append((x, s2))
            s2 = dict(st)
            ok = True
            if cd and t.get("dty") == "bool" and len(tgts) == 1:
                v = tgts[0][0]
                op = NEG[cd[0]] if v != 0 else cd[0]
                s2 = self.refine_cmp(s2, b, op, cd[1], cd[2])
                ok = s2 is not None
            elif dl is not None and not d["p"][1] and ty_range(self.tys[dl]) is not None:
                for v, x in sorted(tgts):
                    s3 = self.refine_cmp(s2, b, "Ne", d, {"k": "const", "int": str(v), "ty": self.tys[dl]})
                    if s3 is None:
                        ok = False
                        break
                    s2 = s3
                if ok:
                    for v, x in sorted(tgts, reverse=True):
                        s3 = self.refine_cmp(s2, b, "Ne", d, {"k": "const", "int": str(v), "ty": self.tys[dl]})
                        if s3 is None:
                            ok = False
                            break
                        s2 = s3
            if ok and t.get("otherwise") is not None:
                out.append((t["otherwise"], s2))
        elif k == "call":
            s2 = dict(st)
            self.call(s2, t)
            if t.get("t") is not None:
                out.append((t["t"], s2))
        elif k == "assert":
            s2 = dict(st)
            cl = op_local(t["cond"])
            cd = self.cond_def(b, cl) if cl is not None else None
            if cd:
                op = cd[0] if t["expected"] else NEG[cd[0]]
                r = self.refine_cmp(s2, b, op, cd[1], cd[2])
                if r is not None:
                    s2 = r
            out.append((t["t"], s2))
        elif k == "drop":
            s2 = dict(st)
            self.forget_addr_taken(s2)
            out.append((t["t"], s2))
        elif k == "asm":
            for x in t.get("targets", []):
                out.append((x, {}))
        return out

    def flow_block(self, b, st, upto=None):
        st = dict(st)
        for i, s in enumerate(self.blocks[b]["stmts"]):
            if upto is not None and i >= upto:
                break
            if s["k"] == "assign":
                self.assign(st, s)
            elif s["k"] not in ("live", "dead"):
                self.forget_addr_taken(st)
        return st

    def _join(self, old, new, widen):
        out = {}
        for k in set(old) & set(new):
            a, c = old[k], new[k]
            if k[0] == "eq":
                if a == c:
                    out[k] = a
                continue
            h = _hull(a, c)
            if widen and h[:2] != a[:2]:
                rng = self.rng_of_key(k)
                if rng is None:
                    continue
                h = (h[0] if h[0] == a[0] else rng[0], h[1] if h[1] == a[1] else rng[1],
                     h[2] if h[0] == a[0] else False, h[3] if h[1] == a[1] else False)
            out[k] = h
        return out

    def _in_cycle(self, b):
        """widening is only needed where a value can grow round a loop; a plain join of many branches is exact"""
        c = self._cyc.get(b)
        if c is None:
            c = any(b in self.fn.reachable_from(x) for x in self.fn.succs(b))
            self._cyc[b] = c
        return c

    def _run(self):
        self._cyc = {}
        self.state_in = {0: {}}
        work = [0]
        n = 0
        while work:
            n += 1
            if n > 20000:
                raise RuntimeError("interval analysis did not converge: " + self.fn.id)
            b = work.pop(0)
            st = self.flow_block(b, self.state_in[b])
            for tgt, s2 in self.edges(b, st):
                if self.blocks[tgt].get("cleanup"):
                    continue
                if tgt not in self.state_in:
                    self.state_in[tgt] = s2
                    self.visits[tgt] = 1
                    work.append(tgt)
                else:
                    self.visits[tgt] += 1
                    j = self._join(self.state_in[tgt], s2, self.visits[tgt] > WIDEN and self._in_cycle(tgt))
                    if j != self.state_in[tgt]:
                        self.state_in[tgt] = j
                        if tgt not in work:
                            work.append(tgt)

    # ---- queries
    def before_stmt(self, b, i):
        if b not in self.state_in:
            return None  # unreachable
        return self.flow_block(b, self.state_in[b], upto=i)

    def before_term(self, b):
        if b not in self.state_in:
            return None
        return self.flow_block(b, self.state_in[b])

    def operand_at_term(self, b, o):
        st = self.before_term(b)
        return None if st is None else self.op_iv(st, o)

    def operand_at_stmt(self, b, i, o):
        st = self.before_stmt(b, i)
        return None if st is None else self.op_iv(st, o)


# ---------------------------------------------------------------------------------------------
# discharge of the panic / wrap obligations of one body

def _bound_info(iv, ty):
    if iv is None:
        return (False, False)
    return (iv[2], iv[3])


def fmt(iv):
    if iv is None:
        return "unreachable"
    return f"[{iv[0]}{'' if iv[2] else '?'}, {iv[1]}{'' if iv[3] else '?'}]"


def obligations(fn, ivs=None):
    """Every place where the body can panic on an arithmetic or index check (debug or release), or wrap:
    assert terminators (BoundsCheck / Overflow / OverflowNeg / DivisionByZero), unsigned `a - b`,
    shifts by a variable amount (operators and wrapping_sh*/unchecked_sh* calls).
    Returns records {kind, desc, b, ln, verdict, detail}; verdict is
      proved   - the interval state excludes the failure,
      exceeds  - a bound that comes from the program's own constants and guards (not from the type) lies on
                 the failing side,
      unknown  - the analysis has no bound to offer (nothing is claimed)."""
    iv = ivs or Intervals(fn)
    out = []

    def opdesc(o):
        if o["k"] == "const":
            v = op_int(o)
            return str(v) if v is not None else "const"
        p = o["p"]
        l = p[0]
        for _ in range(6):
            nm = fn.locals[l].get("name")
            if nm:
                return nm
            d = fn.single_def(l)
            if d and d[0] == "stmt" and d[3]["rv"]["k"] in ("use", "cast") and d[3]["rv"]["op"]["k"] != "const" and not d[3]["rv"]["op"]["p"][1]:
                l = d[3]["rv"]["op"]["p"][0]
                continue
            if d and d[0] == "stmt" and d[3]["rv"]["k"] == "use" and d[3]["rv"]["op"]["k"] != "const":
                fl = [e[2] for e in d[3]["rv"]["op"]["p"][1] if isinstance(e, list) and e[0] == "."]
                if fl and fl[-1] in ("0", "1"):
                    l = d[3]["rv"]["op"]["p"][0]
                    continue
            if d and d[0] == "call":
                return d[2]["callee"].rsplit("::", 1)[-1] + "()"
            break
        return "_"

    def sub_check(a, c, ty, b, ln, where):
        if ty is None or ty_range(ty) is None or ty_range(ty)[0] != 0:
            return
        desc = f"Sub({opdesc(a['o'])},{opdesc(c['o'])})"
        ia, ic = a["iv"], c["iv"]
        if ia is None or ic is None:
            out.append(dict(kind="sub", desc=desc, b=b, ln=ln, verdict="unknown", detail="operand is not a tracked scalar"))
            return
        if ic[1] <= ia[0]:
            v = "proved"
        else:
            ai = _bound_info(ia, ty)
            ci = _bound_info(ic, ty)
            # two variables may be related (table monotonicity, a <= b by construction): only a constant
            # operand makes the interval verdict exact enough to alarm
            v = "exceeds" if (ai[0] and ci[1] and (ia[0] == ia[1] or ic[0] == ic[1])) else "unknown"
        out.append(dict(kind="sub", desc=desc, b=b, ln=ln, verdict=v, detail=f"{fmt(ia)} - {fmt(ic)}", ops=[op_local(a["o"]), op_local(c["o"])]))

    def shift_check(amount, bits, aty, desc, b, ln, aop=None):
        ic = amount
        if ic is None:
            out.append(dict(kind="shift-upper", desc=desc, b=b, ln=ln, verdict="unknown", detail="amount is not a tracked scalar"))
            return
        info = _bound_info(ic, aty)
        up = "proved" if ic[1] < bits else ("exceeds" if info[1] else "unknown")
        lo = "proved" if ic[0] >= 0 else ("exceeds" if info[0] else "unknown")
        out.append(dict(kind="shift-upper", desc=desc, b=b, ln=ln, verdict=up, detail=f"amount {fmt(ic)}, width {bits}", ops=[aop]))
        if lo != "proved":
            out.append(dict(kind="shift-lower", desc=desc, b=b, ln=ln, verdict=lo, detail=f"amount {fmt(ic)}"))

    for b, blk in enumerate(fn.d["blocks"]):
        if blk.get("cleanup"):
            continue
        for i, s in enumerate(blk["stmts"]):
            if s["k"] != "assign":
                continue
            rv = s["rv"]
            if rv["k"] != "binop":
                continue
            st = iv.before_stmt(b, i)
            if rv["op"] in ("Sub", "SubWithOverflow", "SubUnchecked"):
                ty = iv.op_ty(rv["a"]) or iv.op_ty(rv["b"])
                if st is None:
                    continue
                sub_check({"o": rv["a"], "iv": iv.op_iv(st, rv["a"])}, {"o": rv["b"], "iv": iv.op_iv(st, rv["b"])}, ty, b, s.get("ln"), "stmt")
            elif rv["op"] in ("Shl", "Shr", "ShlUnchecked", "ShrUnchecked") and rv["b"]["k"] != "const":
                ty = iv.op_ty(rv["a"])
                if st is None or ty not in INT_BITS:
                    continue
                shift_check(iv.op_iv(st, rv["b"]), INT_BITS[ty], iv.op_ty(rv["b"]), f"{rv['op'][:3]}({opdesc(rv['a'])},{opdesc(rv['b'])})", b, s.get("ln"), op_local(rv["b"]))
        t = blk["term"]
        if t["k"] == "call":
            nm = t["callee"].rsplit("::", 1)[-1]
            m = re.search(r"core::num::<impl (\w+)>::", t["callee"])
            if m and m.group(1) in INT_BITS and nm in ("wrapping_shr", "wrapping_shl", "unchecked_shl", "unchecked_shr") and t["args"][1]["k"] != "const":
                st = iv.before_term(b)
                if st is not None:
                    shift_check(iv.op_iv(st, t["args"][1]), INT_BITS[m.group(1)], iv.op_ty(t["args"][1]), f"{nm}({opdesc(t['args'][0])},{opdesc(t['args'][1])})", b, t.get("ln"), op_local(t["args"][1]))
        if t["k"] == "assert":
            kind = str(t["msg"]).split("(")[0]
            if kind not in ("BoundsCheck", "DivisionByZero", "RemainderByZero"):
                continue  # Overflow asserts are covered by the operation itself (sub) or not claimed (add/mul)
            st = iv.before_term(b)
            if st is None:
                continue
            cl = op_local(t["cond"])
            cd = iv.cond_def(b, cl) if cl is not None else None
            c = iv.op_iv(st, t["cond"])
            want = 1 if t["expected"] else 0
            desc = kind
            detail = ""
            v = "unknown"
            ops = []
            if kind == "BoundsCheck" and cd and cd[0] == "Lt":
                ii, il = iv.op_iv(st, cd[1]), iv.op_iv(st, cd[2])
                desc = f"BoundsCheck({opdesc(cd[1])}<{opdesc(cd[2]) if cd[2]['k'] == 'const' or (il and il[0] == il[1]) else 'len'})"
                if il and il[0] == il[1]:
                    desc = f"BoundsCheck({opdesc(cd[1])}<{il[0]})"
                detail = f"index {fmt(ii)}, length {fmt(il)}"
                ops = [op_local(cd[1])]
                if ii and il:
                    if ii[1] < il[0]:
                        v = "proved"
                    elif il[0] == il[1] and _bound_info(ii, iv.op_ty(cd[1]))[1]:
                        v = "exceeds"
            elif c and c[:2] == (want, want):
                v = "proved"
            out.append(dict(kind=kind, desc=desc, b=b, ln=t.get("ln"), verdict=v, detail=detail, ops=ops))
    return out


def guard_present(fn, b, locals_):
    """structural fallback for a check the intervals cannot decide: is the site control-dependent on a branch
    whose condition is computed from the same values (a guard written in an idiom the engine does not model)?"""
    from .analysis import backward_slice
    want = set()
    for l in locals_:
        if l is not None:
            sl, _ = backward_slice(fn, [l])
            want |= set(sl)
    if not want:
        return False
    for bb, t in fn.terms():
        if t["k"] != "switch" or bb == b or not fn.dominates(bb, b):
            continue
        dl = op_local(t["discr"])
        if dl is None:
            continue
        sl, _ = backward_slice(fn, [dl])
        if not (set(sl) & want):
            continue
        # `x == K` / `x != K` against a constant is modelled exactly by the engine; if the site is still undecided, that
        # test is not what bounds the operand (`if off != 64 { 1 << off }` bounds nothing)
        d = fn.single_def(dl)
        for _ in range(4):
            if d and d[0] == "stmt" and d[3]["rv"]["k"] in ("use", "unop") and op_local(d[3]["rv"].get("op", d[3]["rv"].get("a"))) is not None:
                d = fn.single_def(op_local(d[3]["rv"].get("op", d[3]["rv"].get("a"))))
            else:
                break
        if d and d[0] == "stmt" and d[3]["rv"]["k"] == "binop" and d[3]["rv"]["op"] in ("Eq", "Ne") and (d[3]["rv"]["a"]["k"] == "const" or d[3]["rv"]["b"]["k"] == "const"):
            continue
        tg = {x for _, x in t["targets"]} | {t["otherwise"]}
        if len(tg) >= 2 and any(b not in fn.reachable_from(x) and x != b for x in tg):
            return True
    return False

"""Lane-wise semantics of the SIMD wrapper methods.

A wrapper body is straight-line MIR over vendor intrinsics, sibling wrapper methods and tuple
(lo, hi) composition.  It is turned into an expression over the two inputs (SELF, RHS) and
evaluated lane-wise for all 256 x 256 byte pairs with the intrinsics' scalar definitions
(table below, from the vendor manuals).  No library code is executed."""
from .facts import op_local, op_place, op_int, callee_is


class Unsupported(Exception):
    pass


def s8(x):
    return x - 256 if x >= 128 else x


M = lambda c: 0xFF if c else 0

# name suffix -> (arity, function on lane bytes)
INTRINSICS = {
    "cmpeq_epi8": (2, lambda a, b: M(a == b)),
    "cmpgt_epi8": (2, lambda a, b: M(s8(a) > s8(b))),
    "max_epu8": (2, lambda a, b: max(a, b)),
    "min_epu8": (2, lambda a, b: min(a, b)),
    "max_epi8": (2, lambda a, b: max(s8(a), s8(b)) & 0xFF),
    "min_epi8": (2, lambda a, b: min(s8(a), s8(b)) & 0xFF),
    "or_si128": (2, lambda a, b: a | b), "or_si256": (2, lambda a, b: a | b),
    "and_si128": (2, lambda a, b: a & b), "and_si256": (2, lambda a, b: a & b),
    "xor_si128": (2, lambda a, b: a ^ b), "xor_si256": (2, lambda a, b: a ^ b),
    "andnot_si128": (2, lambda a, b: (~a & 0xFF) & b), "andnot_si256": (2, lambda a, b: (~a & 0xFF) & b),
    "subs_epu8": (2, lambda a, b: max(a - b, 0)),
    "adds_epu8": (2, lambda a, b: min(a + b, 255)),
    "sub_epi8": (2, lambda a, b: (a - b) & 0xFF),
    "add_epi8": (2, lambda a, b: (a + b) & 0xFF),
    # neon
    "vceqq_u8": (2, lambda a, b: M(a == b)), "vceqq_s8": (2, lambda a, b: M(a == b)),
    "vcgtq_u8": (2, lambda a, b: M(a > b)), "vcgtq_s8": (2, lambda a, b: M(s8(a) > s8(b))),
    "vcgeq_u8": (2, lambda a, b: M(a >= b)), "vcgeq_s8": (2, lambda a, b: M(s8(a) >= s8(b))),
    "vcleq_u8": (2, lambda a, b: M(a <= b)), "vcleq_s8": (2, lambda a, b: M(s8(a) <= s8(b))),
    "vcltq_u8": (2, lambda a, b: M(a < b)), "vcltq_s8": (2, lambda a, b: M(s8(a) < s8(b))),
    "vorrq_u8": (2, lambda a, b: a | b), "vandq_u8": (2, lambda a, b: a & b),
    "vmaxq_u8": (2, lambda a, b: max(a, b)), "vminq_u8": (2, lambda a, b: min(a, b)),
    "vmvnq_u8": (1, lambda a: (~a) & 0xFF),
}
LOADS = ("_mm_loadu_si128", "_mm_lddqu_si128", "_mm256_loadu_si256", "vld1q_u8", "vld1q_s8")
IDENT = ("vreinterpretq_u8_s8", "vreinterpretq_s8_u8", "transmute", "clone")


def intrinsic_of(callee):
    nm = callee.rsplit("::", 1)[-1]
    for suf, v in INTRINSICS.items():
        if nm == suf or nm.endswith("_" + suf):
            return suf, v
    return None


class Lanes:
    def __init__(self, prog):
        self.prog = prog
        self.cache = {}

    def summary(self, fid, depth=0):
        """expression of the return value of a wrapper method in terms of its two parameters"""
        if fid in self.cache:
            return self.cache[fid]
        if depth > 8:
            raise Unsupported("recursion too deep")
        fn = self.prog.fns.get(fid)
        if fn is None:
            raise Unsupported(f"no body for {fid}")
        self.cache[fid] = None
        e = self._expr_of_local(fn, 0, depth, set())
        self.cache[fid] = e
        return e

    def _param_expr(self, fn, p):
        """place rooted at parameter 1 or 2 -> ('in', 'SELF'|'RHS', halfpath)"""
        base = p[0]
        s = fn.src(base)
        who = None
        if 1 <= base <= fn.argc and not fn.defs.get(base):
            who = base
        elif s[0] == "param":
            who = s[1]
        elif s[0] == "place":
            inner = self._param_expr(fn, s[1])
            if inner:
                path = [e[1] for e in p[1] if isinstance(e, list) and e[0] == "."]
                return ("in", inner[1], inner[2] + tuple(path))
            return None
        if who is None:
            return None
        path = tuple(e[1] for e in p[1] if isinstance(e, list) and e[0] == ".")
        return ("in", "SELF" if who == 1 else "RHS", path)

    def _expr_of_operand(self, fn, o, depth, seen, at=None):
        if o["k"] != "const" and op_local(o) is not None:
            sc = fn.src(op_local(o))
            if sc[0] == "const" and op_int(sc[1]) is not None:
                return ("const", op_int(sc[1]) & 0xFF)
            if fn.locals[op_local(o)]["ty"] in ("i8", "u8", "i32", "u32", "i64", "u64", "usize", "isize"):
                from .analysis import affine_of
                af = affine_of(fn, o)
                if af is not None and af[0] == 0:
                    return ("const", af[1] & 0xFF)
        if o["k"] == "const":
            v = op_int(o)
            if v is None:
                raise Unsupported("non-integer constant")
            return ("const", v & 0xFF)
        p = o["p"]
        pe = self._param_expr(fn, p)
        if pe:
            return pe
        if p[1] and not all(e == "*" or (isinstance(e, list) and e[0] == ".") for e in p[1]):
            raise Unsupported("indexing in a straight-line wrapper")
        e = self._expr_of_local(fn, p[0], depth, seen, at)
        path = tuple(x[1] for x in p[1] if isinstance(x, list) and x[0] == ".")
        for i in path:
            if e[0] == "pair":
                e = e[1 + i]
            elif e[0] == "wrap":
                e = e[1]
        return e

    def _expr_of_local(self, fn, l, depth, seen, at=None):
        if l in seen:
            raise Unsupported("cyclic definition")
        seen = seen | {l}
        if 1 <= l <= fn.argc and not fn.defs.get(l):
            return ("in", "SELF" if l == 1 else "RHS", ())
        d = fn.single_def(l)
        if d is None and at is not None:
            # a re-assigned local: the definition that dominates the point of use
            cands = [x for x in fn.defs.get(l, []) if fn.dominates(x[1], at) and x[1] != at]
            if len(cands) == 1:
                d = cands[0]
        if d is None:
            raise Unsupported(f"local _{l} of {fn.id} has no unique definition (not straight-line)")
        at = d[1]
        if d[0] == "call":
            t = d[2]
            if t["callee"].rsplit("::", 1)[-1] in LOADS:
                return ("in", "SELF", ())
            it = intrinsic_of(t["callee"])
            args = [self._expr_of_operand(fn, a, depth, seen, at) for a in t["args"]]
            if it:
                return ("intr", it[0], tuple(args))
            nm = t["callee"].rsplit("::", 1)[-1]
            if nm in LOADS:
                return ("in", "SELF", ())
            if nm in IDENT:
                return args[0]
            if nm.endswith(("set1_epi8", "vdupq_n_u8", "vdupq_n_s8")):
                return args[0]
            if nm.endswith(("setzero_si128", "setzero_si256")):
                return ("const", 0)
            if t["callee"] in self.prog.fns:
                try:
                    inner = self.summary(t["callee"], depth + 1)
                    if inner is None:
                        raise Unsupported("recursive wrapper")
                except Unsupported:
                    # a sibling wrapper that is not straight-line (portable lane loop): keep the call as an
                    # opaque leaf; that method is checked on its own by the portable-loop rule
                    cf = self.prog.fns[t["callee"]]
                    if (cf.trait or "").endswith("traits::Simd") and cf.name in ("eq", "gt", "le"):
                        elem = None
                        for im in self.prog.impls:
                            if im["trait"] == cf.trait and im["methods"].get(cf.name) == cf.id:
                                elem = im["types"].get("Element")
                        return ("leafm", cf.name, elem, tuple(args))
                    raise
                return self._subst(inner, args)
            raise Unsupported(f"unknown primitive {t['callee']}")
        rv = d[3]["rv"]
        k = rv["k"]
        if k == "use" or (k == "cast" and rv["ck"] in ("Transmute", "PtrToPtr")):
            return self._expr_of_operand(fn, rv["op"], depth, seen, at)
        if k == "ref":
            pe = self._param_expr(fn, rv["p"])
            if pe:
                return pe
            e = self._expr_of_local(fn, rv["p"][0], depth, seen, at)
            for x in rv["p"][1]:
                if isinstance(x, list) and x[0] == ".":
                    if e[0] == "pair":
                        e = e[1 + x[1]]
                    elif e[0] == "wrap":
                        e = e[1]
            return e
        if k == "agg":
            fs = [self._expr_of_operand(fn, x, depth, seen, at) for x in rv["f"]]
            if rv["ak"] == "tuple" and len(fs) == 2:
                return ("pair", fs[0], fs[1])
            if rv["ak"] == "adt" and len(fs) == 1:
                return ("wrap", fs[0])
        raise Unsupported(f"rvalue {k} in {fn.id}")

    def _subst(self, e, args):
        if e[0] == "in":
            a = args[0] if e[1] == "SELF" else args[1] if len(args) > 1 else None
            if a is None:
                raise Unsupported("missing argument")
            # apply the half path
            for i in e[2]:
                if a[0] == "in":
                    a = ("in", a[1], a[2] + (i,))
                elif a[0] == "pair":
                    a = a[1 + i]
                elif a[0] == "wrap":
                    a = a[1]
            return a
        if e[0] == "const":
            return e
        if e[0] == "intr":
            return ("intr", e[1], tuple(self._subst(x, args) for x in e[2]))
        if e[0] == "pair":
            return ("pair", self._subst(e[1], args), self._subst(e[2], args))
        if e[0] == "wrap":
            return ("wrap", self._subst(e[1], args))
        if e[0] == "leafm":
            return ("leafm", e[1], e[2], tuple(self._subst(x, args) for x in e[3]))
        raise Unsupported(str(e[0]))


def halves(e):
    """set of (input, half path) used by an expression"""
    if e[0] == "in":
        return {(e[1], e[2])}
    if e[0] == "const":
        return set()
    if e[0] == "intr":
        out = set()
        for x in e[2]:
            out |= halves(x)
        return out
    if e[0] == "leafm":
        out = set()
        for x in e[3]:
            out |= halves(x)
        return out
    if e[0] in ("pair",):
        return halves(e[1]) | halves(e[2])
    if e[0] == "wrap":
        return halves(e[1])
    return set()


def leaves(e):
    """flatten a composite mask into its (lane expression, position path) leaves in lane order"""
    if e[0] == "wrap":
        return leaves(e[1])
    if e[0] == "pair":
        return [(x, (0,) + p) for x, p in leaves(e[1])] + [(x, (1,) + p) for x, p in leaves(e[2])]
    return [(e, ())]


def ev(e, a, b):
    if e[0] == "in":
        return a if e[1] == "SELF" else b
    if e[0] == "const":
        return e[1]
    if e[0] == "intr":
        ar, f = INTRINSICS[e[1]]
        vals = [ev(x, a, b) for x in e[2]]
        return f(*vals[:ar])
    if e[0] == "wrap":
        return ev(e[1], a, b)
    if e[0] == "leafm":
        # a portable sibling method applied to (x, y): its scalar definition (verified separately)
        x, y = [ev(z, a, b) for z in e[3][:2]]
        return M(SPEC[(e[1], e[2])](x, y))
    raise Unsupported(e[0])


SPEC = {
    ("eq", "u8"): lambda a, b: a == b, ("eq", "i8"): lambda a, b: a == b,
    ("gt", "u8"): lambda a, b: a > b, ("gt", "i8"): lambda a, b: s8(a) > s8(b),
    ("le", "u8"): lambda a, b: a <= b, ("le", "i8"): lambda a, b: s8(a) <= s8(b),
}


def check_method(expr, method, elem):
    """returns (ok, message, npairs)"""
    spec = SPEC[(method, elem)]
    lv = leaves(expr)
    n = 0
    for pos, (le, path) in enumerate(lv):
        # a lane block at position `path` of the composite must be computed from the same position of
        # both inputs (lo from lo, hi from hi)
        if path:
            for who, hp in halves(le):
                if not _ends_with(tuple(hp), path):
                    return False, f"lane block {path} of the result is computed from block {tuple(hp)[1::2]} of {who} (lo/hi mixed up)", n
        for a in range(256):
            for b in range(256):
                n += 1
                got = ev(le, a, b)
                if got not in (0, 0xFF) and got not in (0, 1):
                    return False, f"lane result {got:#x} for ({a},{b}) is not a mask value", n
                if bool(got) != spec(a, b):
                    return False, f"lane ({a:#04x},{b:#04x}) as {elem}: wrapper gives {bool(got)}, {method} is {spec(a, b)}", n
    return True, f"{len(lv)} lane block(s) x 65536 operand pairs agree with the scalar definition of {method} on {elem}", n


def _ends_with(seq, tail):
    # input half paths look like (0, i, 0?, j ...): tuple-struct field 0 then the half index; compare the
    # half indices only
    idx = [x for k, x in enumerate(seq)]
    # strip wrapper zeros: every other element starting at 0 is the `.0` of the newtype
    hs = tuple(idx[1::2]) if len(idx) >= 2 else tuple()
    return hs[-len(tail):] == tuple(tail) if tail else True

"""Dataflow helpers over one MIR body: slices, derived locals, control dependence, enum
variant operands, classification of return kinds."""
import collections, functools
from .facts import op_place, op_local, op_int, fmt_place, callee_is


def rv_operands(rv):
    k = rv["k"]
    if k in ("use", "cast", "repeat"):
        return [rv["op"]]
    if k == "binop":
        return [rv["a"], rv["b"]]
    if k == "unop":
        return [rv["a"]]
    if k == "agg":
        return list(rv["f"])
    return []


def rv_places(rv):
    """places read by an rvalue"""
    out = [op_place(o) for o in rv_operands(rv)]
    if rv["k"] in ("ref", "rawptr", "discr"):
        out.append(rv["p"])
    return [p for p in out if p is not None]


def place_locals(p):
    ls = [p[0]]
    for e in p[1]:
        if isinstance(e, list) and e[0] == "idx":
            ls.append(e[1])
    return ls


def _fields(p):
    return [e[2] for e in p[1] if isinstance(e, list) and e[0] in (".",)] if p[1] else []


def _compatible(read_fields, write_fields):
    """could a write to base.<write_fields> be seen by a read of base.<read_fields>?"""
    n = min(len(read_fields), len(write_fields))
    return read_fields[:n] == write_fields[:n]


def backward_slice(fn, roots, through_calls=True):
    """Flow-insensitive, field-sensitive backward data slice.  Returns (locals, leaves) where leaves is a
    list of ('param', n) | ('call', bb, term) | ('place', place, bb) | ('const', op).
    A read of `base.f` only follows partial definitions of `base` that write `base.f` (or a prefix /
    extension of it); whole-local definitions are always followed."""
    seen = set()
    seen_locals = set()
    leaves = []
    st = [(r, None) for r in roots if r is not None]

    def push_place(p):
        f = _fields(p)
        st.append((p[0], tuple(f) if p[1] else None))
        for e in p[1]:
            if isinstance(e, list) and e[0] == "idx":
                st.append((e[1], None))

    while st:
        l, fl = st.pop()
        key = (l, fl)
        if key in seen:
            continue
        seen.add(key)
        first_visit = l not in seen_locals
        seen_locals.add(l)
        if first_visit and 1 <= l <= fn.argc:
            leaves.append(("param", l))
        # a read of one field of a tuple / struct that was built by an aggregate follows only the operand stored in that field
        agg_defs = [d for d in fn.defs.get(l, []) if d[0] == "stmt" and d[3]["rv"]["k"] == "agg" and d[3]["rv"].get("ak") in ("tuple", "adt") and len(d[3]["rv"].get("f", [])) >= 2]
        for d in agg_defs:
            rv = d[3]["rv"]
            sel = None
            if fl:
                names = rv.get("fields") or [str(i_) for i_ in range(len(rv["f"]))]
                if fl[0] in names:
                    sel = names.index(fl[0])
                elif str(fl[0]).isdigit() and int(fl[0]) < len(rv["f"]):
                    sel = int(fl[0])
            ops = [rv["f"][sel]] if sel is not None else rv["f"]
            for o in ops:
                ak = (l, "agg", id(d[3]), id(o))
                if ak in seen:
                    continue
                seen.add(ak)
                if o["k"] == "const":
                    leaves.append(("const", o))
                p_ = op_place(o)
                if p_ is not None:
                    push_place(p_)
                    if p_[1]:
                        leaves.append(("place", p_, d[1]))
        if first_visit:
            for d in fn.defs.get(l, []):
                if d in agg_defs:
                    continue
                if d[0] == "call":
                    t = d[2]
                    leaves.append(("call", d[1], t))
                    if through_calls:
                        for a in t["args"]:
                            p = op_place(a)
                            if p is not None:
                                push_place(p)
                                if p[1]:
                                    leaves.append(("place", p, d[1]))
                else:
                    s = d[3]
                    rv = s["rv"]
                    for o in rv_operands(rv):
                        if o["k"] == "const":
                            leaves.append(("const", o))
                    for p in rv_places(rv):
                        push_place(p)
                        if p[1]:
                            leaves.append(("place", p, d[1]))
        for (b, i, s) in fn.partial_defs.get(l, []):
            lhs = s["dest"] if i == "term" else s["lhs"]
            wf = _fields(lhs)
            if fl is not None and not _compatible(list(fl), wf):
                continue
            pk = (l, "pd", b, i if i == "term" else id(s))
            if pk in seen:
                continue
            seen.add(pk)
            if i == "term":
                leaves.append(("call", b, s))
                if through_calls:
                    for a in s["args"]:
                        p = op_place(a)
                        if p is not None:
                            push_place(p)
            else:
                rv = s["rv"]
                for o in rv_operands(rv):
                    if o["k"] == "const":
                        leaves.append(("const", o))
                for p in rv_places(rv):
                    push_place(p)
                    if p[1]:
                        leaves.append(("place", p, b))
    return seen_locals, leaves


def forward_derived(fn, start_locals, through=("use", "cast", "ref", "rawptr"), deref_ok=True):
    """locals that hold (a copy / cast / reborrow of) the value of the start locals.
    Propagates through Use, Cast and `&*x` / `&raw *x` (same address).  Returns set of locals."""
    derived = set(start_locals)
    changed = True
    while changed:
        changed = False
        for b, i, s in fn.assigns():
            lhs = s["lhs"]
            if lhs[1]:
                continue
            if lhs[0] in derived:
                continue
            rv = s["rv"]
            k = rv["k"]
            srcp = None
            if k in ("use", "cast") and k in through:
                srcp = op_place(rv["op"])
                if srcp is not None and srcp[1]:
                    srcp = None
            elif k in ("ref", "rawptr") and k in through:
                p = rv["p"]
                if p[1] == ["*"]:
                    srcp = p
            if srcp is not None and srcp[0] in derived:
                derived.add(lhs[0])
                changed = True
    return derived


def enum_variant_of_operand(fn, o):
    """if the operand is (a copy of) a fieldless enum aggregate like Ordering::Acquire, return
    the variant name"""
    l = op_local(o)
    if l is None:
        return None
    s = fn.src(l)
    if s[0] == "rv":
        rv = s[1]["rv"]
        if rv["k"] == "agg" and rv.get("ak") == "adt":
            return rv["variant"]
    return None


def agg_of_local(fn, l):
    """the aggregate rvalue that defines local l (through copies), or None"""
    s = fn.src(l)
    if s[0] == "rv" and s[1]["rv"]["k"] == "agg":
        return s[1]["rv"]
    return None


def switch_edges(fn, b):
    """for a switch terminator: list of (value or None for otherwise, target)"""
    t = fn.blocks[b]["term"]
    if t["k"] != "switch":
        return []
    return [(int(v), tgt) for v, tgt in t["targets"]] + [(None, t["otherwise"])]


def discr_switches_on(fn, local):
    """switch terminators whose discriminant is `discriminant(local)` (or the local itself).
    yields (bb, term, variantmap) where variantmap maps switch value -> target"""
    out = []
    for b, t in fn.terms():
        if t["k"] != "switch":
            continue
        dl = op_local(t["discr"])
        if dl is None:
            continue
        d = fn.single_def(dl)
        if d and d[0] == "stmt" and d[3]["rv"]["k"] == "discr" and d[3]["rv"]["p"][0] == local and not d[3]["rv"]["p"][1]:
            out.append((b, t))
        elif dl == local:
            out.append((b, t))
    return out


def control_deps(fn):
    """block -> set of (switch block, successor taken) on which it is control dependent
    (computed from post-dominators over return paths; diverging blocks get deps from plain
    reachability: a block that cannot return depends on every switch edge that leads only to it)."""
    pd = fn.pdom
    deps = collections.defaultdict(set)
    for a in fn.reach:
        succ = fn.succs(a)
        if len(set(succ)) < 2:
            continue
        for s in set(succ):
            # blocks that post-dominate s but not a  (walk from s up the pdom tree)
            # equivalent: every node n in pdom-chain of s until reaching a pdom of a
            if s not in pd:
                # s cannot return: all blocks reachable only ... approximate: blocks reachable from s
                for n in fn.reachable_from(s):
                    if n not in pd:
                        deps[n].add((a, s))
                continue
            pa = pd.get(a, set())
            for n in pd[s]:
                if n not in pa or n == a:
                    deps[n].add((a, s))
    return deps


def return_kinds(fn):
    """Classify the assignments to _0: list of (bb, kind, stmt/term) with kind in
    'Ok','Err','Some','None','call','other'"""
    out = []
    for d in fn.defs.get(0, []):
        if d[0] == "call":
            out.append((d[1], "call", d[2]))
        else:
            rv = d[3]["rv"]
            if rv["k"] == "agg" and rv.get("ak") == "adt":
                out.append((d[1], rv["variant"], d[3]))
            else:
                out.append((d[1], "other", d[3]))
    return out


def call_sites(fn, *names):
    return [(b, t) for b, t in fn.calls() if callee_is(t, *names)]


def blocks_between(fn, start, avoid):
    return fn.reachable_from(start, avoid=avoid)


def must_pass(fn, from_block, through_blocks, to_blocks):
    """True iff every path from from_block to any of to_blocks passes one of through_blocks"""
    reach = fn.reachable_from(from_block, avoid=set(through_blocks))
    return not (reach & set(to_blocks))


def bool_switch_edges(fn, bool_local):
    """find the switch testing (a copy / negation of) a bool local; returns (true_target,
    false_target) or None"""
    for b, t in fn.terms():
        if t["k"] != "switch":
            continue
        dl = op_local(t["discr"])
        if dl is None:
            continue
        # walk copies / Not chains back to bool_local
        neg = 0
        cur = dl
        ok = False
        for _ in range(10):
            if cur == bool_local:
                ok = True
                break
            d = fn.single_def(cur)
            if not d or d[0] != "stmt":
                break
            rv = d[3]["rv"]
            if rv["k"] == "use" and op_local(rv["op"]) is not None:
                cur = op_local(rv["op"])
            elif rv["k"] == "unop" and rv["op"] == "Not" and op_local(rv["a"]) is not None:
                neg += 1
                cur = op_local(rv["a"])
            else:
                break
        if not ok:
            continue
        edges = dict(switch_edges(fn, b))
        f_t = edges.get(0)
        t_t = edges.get(1, edges.get(None))
        if f_t is None:
            f_t = edges.get(None)
        if neg % 2:
            t_t, f_t = f_t, t_t
        return (t_t, f_t)
    return None


def result_edges(fn, dest):
    """(ok_target, err_target, how) for the branch on a Result/Option-like local `dest`:
    a `match` (discriminant switch) or an `is_err()/is_ok()` test, directly or after the value went through
    `map_err` / `map` / `or_else` and the `?` desugaring (`Try::branch`).  None if not found or ambiguous."""
    for _ in range(4):
        nxt = None
        for b, t in fn.calls():
            if t["args"] and op_local(t["args"][0]) == dest and t["callee"].rsplit("::", 1)[-1] in ("map_err", "map", "or_else", "branch") and t.get("dest") and not t["dest"][1]:
                nxt = t["dest"][0]
        if nxt is None or discr_switches_on(fn, dest):
            break
        dest = nxt
    sws = discr_switches_on(fn, dest)
    if len(sws) == 1:
        sb, st = sws[0]
        edges = dict(switch_edges(fn, sb))
        ok_t, err_t = edges.get(0), edges.get(1)
        if ok_t is None:
            ok_t = edges.get(None)
        if err_t is None:
            err_t = edges.get(None)
        return ok_t, err_t, "match"
    if len(sws) > 1:
        return None
    for b, t in fn.calls():
        if callee_is(t, "is_err", "is_ok") and t["args"]:
            l = op_local(t["args"][0])
            if l is None:
                continue
            s = fn.src(l)
            if s == ("refof", dest) or l == dest:
                e = bool_switch_edges(fn, t["dest"][0])
                if e is None:
                    return None
                t_t, f_t = e
                if callee_is(t, "is_err"):
                    return f_t, t_t, "is_err"
                return t_t, f_t, "is_ok"
    return None


# ------------------------------------------------------------------ error discipline
SWALLOWERS = ("ok", "unwrap_or", "unwrap_or_default", "unwrap_or_else", "is_err", "is_ok", "err", "unwrap", "expect")


def _failure_reported(fn, term):
    """`r.is_err()` / `r.is_ok()`: does the edge on which r is an Err lead to Err returns only (the failure is
    reported, possibly as another error value)?"""
    name = term.get("callee", "").rsplit("::", 1)[-1]
    if name not in ("is_err", "is_ok") or not term.get("dest") or term["dest"][1]:
        return False
    e = bool_switch_edges(fn, term["dest"][0])
    if not e or e[0] == e[1]:
        return False
    err_edge = e[0] if name == "is_err" else e[1]
    reach = fn.reachable_from(err_edge) | {err_edge}
    kinds = {k for bb, k, _ in return_kinds(fn) if bb in reach}
    return bool(kinds) and "Ok" not in kinds and "Some" not in kinds and "other" not in kinds


def result_fate(fn, b, t):
    """What happens to the Result produced by call `t` in block b.
    'propagated' | 'dropped' | 'swallowed:<how>' | 'inspected'"""
    dest = t["dest"]
    if dest[1]:
        return "propagated"  # written into a field / the return place projection
    d = dest[0]
    if d == 0:
        return "propagated"
    uses = [(ub, ui, us) for ub, ui, us in fn.uses_of(d) if not (ui == "term" and us["k"] == "drop")]
    if not uses:
        return "dropped"
    fate = None
    for ub, ui, us in uses:
        if ui == "term":
            if us["k"] in ("call", "tailcall"):
                name = us.get("callee", "").rsplit("::", 1)[-1]
                if name == "branch" or name == "from_residual":
                    return "propagated"
                if name in SWALLOWERS and ("Result" in us.get("callee", "") or "result" in us.get("callee", "")):
                    if _failure_reported(fn, us):
                        return "propagated"
                    fate = fate or f"swallowed:{name}"
                    continue
                return "propagated"  # handed to another function (map_err, and_then, a visitor ...)
            if us["k"] == "switch":
                return "inspected"
        else:
            if us["k"] == "assign":
                rv = us["rv"]
                if rv["k"] == "discr":
                    return "inspected"
                if rv["k"] in ("use", "agg", "cast"):
                    return "propagated"  # moved on (into _0, a tuple for a match, ...)
                if rv["k"] in ("ref", "rawptr"):
                    # borrowed: look at what the borrow is used for
                    l2 = us["lhs"][0] if not us["lhs"][1] else None
                    if l2 is not None:
                        for vb, vi, vs in fn.uses_of(l2):
                            if vi == "term" and vs["k"] in ("call", "tailcall"):
                                name = vs.get("callee", "").rsplit("::", 1)[-1]
                                if name in SWALLOWERS:
                                    if _failure_reported(fn, vs):
                                        return "propagated"
                                    fate = fate or f"swallowed:{name}"
                                else:
                                    return "propagated"
                    continue
    return fate or "inspected"


def affine_of(fn, o, depth=0):
    """Evaluate an operand as a*X + b where X is the result of a `len`-like call (the first leaf
    call found).  Returns (a, b, leaf_call_term) or None."""
    from .facts import op_int
    if depth > 30:
        return None
    c = op_int(o)
    if c is not None:
        return (0, c, None)
    p = op_place(o)
    if p is None:
        return None
    l = p[0]
    proj = p[1]
    d = fn.single_def(l)
    if d is None:
        return None
    if d[0] == "call":
        return (1, 0, d[2])
    rv = d[3]["rv"]
    k = rv["k"]
    if proj and not (len(proj) == 1 and isinstance(proj[0], list) and proj[0][0] == "." and proj[0][1] == 0):
        return None
    if k == "use" or (k == "cast" and rv["ck"] == "IntToInt"):
        return affine_of(fn, rv["op"], depth + 1)
    if k == "binop":
        op = rv["op"].replace("WithOverflow", "").replace("Unchecked", "")
        x = affine_of(fn, rv["a"], depth + 1)
        y = affine_of(fn, rv["b"], depth + 1)
        if x is None or y is None:
            return None
        leaf = x[2] or y[2]
        if op == "Add":
            return (x[0] + y[0], x[1] + y[1], leaf)
        if op == "Sub":
            return (x[0] - y[0], x[1] - y[1], leaf)
        if op == "Mul":
            if x[0] == 0:
                return (y[0] * x[1], y[1] * x[1], leaf)
            if y[0] == 0:
                return (x[0] * y[1], x[1] * y[1], leaf)
            return None
        return None
    return None


# ------------------------------------------------------------------ A2 flag-specialised reachability
def _known_bool(fn, l, pm, fm, depth=0):
    """value of bool local l under the context (param map pm, self-field map fm) or None"""
    if depth > 12:
        return None
    if 1 <= l <= fn.argc and l in pm and not fn.defs.get(l):
        return pm[l]
    d = fn.single_def(l)
    if d is None:
        return pm.get(l) if 1 <= l <= fn.argc else None
    if d[0] != "stmt":
        return None
    rv = d[3]["rv"]
    if rv["k"] == "use":
        o = rv["op"]
        if o["k"] == "const":
            v = o.get("int")
            return bool(int(v)) if v is not None and o.get("ty") == "bool" else None
        p = o["p"]
        if not p[1]:
            return _known_bool(fn, p[0], pm, fm, depth + 1)
        # a captured flag of a closure body: _1.k or *(_1.k)
        if fn.parent_fn and p[0] == 1:
            ks = [e[1] for e in p[1] if isinstance(e, list) and e[0] == "."]
            if len(ks) == 1 and f"#upvar{ks[0]}" in fm:
                return fm[f"#upvar{ks[0]}"]
        # field of self
        names = [e[2] for e in p[1] if isinstance(e, list) and e[0] == "."]
        if names and p[0] == 1 and names[-1] in fm:
            return fm[names[-1]]
        if names:
            s = fn.src(p[0])
            if s == ("param", 1) and names[-1] in fm:
                return fm[names[-1]]
        return None
    if rv["k"] == "unop" and rv["op"] == "Not":
        l2 = op_local(rv["a"])
        if l2 is None:
            return None
        v = _known_bool(fn, l2, pm, fm, depth + 1)
        return None if v is None else (not v)
    return None


def _known_variant(fn, l, pm, live=None, depth=0):
    """variant index of a local holding a field-less enum value that the context fixes: a parameter bound to ('v', idx),
    or a local whose only definition (only definition in the live blocks, if given) builds a field-less variant"""
    if depth > 8:
        return None
    if 1 <= l <= fn.argc and not fn.defs.get(l):
        v = pm.get(l)
        return v[1] if isinstance(v, tuple) and v[0] == "v" else None
    ds = fn.defs.get(l, [])
    if live is not None:
        ds = [d for d in ds if d[1] in live]
    if len(ds) != 1 or ds[0][0] != "stmt":
        return None
    rv = ds[0][3]["rv"]
    if rv["k"] == "agg" and rv.get("ak") == "adt" and not rv["f"] and "vidx" in rv:
        return int(rv["vidx"])
    if rv["k"] == "use" and op_local(rv["op"]) is not None:
        return _known_variant(fn, op_local(rv["op"]), pm, live, depth + 1)
    return None


def live_blocks(fn, pm, fm):
    """blocks reachable from entry when switches on known bools are pruned"""
    seen = {0}
    st = [0]
    while st:
        b = st.pop()
        t = fn.blocks[b]["term"]
        succ = fn.succs(b)
        if t["k"] == "switch" and t.get("dty") == "bool":
            l = op_local(t["discr"])
            v = _known_bool(fn, l, pm, fm) if l is not None else None
            if v is not None:
                tgt = None
                for val, tg in t["targets"]:
                    if int(val) == int(v):
                        tgt = tg
                succ = [tgt if tgt is not None else t["otherwise"]]
        elif t["k"] == "switch" and op_local(t["discr"]) is not None:
            # match on a field-less enum flag whose variant the context fixes
            d = fn.single_def(op_local(t["discr"]))
            if d and d[0] == "stmt" and d[3]["rv"]["k"] == "discr" and not d[3]["rv"]["p"][1]:
                v = _known_variant(fn, d[3]["rv"]["p"][0], pm)
                if v is not None:
                    tgt = None
                    for val, tg in t["targets"]:
                        if int(val) == v:
                            tgt = tg
                    succ = [tgt if tgt is not None else t["otherwise"]]
        for s in succ:
            if s not in seen:
                seen.add(s)
                st.append(s)
    return seen


def specialised_reach(prog, entries, stop=()):
    """entries: iterable of (fn id, {param index: bool}, {self field: bool}).
    Returns dict fn id -> list of contexts reached, and the set of (caller, callee, line) edges."""
    stop = set(stop)
    seen = set()
    reached = {}
    via = {}
    work = [(e[0], dict(e[1]), dict(e[2]), None) for e in entries]
    local_traits = set(prog.traits)
    while work:
        fid, pm, fm, parent = work.pop()
        key = (fid, tuple(sorted(pm.items())), tuple(sorted(fm.items())))
        if key in seen:
            continue
        seen.add(key)
        if fid not in reached:
            via[fid] = parent
        reached.setdefault(fid, []).append((pm, fm))
        if fid in stop:
            continue
        fn = prog.fns.get(fid)
        if fn is None:
            continue
        live = live_blocks(fn, pm, fm)
        for c in prog.closures_of(fn):
            # a closure that captures self reads the same fields: the context's knowledge of them carries over; a captured
            # flag (by value or by reference to a field of self) is known inside as upvar k
            cfm = dict(fm)
            for cb, ci, cs in fn.assigns():
                rv = cs["rv"]
                if rv["k"] == "agg" and rv.get("ak") == "closure" and rv.get("def") == c.id and cb in live:
                    for k, o in enumerate(rv["f"]):
                        l = op_local(o)
                        if l is None:
                            continue
                        v = _known_bool(fn, l, pm, fm) if fn.locals[l]["ty"] == "bool" else None
                        if v is None:
                            d = fn.single_def(l)
                            if d and d[0] == "stmt" and d[3]["rv"]["k"] == "ref":
                                pl = d[3]["rv"]["p"]
                                names = [e[2] for e in pl[1] if isinstance(e, list) and e[0] == "."]
                                if names and names[-1] in fm and (pl[0] == 1 or fn.src(pl[0]) == ("param", 1)):
                                    v = fm[names[-1]]
                        if v is not None:
                            cfm[f"#upvar{k}"] = v
            work.append((c.id, {}, cfm, (fid, c.line)))
        for b in live:
            t = fn.blocks[b]["term"]
            if t["k"] not in ("call", "tailcall"):
                continue
            targets = []
            st = t.get("st")
            callback = False
            if st == "R" and t["callee"] in prog.fns:
                targets.append(t["callee"])
            elif st == "U" and t.get("trait") in local_traits:
                name = t["callee"].rsplit("::", 1)[-1]
                for im in prog.impls_of.get(t["trait"], []):
                    m = im["methods"].get(name)
                    if m:
                        targets.append(m)
                if t["callee"] in prog.fns:
                    targets.append(t["callee"])
            else:
                callback = True
                targets.extend(prog.callback_targets(t))
            for tg in targets:
                cf = prog.fns.get(tg)
                if cf is None:
                    continue
                cpm = {}
                cfm = {}
                if not callback:
                    for i, a in enumerate(t["args"]):
                        if a["k"] == "const":
                            if a.get("ty") == "bool" and "int" in a:
                                cpm[i + 1] = bool(int(a["int"]))
                            continue
                        l = op_local(a)
                        if l is None:
                            continue
                        if fn.locals[l]["ty"] == "bool":
                            v = _known_bool(fn, l, pm, fm)
                            if v is not None:
                                cpm[i + 1] = v
                        else:
                            v = _known_variant(fn, l, pm, live)
                            if v is not None:
                                cpm[i + 1] = ("v", v)
                    # self passed through unchanged keeps the field knowledge
                    if t["args"]:
                        l0 = op_local(t["args"][0])
                        if l0 is not None and fn.src(l0) == ("param", 1) and cf.self_adt == fn.self_adt:
                            cfm = dict(fm)
                work.append((tg, cpm, cfm, (fid, t["ln"])))
    return reached, via


def path_to(via, fid):
    out = []
    cur = fid
    n = 0
    while cur is not None and n < 40:
        p = via.get(cur)
        out.append((cur, p[1] if p else None))
        cur = p[0] if p else None
        n += 1
    return list(reversed(out))


# ------------------------------------------------------------------ A7 error taint
def error_taint(fn, sources, sanitizers, clean_variants=("Ok", "Continue", "Some"), closure_calls=None):
    """Forward taint of error values.  `sources`: locals holding a Result whose Err payload is
    tainted.  A call whose callee name is in `sanitizers` produces a clean value whatever it
    consumes.  Projections through the variants in `clean_variants` are clean.  Returns the list of
    (bb, stmt-or-term) that write a tainted value into the return place."""
    tainted = set(sources)
    changed = True

    def place_tainted(p):
        if p[0] not in tainted:
            return False
        for e in p[1]:
            if isinstance(e, list) and e[0] == "as" and e[1] in clean_variants:
                return False
        return True

    def op_tainted(o):
        p = op_place(o)
        return p is not None and place_tainted(p)

    while changed:
        changed = False
        for b, i, s in fn.assigns():
            lhs = s["lhs"]
            rv = s["rv"]
            k = rv["k"]
            t = False
            if k in ("use", "cast"):
                t = op_tainted(rv["op"])
            elif k == "agg":
                t = any(op_tainted(x) for x in rv["f"])
            elif k in ("ref", "rawptr"):
                t = place_tainted(rv["p"])
            if t and lhs[0] not in tainted and lhs[0] != 0:
                tainted.add(lhs[0])
                changed = True
        for b, t in fn.calls():
            if "dest" not in t:
                continue
            name = t.get("callee", "").rsplit("::", 1)[-1]
            if name in sanitizers:
                continue
            if name in ("map_err", "or_else") and closure_calls and any(closure_calls(x, sanitizers) for x in (t.get("arg_adts") or [])):
                continue
            if any(op_tainted(a) for a in t["args"]):
                d = t["dest"][0]
                if d not in tainted and d != 0:
                    tainted.add(d)
                    changed = True
    out = []
    for d in fn.defs.get(0, []):
        if d[0] == "call":
            t = d[2]
            name = t.get("callee", "").rsplit("::", 1)[-1]
            if name in sanitizers:
                continue
            if name in ("map_err", "or_else") and closure_calls and any(closure_calls(x, sanitizers) for x in (t.get("arg_adts") or [])):
                continue
            if any(op_tainted(a) for a in t["args"]):
                out.append((d[1], t))
        else:
            rv = d[3]["rv"]
            k = rv["k"]
            t = False
            if k in ("use", "cast"):
                t = op_tainted(rv["op"])
            elif k == "agg":
                t = any(op_tainted(x) for x in rv["f"])
            if t:
                out.append((d[1], d[3]))
    # a source assigned directly into _0 by the call itself
    return out, tainted


def option_test_edges(prog, fn, names=("is_none",)):
    """edges on which an Option-emptiness test holds.  Yields (call_block, term, true_edge, false_edge, closure_or_None):
    the test is either called directly in fn, or inside a closure handed to an Option combinator of fn
    (`opt.is_some_and(|x| slot[x].is_none())`, `opt.map_or(false, |x| ...)`), in which case the edges are those of
    the combinator's result."""
    from .facts import callee_is
    out = []
    for b, t in fn.calls():
        if callee_is(t, *names):
            e = bool_switch_edges(fn, t["dest"][0])
            if e and e[0] != e[1]:
                out.append((b, t, e[0], e[1], None))
        elif t["callee"].rsplit("::", 1)[-1] in ("is_some_and", "map_or", "is_ok_and"):
            for a in t.get("arg_adts", []) or []:
                g = prog.fns.get(a)
                if g is not None and any(callee_is(tt, *names) for bb, tt in g.calls()):
                    e = bool_switch_edges(fn, t["dest"][0])
                    if e and e[0] != e[1]:
                        out.append((b, t, e[0], e[1], g))
    return out


def reachable_cp(fn, start, avoid=(), env=None):
    """blocks reachable from `start` (inclusive) without entering `avoid`, pruning the switches the path
    itself decides: a local assigned a constant (or a copy / negation of such a local) on the way from
    `start` selects the matching edge of a later switch on it (the materialised `a && b` of a named
    condition).  Environments meet at joins (a value survives only if all walked paths agree), so the
    result over-approximates the feasible blocks and never drops one."""
    avoid = set(avoid)
    if start in avoid:
        return set()
    taken = {s_["rv"]["p"][0] for _, _, s_ in fn.assigns() if s_["rv"]["k"] in ("ref", "rawptr")}
    envs = {start: dict(env or {})}
    work = [start]
    while work:
        b = work.pop()
        e = dict(envs[b])
        for s in fn.blocks[b]["stmts"]:
            if s["k"] != "assign":
                continue
            l, proj = s["lhs"][0], s["lhs"][1]
            if proj:
                if "*" in proj:
                    e = {}      # store through a pointer: forget everything (conservative)
                else:
                    e.pop(l, None)
                continue
            rv = s["rv"]
            v = None
            if rv["k"] == "use":
                o = rv["op"]
                if o["k"] == "const" and o.get("int") is not None:
                    v = int(o["int"])
                elif op_local(o) is not None and op_local(o) in e:
                    v = e[op_local(o)]
            elif rv["k"] == "unop" and rv["op"] == "Not" and op_local(rv["a"]) in e and e[op_local(rv["a"])] in (0, 1):
                v = 1 - e[op_local(rv["a"])]
            if v is None or l in taken:
                e.pop(l, None)
            else:
                e[l] = v
        t = fn.blocks[b]["term"]
        succ = fn.succs(b)
        if t["k"] == "switch":
            dl = op_local(t["discr"])
            if dl is not None and dl in e:
                tgt = None
                for val, tg in t["targets"]:
                    if int(val) == e[dl]:
                        tgt = tg
                succ = [tgt if tgt is not None else t["otherwise"]]
        elif t["k"] in ("call", "tailcall"):
            if "dest" in t:
                if t["dest"][1]:
                    e = {}
                else:
                    e.pop(t["dest"][0], None)
        for s in succ:
            if s in avoid:
                continue
            if s not in envs:
                envs[s] = dict(e)
                work.append(s)
            else:
                old = envs[s]
                new = {k: v for k, v in old.items() if k in e and e[k] == v}
                if new != old:
                    envs[s] = new
                    work.append(s)
    return set(envs)


def bool_chain_env(fn, dl, value):
    """environment for reachable_cp saying that the switch discriminant `dl` has `value` (0/1): the locals it is a
    copy / negation of (walking back single definitions, ending at the first local that is not such a copy) get the
    corresponding value"""
    env = {}
    cur, v = dl, int(value)
    for _ in range(12):
        env[cur] = v
        d = fn.single_def(cur)
        if not d or d[0] != "stmt":
            break
        rv = d[3]["rv"]
        if rv["k"] == "use" and op_local(rv["op"]) is not None:
            cur = op_local(rv["op"])
        elif rv["k"] == "unop" and rv["op"] == "Not" and op_local(rv["a"]) is not None:
            cur, v = op_local(rv["a"]), 1 - v
        else:
            break
    return env


def upvar_parent_leaves(prog, g, leaf, through_calls=False):
    """for a leaf of a backward slice inside closure body g that is a place rooted in the closure environment (_1.k ..):
    the leaves of the slice, in the enclosing function, of the operand captured as upvar k (empty if not such a leaf)"""
    if leaf[0] != "place" or not g.parent_fn or leaf[1][0] != 1:
        return []
    ks = [e[1] for e in leaf[1][1] if isinstance(e, list) and e[0] == "."]
    par = prog.fns.get(g.parent_fn)
    if not ks or par is None:
        return []
    out = []
    for b, i, s_ in par.assigns():
        rv = s_["rv"]
        if rv["k"] == "agg" and rv.get("ak") == "closure" and rv.get("def") == g.id and ks[0] < len(rv["f"]):
            pl_ = op_place(rv["f"][ks[0]])
            if pl_ is not None:
                out += backward_slice(par, [pl_[0]], through_calls=through_calls)[1]
    return out


def cp_walk(fn, start, env=None, avoid=()):
    """conditional constant propagation from block `start`: values are integers or aggregates ('agg', variant index,
    fields) built from such values; copies, field / downcast projections of known aggregates, `discriminant(x)` of a known
    aggregate and `Not` are evaluated, a switch on a known value follows its edge only, environments meet at joins (a
    value survives only if every walked path agrees).  Returns {block: environment after the block's statements}."""
    avoid = set(avoid)
    if start in avoid:
        return {}
    taken = {s_["rv"]["p"][0] for _, _, s_ in fn.assigns() if s_["rv"]["k"] in ("ref", "rawptr") and s_["rv"].get("mut")}

    def val_op(e, o):
        if o["k"] == "const":
            return int(o["int"]) if o.get("int") is not None else None
        pl = op_place(o)
        if pl is None or pl[0] not in e:
            return None
        v = e[pl[0]]
        for pr in pl[1]:
            if isinstance(pr, list) and pr[0] == "." and isinstance(v, tuple) and v[0] == "agg" and pr[1] < len(v[2]):
                v = v[2][pr[1]]
            elif isinstance(pr, list) and pr[0] == "as":
                continue
            else:
                return None
        return v

    ins = {start: dict(env or {})}
    outs = {}
    work = [start]
    while work:
        b = work.pop()
        e = dict(ins[b])
        for s in fn.blocks[b]["stmts"]:
            if s["k"] != "assign":
                continue
            l, proj = s["lhs"][0], s["lhs"][1]
            if proj:
                if "*" in proj:
                    e = {k: v for k, v in e.items() if k not in taken}
                else:
                    e.pop(l, None)
                continue
            rv = s["rv"]
            v = None
            if rv["k"] == "use":
                v = val_op(e, rv["op"])
            elif rv["k"] == "cast" and rv.get("ck") in ("IntToInt", "PointerCoercion", "Transmute") and op_local(rv["op"]) is None and rv["op"]["k"] == "const":
                v = val_op(e, rv["op"])
            elif rv["k"] == "unop" and rv["op"] == "Not":
                x = val_op(e, rv["a"])
                v = 1 - x if x in (0, 1) else None
            elif rv["k"] == "agg" and rv.get("ak") in ("adt", "tuple", None) and "f" in rv:
                v = ("agg", int(rv.get("vidx", 0)), tuple(val_op(e, o) for o in rv["f"]))
            elif rv["k"] == "discr" and not rv["p"][1] and isinstance(e.get(rv["p"][0]), tuple):
                v = e[rv["p"][0]][1]
            if v is None or l in taken:
                e.pop(l, None)
            else:
                e[l] = v
        outs[b] = dict(e)
        t = fn.blocks[b]["term"]
        succ = fn.succs(b)
        if t["k"] == "switch":
            x = val_op(e, t["discr"])
            if isinstance(x, int):
                tgt = None
                for val, tg in t["targets"]:
                    if int(val) == x:
                        tgt = tg
                succ = [tgt if tgt is not None else t["otherwise"]]
        elif t["k"] in ("call", "tailcall") and "dest" in t:
            if t["dest"][1]:
                e = {k: v for k, v in e.items() if k not in taken}
            else:
                e.pop(t["dest"][0], None)
            e = {k: v for k, v in e.items() if k not in taken}
        for s2 in succ:
            if s2 in avoid:
                continue
            if s2 not in ins:
                ins[s2] = dict(e)
                work.append(s2)
            else:
                old = ins[s2]
                new = {k: v for k, v in old.items() if k in e and e[k] == v}
                if new != old:
                    ins[s2] = new
                    work.append(s2)
    return outs


def cp_value(fn, env, o):
    """value of an operand under a cp_walk environment (None if unknown)"""
    if o["k"] == "const":
        return int(o["int"]) if o.get("int") is not None else None
    pl = op_place(o)
    if pl is None or pl[0] not in env:
        return None
    v = env[pl[0]]
    for pr in pl[1]:
        if isinstance(pr, list) and pr[0] == "." and isinstance(v, tuple) and v[0] == "agg" and pr[1] < len(v[2]):
            v = v[2][pr[1]]
        elif isinstance(pr, list) and pr[0] == "as":
            continue
        else:
            return None
    return v


def affine_multi(fn, o, depth=0):
    """an operand as an integer-linear form over opaque leaves: {leaf: coefficient, 1: constant}; leaves are ('local', l)
    for parameters, call results, multi-definition locals and projections; None if a non-linear operation is met"""
    if depth > 30:
        return None
    c = op_int(o)
    if c is not None:
        return {1: c}
    p = op_place(o)
    if p is None:
        return None
    l, proj = p
    if proj and not (len(proj) == 1 and isinstance(proj[0], list) and proj[0][0] == "." and proj[0][1] == 0 and fn.locals[l]["ty"].startswith("(")):
        return {("place", l, json_dumps(proj)): 1}
    d = fn.single_def(l)
    if d is None or d[0] == "call":
        return {("local", l): 1}
    rv = d[3]["rv"]
    k = rv["k"]
    if k == "use" or (k == "cast" and rv.get("ck") == "IntToInt"):
        return affine_multi(fn, rv["op"], depth + 1)
    if k == "binop":
        op = rv["op"].replace("WithOverflow", "").replace("Unchecked", "")
        x = affine_multi(fn, rv["a"], depth + 1)
        y = affine_multi(fn, rv["b"], depth + 1)
        if x is None or y is None:
            return None
        if op in ("Add", "Sub"):
            sg = 1 if op == "Add" else -1
            out = dict(x)
            for kk, v in y.items():
                out[kk] = out.get(kk, 0) + sg * v
            return {kk: v for kk, v in out.items() if v != 0 or kk == 1}
        if op == "Mul":
            for a_, b_ in ((x, y), (y, x)):
                if set(a_) <= {1}:
                    return {kk: v * a_.get(1, 0) for kk, v in b_.items()}
        return None
    return {("local", l): 1}


def json_dumps(x):
    import json as _j
    return _j.dumps(x)

#!/usr/bin/env python3
"""Pretty-print the MIR facts of functions whose id contains a substring (debug aid)."""
import sys, json

def pl(p):
    l, pr = p
    s = f"_{l}"
    for e in pr:
        if e == "*": s = f"(*{s})"
        elif isinstance(e, list) and e[0] == ".": s = f"{s}.{e[2]}"
        elif isinstance(e, list) and e[0] == "as": s = f"({s} as {e[1]})"
        elif isinstance(e, list) and e[0] == "idx": s = f"{s}[_{e[1]}]"
        else: s = f"{s}{{{e}}}"
    return s

def op(o):
    k = o["k"]
    if k in ("copy", "move"): return f"{k} {pl(o['p'])}"
    if k == "const":
        if "fn" in o: return f"fn {o['fn']}"
        if "int" in o: return f"const {o['int']}_{o['ty']}"
        if "bytes" in o:
            b = bytes.fromhex(o["bytes"])
            return f"const {b[:40]!r}:{o['ty']}"
        if "def" in o: return f"const<{o['def']}>"
        return f"const ?:{o['ty']}"
    return str(o)

def rv(r):
    k = r["k"]
    if k == "use": return op(r["op"])
    if k == "ref": return ("&mut " if r["mut"] else "&") + pl(r["p"])
    if k == "rawptr": return ("&raw mut " if r["mut"] else "&raw const ") + pl(r["p"])
    if k == "cast": return f"{op(r['op'])} as {r['ty']} ({r['ck']})"
    if k == "binop": return f"{r['op']}({op(r['a'])}, {op(r['b'])})"
    if k == "unop": return f"{r['op']}({op(r['a'])})"
    if k == "discr": return f"discriminant({pl(r['p'])})"
    if k == "agg":
        f = ", ".join(op(x) for x in r["f"])
        if r["ak"] == "adt": return f"{r['adt']}::{r['variant']}{{{f}}}"
        return f"{r['ak']}[{f}]"
    return str(r)

def show(fn):
    print(f"=== {fn['id']}  {fn['file']}:{fn['line']}-{fn['end_line']} argc={fn['argc']}")
    if "impl" in fn: print("   impl", fn["impl"])
    for i, l in enumerate(fn["locals"]):
        print(f"   let _{i}: {l['ty']}" + (f"  // {l['name']}" if "name" in l else ""))
    for i, b in enumerate(fn["blocks"]):
        print(f" bb{i}{' (cleanup)' if b['cleanup'] else ''}:")
        for s in b["stmts"]:
            k = s["k"]
            tag = f"   // L{s['ln']}" + (f" {s['mac']}!" if "mac" in s else "")
            if k == "assign": print(f"    {pl(s['lhs'])} = {rv(s['rv'])};{tag}")
            elif k in ("live", "dead"): pass
            else: print(f"    {k} {s}{tag}")
        t = b["term"]
        k = t["k"]
        tag = f"   // L{t['ln']}" + (f" {t['mac']}!" if "mac" in t else "")
        if k == "call":
            a = ", ".join(op(x) for x in t["args"])
            print(f"    {pl(t['dest'])} = [{t['st']}] {t['callee']}({a}) -> bb{t.get('t')} unwind {t.get('unwind')}{tag}")
            if t.get("rgargs") or t.get("gargs"): print(f"        gargs={t.get('rgargs', t.get('gargs'))}")
        elif k == "switch":
            print(f"    switch({op(t['discr'])}:{t['dty']}) {t['targets']} otherwise bb{t['otherwise']}{tag}")
        elif k == "drop": print(f"    drop({pl(t['p'])}: {t['ty']}) -> bb{t['t']}{tag}")
        elif k == "assert": print(f"    assert({op(t['cond'])} == {t['expected']}, {t['msg']}) -> bb{t['t']}{tag}")
        elif k == "goto": print(f"    goto bb{t['t']}{tag}")
        else: print(f"    {k}{tag}")

if __name__ == "__main__":
    path, pat = sys.argv[1], sys.argv[2]
    d = json.load(open(path))
    for fn in d["fns"]:
        if pat in fn["id"]:
            show(fn)

"""Loader and program model for mirfacts fact files.

Everything here is read-only structure over the JSON the driver wrote: functions
with their MIR CFG, def-use, copy chains (A1), dominators / post-dominators, the
call graph with class-hierarchy, callback and drop-glue edges.
"""
import json, os, re, functools, collections

CRATES = ("sonic_rs", "sonic_number", "sonic_simd")


class FactError(Exception):
    """Raised when a fact file or an anchor is missing: checks fail closed."""


def pl_local(p):
    return p[0]


def pl_proj(p):
    return p[1]


def is_bare(p):
    return len(p[1]) == 0


def proj_fields(p):
    """names of the field projections of a place, outermost last"""
    return [e[2] for e in p[1] if isinstance(e, list) and e[0] == "."]


def fmt_place(p):
    l, pr = p
    s = f"_{l}"
    for e in pr:
        if e == "*":
            s = f"(*{s})"
        elif isinstance(e, list) and e[0] == ".":
            s = f"{s}.{e[2]}"
        elif isinstance(e, list) and e[0] == "as":
            s = f"({s} as {e[1]})"
        elif isinstance(e, list) and e[0] == "idx":
            s = f"{s}[_{e[1]}]"
        else:
            s = f"{s}{{{e}}}"
    return s


def op_place(o):
    return o["p"] if o["k"] in ("copy", "move") else None


def op_local(o):
    """local of an operand if it is a bare local (no projection)"""
    p = op_place(o)
    if p is not None and not p[1]:
        return p[0]
    return None


def op_int(o):
    if o["k"] == "const" and "int" in o:
        return int(o["int"])
    return None


def op_bytes(o):
    if o["k"] == "const" and "bytes" in o:
        return bytes.fromhex(o["bytes"])
    return None


def const_strings(o):
    """byte strings a constant operand refers to through its pointers (fat pointers are cut to
    their length): the operand's own bytes are not included"""
    out = []

    def walk(node_bytes, relocs):
        for r in relocs or []:
            if "bytes" not in r:
                continue
            tb = bytes.fromhex(r["bytes"])
            off = r["off"]
            if node_bytes is not None and off + 16 <= len(node_bytes):
                ln = int.from_bytes(node_bytes[off + 8:off + 16], "little")
                if 0 < ln <= len(tb):
                    out.append(tb[:ln])
            out.append(tb)
            walk(tb, r.get("relocs"))

    if o.get("k") == "const" and "bytes" in o:
        walk(bytes.fromhex(o["bytes"]), o.get("relocs"))
    return out


class Fn:
    def __init__(self, d, crate):
        self.d = d
        self.crate = crate
        self.id = d["id"]
        self.name = d["name"]
        self.file = d["file"]
        self.line = d["line"]
        self.end_line = d["end_line"]
        self.kind = d["kind"]
        self.blocks = d["blocks"]
        self.locals = d["locals"]
        self.argc = d["argc"]
        self.impl = d.get("impl")
        self.trait = (self.impl or {}).get("trait")
        self.self_adt = (self.impl or {}).get("self_adt")
        self.parent_fn = d.get("parent_fn")
        self.inputs = d.get("inputs", [])
        self.output = d.get("output", "")
        self.sig_adts = d.get("sig_adts", [])
        self.vis = d.get("vis", "")
        self.is_unsafe = d.get("unsafe", False)
        self.trait_default = d.get("trait_default")

    def loc(self, ln=None):
        return f"{self.file}:{ln if ln else self.line}"

    # ------------------------------------------------------------ CFG
    def succs(self, i, unwind=False):
        t = self.blocks[i]["term"]
        k = t["k"]
        out = []
        if k == "goto":
            out = [t["t"]]
        elif k == "switch":
            out = [x[1] for x in t["targets"]] + [t["otherwise"]]
        elif k in ("drop", "assert"):
            out = [t["t"]]
        elif k == "call":
            if "t" in t:
                out = [t["t"]]
        elif k == "asm":
            out = list(t["targets"])
        if unwind and "unwind" in t:
            out = out + [t["unwind"]]
        return out

    @functools.cached_property
    def reach(self):
        seen = {0}
        st = [0]
        while st:
            b = st.pop()
            for s in self.succs(b):
                if s not in seen:
                    seen.add(s)
                    st.append(s)
        return seen

    @functools.cached_property
    def preds(self):
        p = collections.defaultdict(list)
        for b in self.reach:
            for s in self.succs(b):
                p[s].append(b)
        return p

    def reachable_from(self, start, avoid=(), succ_filter=None):
        """blocks reachable from `start` (inclusive) without entering `avoid`"""
        avoid = set(avoid)
        seen = set()
        st = [start] if start not in avoid else []
        while st:
            b = st.pop()
            if b in seen:
                continue
            seen.add(b)
            for s in (succ_filter(b) if succ_filter else self.succs(b)):
                if s not in seen and s not in avoid:
                    st.append(s)
        return seen

    @functools.cached_property
    def dom(self):
        """dom[b] = set of blocks dominating b (including b), over normal edges"""
        nodes = sorted(self.reach)
        full = set(nodes)
        dom = {b: set(full) for b in nodes}
        dom[0] = {0}
        changed = True
        while changed:
            changed = False
            for b in nodes:
                if b == 0:
                    continue
                ps = [p for p in self.preds[b]]
                new = set(full)
                for p in ps:
                    new &= dom[p]
                new.add(b)
                if new != dom[b]:
                    dom[b] = new
                    changed = True
        return dom

    def dominates(self, a, b):
        return b in self.dom and a in self.dom[b]

    @functools.cached_property
    def return_blocks(self):
        return [b for b in self.reach if self.blocks[b]["term"]["k"] == "return"]

    @functools.cached_property
    def exit_blocks(self):
        """blocks without normal successors (return, diverging call, unreachable)"""
        return [b for b in self.reach if not self.succs(b)]

    @functools.cached_property
    def pdom(self):
        """pdom[b] = blocks post-dominating b w.r.t. *return* exits only (diverging exits
        are ignored: a path that panics is not a path to a result)."""
        nodes = sorted(self.reach)
        # only blocks that can reach a return matter
        can = set()
        st = list(self.return_blocks)
        while st:
            b = st.pop()
            if b in can:
                continue
            can.add(b)
            for p in self.preds[b]:
                if p not in can:
                    st.append(p)
        full = set(can)
        pd = {b: set(full) for b in can}
        for r in self.return_blocks:
            pd[r] = {r}
        changed = True
        while changed:
            changed = False
            for b in nodes:
                if b not in can or b in self.return_blocks:
                    continue
                ss = [s for s in self.succs(b) if s in can]
                new = set(full)
                for s in ss:
                    new &= pd[s]
                new.add(b)
                if new != pd[b]:
                    pd[b] = new
                    changed = True
        self.can_return = can
        return pd

    # ------------------------------------------------------------ statements
    def stmts(self):
        """yield (bb, idx, stmt) for every statement of reachable blocks"""
        for b in sorted(self.reach):
            for i, s in enumerate(self.blocks[b]["stmts"]):
                yield b, i, s

    def assigns(self):
        for b, i, s in self.stmts():
            if s["k"] == "assign":
                yield b, i, s

    def terms(self):
        for b in sorted(self.reach):
            yield b, self.blocks[b]["term"]

    def calls(self):
        for b, t in self.terms():
            if t["k"] in ("call", "tailcall"):
                yield b, t

    @functools.cached_property
    def defs(self):
        """local -> list of ('stmt', bb, idx, stmt) | ('call', bb, term) writing the bare local"""
        d = collections.defaultdict(list)
        for b, i, s in self.stmts():
            if s["k"] == "assign" and not s["lhs"][1]:
                d[s["lhs"][0]].append(("stmt", b, i, s))
        for b, t in self.calls():
            if "dest" in t and not t["dest"][1]:
                d[t["dest"][0]].append(("call", b, t))
        return d

    @functools.cached_property
    def partial_defs(self):
        """local -> list of assignments to a projection of the local"""
        d = collections.defaultdict(list)
        for b, i, s in self.stmts():
            if s["k"] == "assign" and s["lhs"][1]:
                d[s["lhs"][0]].append((b, i, s))
        for b, t in self.calls():
            if "dest" in t and t["dest"][1]:
                d[t["dest"][0]].append((b, "term", t))
        return d

    def single_def(self, l):
        ds = self.defs.get(l, [])
        if len(ds) != 1:
            return None
        # a store through the pointer held in l (`(*l).f = ..`) does not redefine l itself
        for (b, i, s) in self.partial_defs.get(l, []):
            lhs = s["dest"] if i == "term" else s["lhs"]
            if not (lhs[1] and lhs[1][0] == "*"):
                return None
        return ds[0]

    def src(self, l, through_ref=True, depth=0):
        """A1 copy chain.  Returns a descriptor of the unique origin of local `l`:
        ('param', n) | ('call', bb, term) | ('place', place) | ('const', op) | ('rv', stmt) | ('multi', l)
        Follows Use(copy/move local), PtrToPtr/Transmute casts of a bare local, and
        (if through_ref) `&*x` / `&x` of bare locals."""
        if depth > 40:
            return ("multi", l)
        if 1 <= l <= self.argc and not self.defs.get(l):
            return ("param", l)
        d = self.single_def(l)
        if d is None:
            if 1 <= l <= self.argc:
                return ("param", l)
            return ("multi", l)
        if d[0] == "call":
            return ("call", d[1], d[2])
        rv = d[3]["rv"]
        k = rv["k"]
        if k == "use":
            o = rv["op"]
            if o["k"] == "const":
                return ("const", o)
            p = o["p"]
            if not p[1]:
                return self.src(p[0], through_ref, depth + 1)
            return ("place", p)
        if k == "cast" and rv["ck"] in ("PtrToPtr", "Transmute", "IntToInt", "PointerCoercion"):
            o = rv["op"]
            if o["k"] == "const":
                return ("const", o)
            p = o["p"]
            if not p[1]:
                return self.src(p[0], through_ref, depth + 1)
            return ("place", p)
        if k in ("ref", "rawptr") and through_ref:
            p = rv["p"]
            if not p[1]:
                return ("refof", p[0])
            if p[1] == ["*"]:
                return self.src(p[0], through_ref, depth + 1)
            return ("place", p)
        return ("rv", d[3])

    def place_root(self, p, depth=0):
        """Resolve the base local of a place through copy chains: returns (origin, fieldpath)
        where fieldpath is the list of field names applied after the origin."""
        fields = proj_fields(p)
        s = self.src(p[0])
        if s[0] == "place" and depth < 20:
            o, f2 = self.place_root(s[1], depth + 1)
            return o, f2 + fields
        return s, fields

    def uses_of(self, l):
        """all (bb, where, item) that read local l (as operand or inside a place)"""
        out = []
        pat = l

        def in_place(p):
            if p[0] == pat:
                return True
            for e in p[1]:
                if isinstance(e, list) and e[0] == "idx" and e[1] == pat:
                    return True
            return False

        def in_op(o):
            p = op_place(o)
            return p is not None and in_place(p)

        def in_rv(rv):
            k = rv["k"]
            if k in ("use", "cast", "repeat"):
                return in_op(rv["op"])
            if k in ("ref", "rawptr", "discr"):
                return in_place(rv["p"])
            if k == "binop":
                return in_op(rv["a"]) or in_op(rv["b"])
            if k == "unop":
                return in_op(rv["a"])
            if k == "agg":
                return any(in_op(x) for x in rv["f"])
            return False

        for b, i, s in self.stmts():
            if s["k"] == "assign":
                if in_rv(s["rv"]) or (s["lhs"][1] and in_place(s["lhs"])):
                    out.append((b, i, s))
            elif s["k"] == "copy_nonoverlapping":
                if in_op(s["src"]) or in_op(s["dst"]) or in_op(s["count"]):
                    out.append((b, i, s))
        for b, t in self.terms():
            k = t["k"]
            if k in ("call", "tailcall"):
                if any(in_op(a) for a in t["args"]) or ("fop" in t and in_op(t["fop"])):
                    out.append((b, "term", t))
            elif k == "switch":
                if in_op(t["discr"]):
                    out.append((b, "term", t))
            elif k == "assert":
                if in_op(t["cond"]):
                    out.append((b, "term", t))
            elif k == "drop":
                if in_place(t["p"]):
                    out.append((b, "term", t))
            elif k == "return" and l == 0:
                out.append((b, "term", t))
        return out

    # constants appearing anywhere in the body
    def const_operands(self):
        def ops_of_rv(rv):
            k = rv["k"]
            if k in ("use", "cast", "repeat"):
                yield rv["op"]
            elif k == "binop":
                yield rv["a"]
                yield rv["b"]
            elif k == "unop":
                yield rv["a"]
            elif k == "agg":
                yield from rv["f"]

        for b, i, s in self.stmts():
            if s["k"] == "assign":
                for o in ops_of_rv(s["rv"]):
                    if o["k"] == "const":
                        yield b, s, o
        for b, t in self.terms():
            if t["k"] in ("call", "tailcall"):
                for o in t["args"]:
                    if o["k"] == "const":
                        yield b, t, o
            elif t["k"] == "switch" and t["discr"]["k"] == "const":
                yield b, t, t["discr"]


def callee_is(t, *names):
    """does the call terminator's resolved callee (or its unresolved trait method) match one of
    the names?  A name matches when the callee path equals it or ends with '::'+name."""
    c = t.get("callee", "")
    o = t.get("orig", "")
    for n in names:
        for x in (c, o):
            if x == n or x.endswith("::" + n):
                return True
    return False


def norm_path(p):
    """strip generic argument lists from a def path: Parser::<R>::foo -> Parser::foo"""
    prev = None
    while prev != p:
        prev = p
        p = re.sub(r"::<(?![^<>]* as )[^<>]*>", "", p)
    return p


class Program:
    def __init__(self, factdir, config="native"):
        self.config = config
        self.dir = factdir
        self.fns = {}
        self.consts = {}
        self.impls = []
        self.adts = {}
        self.traits = {}
        self.target = None
        for c in CRATES:
            path = os.path.join(factdir, c + ".json")
            if not os.path.isfile(path) or os.path.getsize(path) < 100:
                raise FactError(f"fact file missing or empty: {path}")
            try:
                d = json.load(open(path))
            except Exception as e:
                raise FactError(f"fact file unreadable: {path}: {e}")
            if d.get("nfn") != len(d["fns"]):
                raise FactError(f"fact file truncated: {path}")
            self.target = d.get("target")
            for f in d["fns"]:
                fn = Fn(f, c)
                self.fns[fn.id] = fn
            for k in d["consts"]:
                self.consts[k["id"]] = k
            for im in d["impls"]:
                im["crate"] = c
                self.impls.append(im)
            for a in d["adts"]:
                self.adts[a["id"]] = a
            for t in d["traits"]:
                self.traits[t["id"]] = t
        self.by_name = collections.defaultdict(list)
        for fn in self.fns.values():
            self.by_name[fn.name].append(fn)
        # trait -> list of impls
        self.impls_of = collections.defaultdict(list)
        for im in self.impls:
            self.impls_of[im["trait"]].append(im)
        # adt -> list of (trait, impl)
        self.adt_impls = collections.defaultdict(list)
        for im in self.impls:
            if im.get("self_adt"):
                self.adt_impls[im["self_adt"]].append(im)

    # -------------------------------------------------------------- lookup
    def find(self, suffix, required=True, unique=True):
        """functions whose generic-stripped id ends with `suffix`"""
        out = [f for f in self.fns.values() if norm_path(f.id).endswith(suffix) and f.kind != "Closure"]
        if required and not out:
            raise FactError(f"anchor not found: function {suffix}")
        if unique:
            if len(out) > 1:
                raise FactError(f"anchor ambiguous: function {suffix}: {[f.id for f in out]}")
            return out[0] if out else None
        return out

    def find_all(self, pred):
        return [f for f in self.fns.values() if pred(f)]

    def closures_of(self, fn):
        return [f for f in self.fns.values() if f.parent_fn == fn.id]

    def with_closures(self, fn):
        return [fn] + self.closures_of(fn)

    def const(self, suffix, required=True):
        out = [c for k, c in self.consts.items() if norm_path(k).endswith(suffix)]
        if not out:
            if required:
                raise FactError(f"anchor not found: const {suffix}")
            return None
        if len(out) > 1:
            raise FactError(f"anchor ambiguous: const {suffix}: {[c['id'] for c in out]}")
        return out[0]

    def const_int(self, suffix):
        c = self.const(suffix)
        if "int" not in c:
            raise FactError(f"const {suffix} is not a scalar")
        return int(c["int"])

    def const_bytes(self, suffix):
        c = self.const(suffix)
        if "bytes" not in c:
            raise FactError(f"const {suffix} has no bytes")
        return bytes.fromhex(c["bytes"])

    def impl_methods(self, trait_suffix, self_pred=None):
        """yield (impl, method name, Fn) for impls of traits whose path ends with trait_suffix"""
        for im in self.impls:
            if im["trait"] == trait_suffix or im["trait"].endswith("::" + trait_suffix):
                if self_pred and not self_pred(im):
                    continue
                for m, path in im["methods"].items():
                    fn = self.fns.get(path)
                    if fn:
                        yield im, m, fn

    # -------------------------------------------------------------- call graph
    @functools.cached_property
    def callgraph(self):
        """id -> set of callee ids (local functions only), with CHA, callback and drop edges.
        Also self.edge_kind[(a,b)] = set of kinds ('direct','cha','callback','drop','closure')"""
        edges = collections.defaultdict(set)
        kinds = collections.defaultdict(set)
        local_traits = set(self.traits)
        drop_of = {a["id"]: a["drop"] for a in self.adts.values() if "drop" in a}

        def add(a, b, k):
            if b in self.fns:
                edges[a].add(b)
                kinds[(a, b)].add(k)

        # ADT -> reachable Drop impls through fields
        @functools.lru_cache(None)
        def drops_reach(adt):
            out = set()
            seen = set()
            st = [adt]
            while st:
                a = st.pop()
                if a in seen:
                    continue
                seen.add(a)
                if a in drop_of:
                    out.add(drop_of[a])
                ad = self.adts.get(a)
                if ad:
                    for v in ad["variants"]:
                        for f in v["fields"]:
                            st.extend(f["adts"])
            return frozenset(out)

        for fn in self.fns.values():
            # closures defined in a function are considered called by it
            if fn.parent_fn:
                add(fn.parent_fn, fn.id, "closure")
            for b, t in fn.calls():
                st = t.get("st")
                if st == "R":
                    add(fn.id, t["callee"], "direct")
                    # a resolved call to foreign generic code taking crate-local types may call back
                    if t["callee"] not in self.fns:
                        self._callback_edges(fn, t, add)
                elif st == "U":
                    tr = t.get("trait")
                    name = t["callee"].rsplit("::", 1)[-1]
                    if tr in local_traits:
                        for im in self.impls_of.get(tr, []):
                            m = im["methods"].get(name)
                            if m:
                                add(fn.id, m, "cha")
                        # provided (default) method
                        add(fn.id, t["callee"], "cha")
                    else:
                        self._callback_edges(fn, t, add)
                else:
                    self._callback_edges(fn, t, add)
            for b, t in fn.terms():
                if t["k"] == "drop":
                    for a in t["adts"]:
                        for d in drops_reach(a):
                            add(fn.id, d, "drop")
        self.edge_kind = kinds
        return edges

    def callback_targets(self, t):
        """foreign / unresolved call: the crate-local functions it may re-enter - any closure passed, and any foreign-trait
        impl method of a crate-local ADT occurring in the argument types.  Code of the standard library can only name the
        standard library's traits: it never re-enters through an impl of a third-party trait (serde's)."""
        STD = ("core::", "alloc::", "std::")
        callee = t.get("callee", "")
        owner = (t.get("trait") or "") if t.get("st") == "U" else callee
        std_callee = owner.startswith(STD) or (callee.startswith("<") and (t.get("trait") or "").startswith(STD))
        out = []
        for a in t.get("arg_adts", []):
            if a in self.fns:  # closure type
                out.append(a)
                continue
            for im in self.adt_impls.get(a, []):
                if im["trait"] in self.traits:
                    continue  # crate-local trait: foreign code cannot name it
                if std_callee and im["trait"] and not im["trait"].startswith(STD):
                    continue
                out.extend(im["methods"].values())
        return out

    def _callback_edges(self, fn, t, add):
        for tgt in self.callback_targets(t):
            add(fn.id, tgt, "callback")

    def reachable_fns(self, roots, edge_filter=None):
        cg = self.callgraph
        seen = set()
        st = list(roots)
        while st:
            a = st.pop()
            if a in seen:
                continue
            seen.add(a)
            for b in cg.get(a, ()):
                if b not in seen and (edge_filter is None or edge_filter(a, b)):
                    st.append(b)
        return seen

    def callers_of(self, pred):
        """list of (Fn, bb, term) for every call whose terminator satisfies pred"""
        out = []
        for fn in self.fns.values():
            for b, t in fn.calls():
                if pred(t):
                    out.append((fn, b, t))
        return out


def sccs(nodes, edges):
    """Tarjan, iterative.  edges: node -> iterable of nodes"""
    index = {}
    low = {}
    onstack = set()
    stack = []
    out = []
    counter = [0]
    for root in nodes:
        if root in index:
            continue
        work = [(root, iter(edges.get(root, ())))]
        index[root] = low[root] = counter[0]
        counter[0] += 1
        stack.append(root)
        onstack.add(root)
        while work:
            v, it = work[-1]
            advanced = False
            for w in it:
                if w not in index:
                    index[w] = low[w] = counter[0]
                    counter[0] += 1
                    stack.append(w)
                    onstack.add(w)
                    work.append((w, iter(edges.get(w, ()))))
                    advanced = True
                    break
                elif w in onstack:
                    low[v] = min(low[v], index[w])
            if advanced:
                continue
            work.pop()
            if work:
                u = work[-1][0]
                low[u] = min(low[u], low[v])
            if low[v] == index[v]:
                comp = []
                while True:
                    w = stack.pop()
                    onstack.discard(w)
                    comp.append(w)
                    if w == v:
                        break
                out.append(comp)
    return out

"""E5: independent generators (Python big integers) for what a constant table must contain."""
import struct


def f64_bits(x):
    return struct.unpack("<Q", struct.pack("<d", x))[0]


def f32_bits(x):
    return struct.unpack("<I", struct.pack("<f", x))[0]


def pow10_uint(n):
    return [10 ** i for i in range(n)]


def pow10_f64_bits(n):
    # 10^i is exactly representable in f64 for i <= 22; float(int) is correctly rounded anyway
    return [f64_bits(float(10 ** i)) for i in range(n)]


def power_of_five_128(lo=-342, hi=308):
    """The Eisel-Lemire table (fast_float's generator): for q>=0 the 128 most significant bits of
    5^q (truncated); for q<0 the 128-bit reciprocal  floor(2^b / 5^-q) + 1.  Returns [(hi64, lo64)]."""
    out = []
    for q in range(lo, 0):
        power5 = 5 ** -q
        z = 0
        while (1 << z) < power5:
            z += 1
        if q >= -27:
            b = z + 127
            c = 2 ** b // power5 + 1
        else:
            b = 2 * z + 2 * 64
            c = 2 ** b // power5 + 1
            while c >= (1 << 128):
                c //= 2
        out.append((c >> 64, c & ((1 << 64) - 1)))
    for q in range(0, hi + 1):
        power5 = 5 ** q
        while power5 < (1 << 127):
            power5 *= 2
        while power5 >= (1 << 128):
            power5 //= 2
        out.append((power5 >> 64, power5 & ((1 << 64) - 1)))
    return out


def decimal_left_shift_tables(max_shift=60, table_len=65):
    """core::num::dec2flt::decimal number_of_digits_decimal_left_shift tables.
    TABLE_POW5 = decimal digits of 5^1 .. 5^max_shift concatenated (digit values, not ASCII).
    TABLE[0] = 0; TABLE[i] = (number of decimal digits of 2^i) << 11 | offset of 5^i's digits ... as in
    the reference: new_digits(i) = ceil-ish len(str(2^i)) and offset(i) = sum_{j<i} len(str(5^j)), j>=1."""
    pow5 = []
    offs = {}
    pos = 0
    for i in range(1, max_shift + 1):
        offs[i] = pos
        digs = [int(ch) for ch in str(5 ** i)]
        pow5.extend(digs)
        pos += len(digs)
    end = pos
    table = [0]
    for i in range(1, table_len):
        if i <= max_shift:
            nd = len(str(2 ** i))
            table.append((nd << 11) | offs[i])
        else:
            table.append(end)  # beyond MAX_SHIFT only the end offset is stored
    return table, pow5, end


def slow_powers(n=19):
    # floor(i * log2(10)) computed exactly: largest k with 2^k <= 10^i
    out = []
    for i in range(n):
        k = (10 ** i).bit_length() - 1
        out.append(k)
    return out


def hexval(c):
    ch = chr(c)
    if ch in "0123456789":
        return c - 48
    if ch in "abcdef":
        return c - 87
    if ch in "ABCDEF":
        return c - 55
    return None


ESCAPES = {ord('"'): 0x22, ord("/"): 0x2F, ord("\\"): 0x5C, ord("b"): 0x08, ord("f"): 0x0C, ord("n"): 0x0A, ord("r"): 0x0D, ord("t"): 0x09}

# Constants of the Eisel-Lemire algorithm / dec2flt for the two IEEE formats, with their derivations.
def rawfloat_consts(mant_bits, exp_bits):
    bias = (1 << (exp_bits - 1)) - 1
    # largest q with 5^q < 2^(mant+1): exact fast path
    q = 0
    while 5 ** (q + 1) < (1 << (mant_bits + 1)):
        q += 1
    max_fast = q
    # digits d with 10^d < 2^(mant+1)
    d = 0
    while 10 ** (d + 1) < (1 << (mant_bits + 1)):
        d += 1
    return {
        "MANTISSA_EXPLICIT_BITS": mant_bits,
        "MIN_EXPONENT_FAST_PATH": -max_fast,
        "MAX_EXPONENT_FAST_PATH": max_fast,
        "MAX_EXPONENT_DISGUISED_FAST_PATH": max_fast + d,
        "MINIMUM_EXPONENT": -bias,
        "INFINITE_POWER": (1 << exp_bits) - 1,
        "SIGN_INDEX": mant_bits + exp_bits,
        # published values (Lemire, "Number parsing at a gigabyte per second", §8-9; core::num::dec2flt)
        "MIN_EXPONENT_ROUND_TO_EVEN": {52: -4, 23: -17}[mant_bits],
        "MAX_EXPONENT_ROUND_TO_EVEN": {52: 23, 23: 10}[mant_bits],
        "SMALLEST_POWER_OF_TEN": {52: -342, 23: -65}[mant_bits],
        "LARGEST_POWER_OF_TEN": {52: 308, 23: 38}[mant_bits],
    }

"""Check driver: fact cache, rule context, known findings, evidence, CLI plumbing."""
import os, sys, json, time, hashlib, subprocess, fcntl, shutil, traceback

from .facts import Program, FactError

VERIF = os.path.dirname(os.path.dirname(os.path.abspath(__file__)))
REPO = os.environ.get("VERIF_REPO", "/repo")
CACHE = os.path.join(VERIF, ".cache")
KNOWN = os.path.join(VERIF, "known_findings.txt")
# evidence/replay of runs against a scratch copy (self-tests, seeded changes) go elsewhere
OUT = os.environ.get("VERIF_OUT", VERIF)
EVID = os.path.join(OUT, "evidence")
REPLAY = os.path.join(OUT, "replay")


def repo_digest(repo, with_lock=True):
    """sha256 over every file cargo could read from the working tree (not target/, not .git)"""
    h = hashlib.sha256()
    files = []
    for root, dirs, fs in os.walk(repo):
        dirs[:] = sorted(d for d in dirs if d not in (".git", "target", "node_modules"))
        rel = os.path.relpath(root, repo)
        top = rel.split(os.sep)[0]
        if top in ("assets", "benchmarks", "bindings", "docs", "fuzz", "licenses", "profile", "scripts", "examples") and top != "benchmarks":
            dirs[:] = []
            continue
        for f in sorted(fs):
            if f.endswith((".rs", ".toml", ".lock")):
                if f == "Cargo.lock" and not with_lock:
                    continue
                files.append(os.path.join(root, f))
    for p in files:
        h.update(os.path.relpath(p, repo).encode())
        h.update(b"\0")
        try:
            with open(p, "rb") as fh:
                h.update(hashlib.sha256(fh.read()).digest())
        except OSError:
            h.update(b"?")
    drv = os.path.join(VERIF, "driver", "target", "release", "mirfacts")
    try:
        with open(drv, "rb") as fh:
            h.update(hashlib.sha256(fh.read()).digest())
    except OSError:
        raise FactError("driver binary missing: run MANIFEST.setup_cmd")
    return h.hexdigest()[:24], len(files)


def facts_dir(config, repo=None):
    """Return a directory holding the fact files of `config` for the current working tree of the
    repository, (re)building them when the tree, the driver or the configuration changed."""
    repo = repo or REPO
    key, nfiles = repo_digest(repo)
    d = os.path.join(CACHE, key, config)
    ok = os.path.join(d, "OK")
    if os.path.isfile(ok):
        try:
            os.utime(os.path.join(CACHE, key))   # in use: keep it young for _evict (concurrent runs share the cache)
        except OSError:
            pass
        return d, True, nfiles
    os.makedirs(os.path.join(CACHE, key), exist_ok=True)
    lock = open(os.path.join(CACHE, key, f".lock-{config}"), "w")
    fcntl.flock(lock, fcntl.LOCK_EX)
    try:
        if os.path.isfile(ok):
            return d, True, nfiles
        nolock_before, _ = repo_digest(repo, with_lock=False)
        tmp = d + ".tmp%d" % os.getpid()
        shutil.rmtree(tmp, ignore_errors=True)
        r = subprocess.run([os.path.join(VERIF, "bin", "mkfacts"), repo, config, tmp], stdout=subprocess.PIPE, stderr=subprocess.STDOUT, text=True)
        if r.returncode != 0:
            shutil.rmtree(tmp, ignore_errors=True)
            raise FactError(f"building facts for {config} failed:\n{r.stdout[-3000:]}")
        # the tree must not have changed while we were building
        # (cargo may create Cargo.lock in a fresh checkout: that alone is not a change of the sources)
        key2, _ = repo_digest(repo, with_lock=False)
        if key2 != nolock_before:
            shutil.rmtree(tmp, ignore_errors=True)
            raise FactError("repository changed while the facts were being built; re-run")
        shutil.rmtree(d, ignore_errors=True)
        os.rename(tmp, d)
        open(ok, "w").write(str(time.time()))
        _evict(key)
        return d, False, nfiles
    finally:
        fcntl.flock(lock, fcntl.LOCK_UN)
        lock.close()


def _evict(keep_key, keep=12):
    try:
        ents = [e for e in os.listdir(CACHE) if os.path.isdir(os.path.join(CACHE, e))]
        ents.sort(key=lambda e: os.path.getmtime(os.path.join(CACHE, e)), reverse=True)
        now = time.time()
        for e in ents[keep:]:
            # never an entry used within the last hour: another check may be reading its fact files right now
            if e != keep_key and now - os.path.getmtime(os.path.join(CACHE, e)) > 3600:
                shutil.rmtree(os.path.join(CACHE, e), ignore_errors=True)
    except OSError:
        pass


class Ctx:
    """What a rule sees: programs per configuration and a place to record obligations."""

    def __init__(self, pid, tier):
        self.pid = pid
        self.tier = tier
        self._progs = {}
        self.obligations = []  # dicts
        self.violations = []
        self.notes = []
        self.configs_used = {}
        self.rule = None
        self.counts = {}
        self.default_config = "native"

    def prog(self, config=None):
        config = config or self.default_config
        if config not in self._progs:
            d, cached, nfiles = facts_dir(config)
            p = Program(d, config)
            self._progs[config] = p
            self.configs_used[config] = {"fact_dir": os.path.relpath(d, VERIF), "from_cache": cached, "source_files_hashed": nfiles, "bodies": len(p.fns)}
        return self._progs[config]

    def ob(self, rule, key, ok, where="", msg="", nontrivial=True, detail=None):
        """record one obligation instance; a failed one is a violation keyed by rule:key"""
        o = {"rule": rule, "key": key, "ok": bool(ok), "where": where, "msg": msg, "nontrivial": nontrivial, "config": self.default_config}
        if detail is not None:
            o["detail"] = detail
        self.obligations.append(o)
        if not ok:
            self.violations.append(o)
        return ok

    def include(self, fn, label, *args):
        """run a rule of another property and file its obligations under `label` (a clause that is a
        necessary condition of both properties is decided once and reported under each)"""
        n0 = len(self.obligations)
        fn(self, *args)
        for o in self.obligations[n0:]:
            o["key"] = f"{o['rule']}:{o['key']}"
            o["rule"] = label
        self.violations = [o for o in self.obligations if not o["ok"]]

    def fail_closed(self, rule, what):
        self.ob(rule, "anchor:" + what, False, "", "anchor or floor missing (fail closed): " + what)

    def floor(self, rule, what, count, minimum):
        """instance-count floor: fewer instances than counted by hand means the rule went blind"""
        self.ob(rule, f"floor:{what}", count >= minimum, "", f"{what}: found {count}, floor {minimum}", nontrivial=False)

    def note(self, s):
        self.notes.append(s)


def load_known():
    known = {}
    fixed = []
    if os.path.isfile(KNOWN):
        for line in open(KNOWN):
            line = line.strip()
            if not line or line.startswith("#"):
                continue
            if line.startswith("known:"):
                parts = line.split()
                pid = [p for p in parts if p.startswith("property=")][0].split("=", 1)[1]
                key = [p for p in parts if p.startswith("key=")][0].split("=", 1)[1]
                what = line.split("key=" + key, 1)[1].strip()
                known[(pid, key)] = what
            elif line.startswith("fixed:"):
                fixed.append(line)
    return known, fixed


def run_property(pid, tier, rules, explanation, assumptions, design_ref="", thorough_configs=None, multi_config_rules=None):
    """rules: list of (rule_id, function(ctx)).  Prints the verdict lines, writes evidence,
    returns the exit code."""
    t0 = time.time()
    seed = int(os.environ.get("VERIF_SEED", "0") or 0)
    ctx = Ctx(pid, tier)
    rule_stats = {}
    passes = ["native"]
    if tier == "thorough":
        passes += list(thorough_configs or [])
    for cfg in passes:
        ctx.default_config = cfg
        for rid, fn in rules:
            if cfg != "native" and rid in (multi_config_rules or ()):
                continue  # the rule already iterates over configurations itself
            before = len(ctx.obligations)
            ctx.rule = rid
            try:
                fn(ctx)
            except FactError as e:
                ctx.ob(rid, "anchor:" + str(e)[:160], False, "", f"fail closed: {e}")
            except Exception as e:  # a crashing rule is a broken check, never a pass
                tb = traceback.format_exc()
                ctx.ob(rid, "internal-error", False, "", f"rule crashed: {e}\n{tb}")
            n = len(ctx.obligations) - before
            rule_stats[rid] = rule_stats.get(rid, 0) + n
            if n == 0:
                ctx.ob(rid, "vacuous", False, "", "rule produced no obligation (would pass vacuously)")
    ctx.default_config = "native"
    known, fixed = load_known()
    os.makedirs(EVID, exist_ok=True)
    os.makedirs(REPLAY, exist_ok=True)
    unlisted = []
    listed = []
    seen_keys = set()
    for v in ctx.violations:
        k = f"{v['rule']}:{v['key']}"
        if k in seen_keys:
            continue
        seen_keys.add(k)
        if (pid, k) in known:
            listed.append((k, v))
        else:
            unlisted.append((k, v))
    for k, v in listed:
        print(f"KNOWN-FINDING: property={pid} {k} {known[(pid, k)]}")
    for k, v in unlisted:
        safe = "".join(c if c.isalnum() or c in "._-" else "_" for c in k)[:120]
        path = os.path.join(REPLAY, f"{pid}-{safe}.json")
        json.dump({"property": pid, "rule": v["rule"], "key": k, "where": v["where"], "message": v["msg"], "detail": v.get("detail"), "rerun": f"./check {pid} {tier}", "repo": REPO}, open(path, "w"), indent=1)
        print(f"{v['where'] or '-'}: {k}: {v['msg']}" + (f" [configuration {v.get('config')}]" if v.get("config") not in (None, "native") else ""))
        print(f"VIOLATION property={pid} replay={path}")
    wall = time.time() - t0
    distinct = len({(o["rule"], o["key"], o.get("config")) for o in ctx.obligations if o["nontrivial"]})
    samples = []
    per_rule_seen = {}
    for o in ctx.obligations:
        n = per_rule_seen.get(o["rule"], 0)
        if n < 3 and o["nontrivial"]:
            per_rule_seen[o["rule"]] = n + 1
            samples.append({"rule": o["rule"], "instance": o["key"], "where": o["where"], "holds": o["ok"], "what": o["msg"][:300]})
    ev = {
        "property_id": pid,
        "tier": tier,
        "seed": seed,
        "level": "other",
        "coverage": {
            "explanation": explanation,
            "evaluations": len(ctx.obligations),
            "distinct_nontrivial": distinct,
            "rule": "one evaluation = one obligation instance (a rule applied to one construct of the resolved program: a function, call site, table entry, CFG path set or sibling pair); distinct = distinct (rule, instance-key) pairs, excluding instance-count floors and positive controls",
            "samples": samples[:40],
            "obligations": len(ctx.obligations),
            "discharged": sum(1 for o in ctx.obligations if o["ok"]),
            "rules": rule_stats,
            "configurations": ctx.configs_used,
            "known_findings_reported": [k for k, _ in listed],
            "notes": ctx.notes[:50],
            "exhaustive": False,
            "repo": REPO,
            "design_ref": design_ref,
        },
        "assumptions": assumptions,
        "wall_s": round(wall, 3),
        "violations": len(unlisted),
    }
    json.dump(ev, open(os.path.join(EVID, f"{pid}.json"), "w"), indent=1)
    nob = len(ctx.obligations)
    print(f"{pid} {tier}: {nob} obligations over {sum(c['bodies'] for c in ctx.configs_used.values())} bodies in {len(ctx.configs_used)} configuration(s), {nob - len(ctx.violations)} hold, {len(listed)} known finding(s), {len(unlisted)} violation(s); {wall:.1f}s")
    return 1 if unlisted else 0


def witness_results(repo=None):
    """run the compile-fail witness crate against the repository (cached per source digest);
    returns {witness name: {'fail': bool|None, 'twin': bool|None}}"""
    import re
    repo = repo or REPO
    key, _ = repo_digest(repo)
    wdig = hashlib.sha256(open(os.path.join(VERIF, "witness", "src", "lib.rs"), "rb").read()).hexdigest()[:12]
    cf = os.path.join(CACHE, key, f"witness-{wdig}.json")
    if os.path.isfile(cf):
        return json.load(open(cf))
    os.makedirs(os.path.join(CACHE, key), exist_ok=True)
    r = subprocess.run([os.path.join(VERIF, "bin", "run-witness"), repo], stdout=subprocess.PIPE, stderr=subprocess.STDOUT, text=True)
    res = {}
    for line in r.stdout.splitlines():
        m = re.match(r"^test src/lib.rs - (\w+) \(line \d+\)( - compile fail)? \.\.\. (\w+)", line)
        if m:
            d = res.setdefault(m.group(1), {"fail": None, "twin": None})
            if m.group(2):
                d["fail"] = (m.group(3) == "ok") if d["fail"] in (None, True) else False
            else:
                d["twin"] = (m.group(3) == "ok") if d["twin"] in (None, True) else False
    if not res:
        raise FactError("witness crate did not run:\n" + r.stdout[-1500:])
    json.dump(res, open(cf, "w"))
    return res


def witness_obligations(ctx, rule, names):
    """record the witnesses `names` as obligations of `rule`"""
    res = witness_results()
    for n, what in names:
        w = res.get(n)
        if w is None:
            ctx.ob(rule, f"witness:{n}", False, "witness/src/lib.rs", f"witness {n} did not run (fail closed)")
            continue
        ok = (w["fail"] is not False) and (w["twin"] is not False) and (w["fail"] is not None or w["twin"] is not None)
        ctx.ob(rule, f"witness:{n}", ok, "witness/src/lib.rs", f"{what}: compile-fail witness {'rejected by rustc with the expected error code' if w['fail'] else ('n/a' if w['fail'] is None else 'COMPILED')}, compiling twin {'ok' if w['twin'] else ('n/a' if w['twin'] is None else 'FAILED')}")

"""C15 — mutable DOM vs. a plain array/map model: aliasing clause and panic-shape rules."""
import collections
from ..facts import callee_is, op_local, op_place, op_int, FactError, fmt_place
from ..analysis import backward_slice, forward_derived, switch_edges, rv_places
from .c01 import short

EXPLANATION = (
    "Histories are out of reach.  Decides (A) the aliasing clause 'mutating one value never changes any "
    "other': a mutable reference into the shared owned containers (Arc<Vec<Value>> / Arc<Map>) is "
    "obtained only through Arc::make_mut (unique-or-clone), never through get_mut_unchecked / as_ptr / "
    "into_raw; pointers into the arena (arr_elems, obj_pairs, root, dom_str) never feed a mutable view; "
    "ref_cast_mut to the Array/Object facades happens only after to_mut() in the same function; and (B) "
    "three panic shapes on operations the model accepts: (R15.2) as_str().unwrap() only on receivers that "
    "are keys by construction (.0 of a pair, VacantEntry.key, the map serializer's next_key); (R15.3) the "
    "result of next() on a caller's path is never unwrapped (the empty path is the identity); (R15.4) in "
    "a function that switches on the value representation, if one member of a representation class "
    "(Array/EmptyArray, Object/ObjectOwned/EmptyObject) reaches a normal arm no other member reaches a "
    "panic arm. Does NOT decide operation histories against the model."
)
ASSUMPTIONS = ["rustc MIR and callee resolution", "object keys are strings by construction (created by visit_str / copy_str only)"]

OWNED_POINTEES = ("alloc::vec::Vec<value::node::Value>", "HashMap<faststr::FastStr, value::node::Value", "BTreeMap<faststr::FastStr, value::node::Value")


def _is_owned_container_arc(t):
    g = " ".join(t.get("rgargs") or t.get("gargs") or [])
    return any(x in g for x in OWNED_POINTEES) and "Arc" in t.get("callee", "")


def r15_a(ctx):
    prog = ctx.prog()
    uses = collections.Counter()
    sites = []
    for f in prog.fns.values():
        if f.crate != "sonic_rs":
            continue
        for b, t in f.calls():
            if _is_owned_container_arc(t):
                nm = t["callee"].rsplit("::", 1)[-1]
                uses[nm] += 1
                sites.append((f, t, nm))
    ctx.ob("R15.1", "positive-control:make_mut", uses["make_mut"] >= 2, "src/value/node.rs", f"Arc::make_mut on the owned containers: {uses['make_mut']} call sites (floor 2: Value::as_mut)", nontrivial=False)
    forbidden = {"get_mut_unchecked", "as_ptr", "into_raw", "from_raw", "increment_strong_count", "decrement_strong_count", "get_mut"}
    seen = collections.Counter()
    for f, t, nm in sites:
        if nm in forbidden:
            seen[short(f.id)] += 1
            ok = nm == "get_mut" and False
            ctx.ob("R15.1", f"arc-access:{short(f.id)}:{nm}#{seen[short(f.id)]}", ok, f.loc(t["ln"]), f"Arc::{nm} on a shared owned container: a mutable view that does not go through unique-or-clone lets one value's mutation show in its clones")
    ctx.ob("R15.1", "arc-mutable-access-only-make_mut", not any(nm in forbidden for f, t, nm in sites), "", f"Arc API used on the owned containers: {dict(uses)}")
    # arena pointers never feed a mutable view
    arena_fields = ("arr_elems", "obj_pairs", "root", "dom_str")
    n = 0
    bad = []
    for f in prog.fns.values():
        if f.crate != "sonic_rs":
            continue
        starts = set()
        for b, i, s in f.assigns():
            for p in rv_places(s["rv"]):
                if any(isinstance(e, list) and e[0] == "." and e[2] in arena_fields for e in p[1]) and not s["lhs"][1]:
                    starts.add(s["lhs"][0])
        if not starts:
            continue
        n += 1
        der = forward_derived(f, starts)
        # results of as_ptr()/cast chains on those
        more = True
        while more:
            more = False
            for b, t in f.calls():
                nm = t["callee"].rsplit("::", 1)[-1]
                if nm in ("as_ptr", "cast", "add", "sub", "offset", "as_ref") and op_local(t["args"][0]) in der and t["dest"][0] not in der:
                    der.add(t["dest"][0])
                    der |= forward_derived(f, {t["dest"][0]})
                    more = True
        for b, t in f.calls():
            nm = t["callee"].rsplit("::", 1)[-1]
            if nm in ("from_raw_parts_mut", "as_mut", "write", "as_mut_ptr", "swap", "replace", "copy_to", "write_bytes") and any(op_local(a) in der for a in t["args"]):
                bad.append((f, t, nm))
        for b, i, s in f.assigns():
            rv = s["rv"]
            if rv["k"] == "ref" and rv["mut"] and rv["p"][0] in der and "*" in rv["p"][1]:
                bad.append((f, s, "&mut *arena_ptr"))
            if s["lhs"][0] in der and "*" in s["lhs"][1]:
                bad.append((f, s, "store through arena pointer"))
    ctx.floor("R15.1", "functions reading arena pointers", n, 5)
    for f, t, nm in bad:
        ctx.ob("R15.1", f"arena-mutable-view:{short(f.id)}:{nm}", False, f.loc(t.get("ln")), "a mutable view is derived from a pointer into the shared arena: siblings, the document and earlier clones would see the mutation")
    ctx.ob("R15.1", "arena-pointers-read-only", not bad, "", f"{n} functions read arena pointers; none derives a mutable view or stores through them")
    # ref_cast_mut only after to_mut()
    rc = prog.callers_of(lambda t: callee_is(t, "ref_cast_mut") and any(x in " ".join(t.get("rgargs") or t.get("gargs") or []) for x in ("value::array::Array", "value::object::Object")))
    ctx.floor("R15.1", "ref_cast_mut to Array/Object", len(rc), 2)
    for f, b, t in rc:
        tm = [bb for bb, tt in f.calls() if callee_is(tt, "to_mut", "as_mut") and "node::Value" in tt["callee"] and f.dominates(bb, b) and bb != b]
        ctx.ob("R15.1", f"facade-after-to_mut:{short(f.id)}", bool(tm), f.loc(t["ln"]), "the mutable facade is handed out only after to_mut() promoted the value to an owned container" if tm else "a mutable Array/Object facade is created over a value that may still point into the shared arena")


def r15_2(ctx):
    prog = ctx.prog()
    n = 0
    seen = collections.Counter()
    for f in prog.fns.values():
        if f.crate != "sonic_rs":
            continue
        for b, t in f.calls():
            nm = t["callee"].rsplit("::", 1)[-1]
            if nm not in ("unwrap", "expect", "unwrap_unchecked") or "Option" not in t["callee"] or (t.get("rgargs") or [""])[0] != "&str":
                continue
            l = op_local(t["args"][0])
            s = f.src(l) if l is not None else ("multi",)
            if not (s[0] == "call" and callee_is(s[2], "as_str") and "node::Value" in s[2]["callee"]):
                continue
            n += 1
            a = op_local(s[2]["args"][0])
            sl, leaves = backward_slice(f, [a]) if a is not None else (set(), [])
            why = None
            for lf in leaves:
                if lf[0] != "place":
                    continue
                p = lf[1]
                names = [e[2] for e in p[1] if isinstance(e, list) and e[0] == "."]
                base_ty = f.locals[p[0]]["ty"]
                if names and names[-1] == "0" and "(value::node::Value, value::node::Value)" in base_ty:
                    why = "the key half (.0) of an object pair"
                elif names and names[-1] == "key" and "VacantEntry" in base_ty:
                    why = "VacantEntry.key"
                elif names and names[-1] == "next_key":
                    why = "the map serializer's pending key"
            owner = prog.fns.get(f.parent_fn, f) if f.parent_fn else f
            seen[short(owner.id)] += 1
            ctx.ob("R15.2", f"{short(owner.id)}#{seen[short(owner.id)]}", why is not None, f.loc(t["ln"]),
                   f"as_str().{nm}() on {why}: a string by construction" if why else
                   f"as_str().{nm}() on a value that is not a key by construction ({[fmt_place(lf[1]) for lf in leaves if lf[0] == 'place'][:3]}): panics for any non-string value")
    ctx.floor("R15.2", "as_str().unwrap() sites on DOM values", n, 5)


def r15_3(ctx):
    prog = ctx.prog()
    fns = [f for f in prog.fns.values() if f.crate == "sonic_rs" and f.kind != "Closure" and any("IntoIterator" in p for p in f.d.get("preds", [])) and any("index::Index" in p for p in f.d.get("preds", []))]
    ctx.floor("R15.3", "functions taking a caller-made path (P: IntoIterator, P::Item: Index)", len(fns), 6)
    for f in fns:
        nx = [(b, t) for b, t in f.calls() if callee_is(t, "next") and "Iterator" in (t.get("trait") or t["callee"])]
        bad = []
        for b, t in nx:
            der = forward_derived(f, {t["dest"][0]})
            for bb, tt in f.calls():
                nm = tt["callee"].rsplit("::", 1)[-1]
                if nm in ("unwrap", "expect", "unwrap_unchecked") and tt["args"] and op_local(tt["args"][0]) in der:
                    bad.append(tt)
        ctx.ob("R15.3", f"{short(f.id)}", not bad, f.loc(bad[0]["ln"] if bad else None),
               "no element of the caller's path is unwrapped: the empty path is the identity" if not bad else "path.next() is unwrapped: the empty path panics although every sibling returns the value itself")


CLASSES = (("Array", "EmptyArray"), ("Object", "ObjectOwned", "EmptyObject"))
REPR_ADTS = ("sonic_rs::value::node::ValueRefInner", "sonic_rs::value::node::ValueDetail")


def r15_4(ctx):
    prog = ctx.prog()
    n = 0
    for f in prog.fns.values():
        if f.crate != "sonic_rs":
            continue
        for b, t in f.terms():
            if t["k"] != "switch":
                continue
            dl = op_local(t["discr"])
            d = f.single_def(dl) if dl is not None else None
            if not (d and d[0] == "stmt" and d[3]["rv"]["k"] == "discr"):
                continue
            pl = d[3]["rv"]["p"]
            adt = f.locals[pl[0]].get("adt") if not pl[1] else None
            if pl[1]:
                # discriminant of a projection: use the type string
                continue
            if adt not in REPR_ADTS:
                continue
            variants = {int(v["discr"]): v["name"] for v in prog.adts[adt]["variants"]}
            edges = switch_edges(f, b)
            explicit = {v: tgt for v, tgt in edges if v is not None}
            otherwise = [tgt for v, tgt in edges if v is None]
            arm = {}
            for dv, name in variants.items():
                tgt = explicit.get(dv, otherwise[0] if otherwise else None)
                if tgt is None:
                    continue
                reach = f.reachable_from(tgt)
                diverges = not (reach & set(f.return_blocks))
                arm[name] = ("panic" if diverges else "normal", tgt)
            n += 1
            for cls in CLASSES:
                kinds = {m: arm[m][0] for m in cls if m in arm}
                mixed = "panic" in kinds.values() and "normal" in kinds.values()
                if len(kinds) < 2:
                    continue
                # an arm that is unreachable by construction is lowered to `unreachable` without a panic call
                ctx.ob("R15.4", f"{short(f.id)}:{'/'.join(cls)}@{len([o for o in ctx.obligations if o['rule'] == 'R15.4' and o['key'].startswith(short(f.id))])}", not mixed, f.loc(t["ln"]),
                       f"representations {kinds}: " + ("handled alike" if not mixed else "one representation of the same JSON kind is served, another one panics (the model accepts both)"))
    ctx.floor("R15.4", "switches on the value representation", n, 15)


RULES = [("R15.1", r15_a), ("R15.2", r15_2), ("R15.3", r15_3), ("R15.4", r15_4)]

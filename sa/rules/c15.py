"""C15 — mutable DOM vs. a plain array/map model: aliasing clause and panic-shape rules."""
import collections
import re
from ..facts import callee_is, op_local, op_place, op_int, FactError, fmt_place
from ..analysis import backward_slice, forward_derived, switch_edges, rv_places, bool_switch_edges
from .c01 import short

EXPLANATION = (
    "Histories are out of reach.  Decides (A) the aliasing clause 'mutating one value never changes any "
    "other': a mutable reference into the shared owned containers (Arc<Vec<Value>> / Arc<Map>) is "
    "obtained only through Arc::make_mut (unique-or-clone), never through get_mut_unchecked / as_ptr / "
    "into_raw; pointers into the arena (arr_elems, obj_pairs, root, dom_str) never feed a mutable view; "
    "ref_cast_mut to the Array/Object facades happens only after to_mut() in the same function; and (B) "
    "three panic shapes on operations the model accepts: (R15.2) as_str().unwrap() only on receivers that "
    "are keys by construction (.0 of a pair, VacantEntry.key, the map serializer's next_key); (R15.3) the "
    "result of next() on a caller's path is never unwrapped (the empty path is the identity); (R15.4) in "
    "a function that switches on the value representation, if one member of a representation class "
    "(Array/EmptyArray, Object/ObjectOwned/EmptyObject) reaches a normal arm no other member reaches a "
    "panic arm. Does NOT decide operation histories against the model."
)
ASSUMPTIONS = ["rustc MIR and callee resolution", "object keys are strings by construction (created by visit_str / copy_str only)"]

OWNED_POINTEES = ("alloc::vec::Vec<value::node::Value>", "HashMap<faststr::FastStr, value::node::Value", "BTreeMap<faststr::FastStr, value::node::Value")


def _is_owned_container_arc(t):
    g = " ".join(t.get("rgargs") or t.get("gargs") or [])
    return any(x in g for x in OWNED_POINTEES) and "Arc" in t.get("callee", "")


def r15_a(ctx):
    prog = ctx.prog()
    uses = collections.Counter()
    sites = []
    for f in prog.fns.values():
        if f.crate != "sonic_rs":
            continue
        for b, t in f.calls():
            if _is_owned_container_arc(t):
                nm = t["callee"].rsplit("::", 1)[-1]
                uses[nm] += 1
                sites.append((f, t, nm))
    ctx.ob("R15.1", "positive-control:make_mut", uses["make_mut"] >= 2, "src/value/node.rs", f"Arc::make_mut on the owned containers: {uses['make_mut']} call sites (floor 2: Value::as_mut)", nontrivial=False)
    forbidden = {"get_mut_unchecked", "as_ptr", "into_raw", "from_raw", "increment_strong_count", "decrement_strong_count", "get_mut"}
    seen = collections.Counter()
    for f, t, nm in sites:
        if nm in forbidden:
            seen[short(f.id)] += 1
            ok = nm == "get_mut" and False
            ctx.ob("R15.1", f"arc-access:{short(f.id)}:{nm}#{seen[short(f.id)]}", ok, f.loc(t["ln"]), f"Arc::{nm} on a shared owned container: a mutable view that does not go through unique-or-clone lets one value's mutation show in its clones")
    ctx.ob("R15.1", "arc-mutable-access-only-make_mut", not any(nm in forbidden for f, t, nm in sites), "", f"Arc API used on the owned containers: {dict(uses)}")
    # arena pointers never feed a mutable view
    arena_fields = ("arr_elems", "obj_pairs", "root", "dom_str")
    n = 0
    bad = []
    for f in prog.fns.values():
        if f.crate != "sonic_rs":
            continue
        starts = set()
        for b, i, s in f.assigns():
            for p in rv_places(s["rv"]):
                if any(isinstance(e, list) and e[0] == "." and e[2] in arena_fields for e in p[1]) and not s["lhs"][1]:
                    starts.add(s["lhs"][0])
        if not starts:
            continue
        n += 1
        der = forward_derived(f, starts)
        # results of as_ptr()/cast chains on those
        more = True
        while more:
            more = False
            for b, t in f.calls():
                nm = t["callee"].rsplit("::", 1)[-1]
                if nm in ("as_ptr", "cast", "add", "sub", "offset", "as_ref") and op_local(t["args"][0]) in der and t["dest"][0] not in der:
                    der.add(t["dest"][0])
                    der |= forward_derived(f, {t["dest"][0]})
                    more = True
        for b, t in f.calls():
            nm = t["callee"].rsplit("::", 1)[-1]
            if nm in ("from_raw_parts_mut", "as_mut", "write", "as_mut_ptr", "swap", "replace", "copy_to", "write_bytes") and any(op_local(a) in der for a in t["args"]):
                bad.append((f, t, nm))
        for b, i, s in f.assigns():
            rv = s["rv"]
            if rv["k"] == "ref" and rv["mut"] and rv["p"][0] in der and "*" in rv["p"][1]:
                bad.append((f, s, "&mut *arena_ptr"))
            if s["lhs"][0] in der and "*" in s["lhs"][1]:
                bad.append((f, s, "store through arena pointer"))
    ctx.floor("R15.1", "functions reading arena pointers", n, 5)
    for f, t, nm in bad:
        ctx.ob("R15.1", f"arena-mutable-view:{short(f.id)}:{nm}", False, f.loc(t.get("ln")), "a mutable view is derived from a pointer into the shared arena: siblings, the document and earlier clones would see the mutation")
    ctx.ob("R15.1", "arena-pointers-read-only", not bad, "", f"{n} functions read arena pointers; none derives a mutable view or stores through them")
    # ref_cast_mut only after to_mut()
    rc = prog.callers_of(lambda t: callee_is(t, "ref_cast_mut") and any(x in " ".join(t.get("rgargs") or t.get("gargs") or []) for x in ("value::array::Array", "value::object::Object")))
    ctx.floor("R15.1", "ref_cast_mut to Array/Object", len(rc), 2)
    for f, b, t in rc:
        tm = [bb for bb, tt in f.calls() if callee_is(tt, "to_mut", "as_mut") and "node::Value" in tt["callee"] and f.dominates(bb, b) and bb != b]
        ctx.ob("R15.1", f"facade-after-to_mut:{short(f.id)}", bool(tm), f.loc(t["ln"]), "the mutable facade is handed out only after to_mut() promoted the value to an owned container" if tm else "a mutable Array/Object facade is created over a value that may still point into the shared arena")


def r15_2(ctx):
    prog = ctx.prog()
    n = 0
    seen = collections.Counter()
    for f in prog.fns.values():
        if f.crate != "sonic_rs":
            continue
        for b, t in f.calls():
            nm = t["callee"].rsplit("::", 1)[-1]
            if nm not in ("unwrap", "expect", "unwrap_unchecked") or "Option" not in t["callee"] or (t.get("rgargs") or [""])[0] != "&str":
                continue
            l = op_local(t["args"][0])
            s = f.src(l) if l is not None else ("multi",)
            if not (s[0] == "call" and callee_is(s[2], "as_str") and "node::Value" in s[2]["callee"]):
                continue
            n += 1
            a = op_local(s[2]["args"][0])
            sl, leaves = backward_slice(f, [a]) if a is not None else (set(), [])
            why = None
            for lf in leaves:
                if lf[0] != "place":
                    continue
                p = lf[1]
                names = [e[2] for e in p[1] if isinstance(e, list) and e[0] == "."]
                base_ty = f.locals[p[0]]["ty"]
                if names and names[-1] == "0" and "(value::node::Value, value::node::Value)" in base_ty:
                    why = "the key half (.0) of an object pair"
                elif names and names[-1] == "key" and "VacantEntry" in base_ty:
                    why = "VacantEntry.key"
                elif names and names[-1] == "next_key":
                    why = "the map serializer's pending key"
            owner = prog.fns.get(f.parent_fn, f) if f.parent_fn else f
            seen[short(owner.id)] += 1
            ctx.ob("R15.2", f"{short(owner.id)}#{seen[short(owner.id)]}", why is not None, f.loc(t["ln"]),
                   f"as_str().{nm}() on {why}: a string by construction" if why else
                   f"as_str().{nm}() on a value that is not a key by construction ({[fmt_place(lf[1]) for lf in leaves if lf[0] == 'place'][:3]}): panics for any non-string value")
    ctx.floor("R15.2", "as_str().unwrap() sites on DOM values", n, 5)


def r15_3(ctx):
    prog = ctx.prog()
    fns = [f for f in prog.fns.values() if f.crate == "sonic_rs" and f.kind != "Closure" and any("IntoIterator" in p for p in f.d.get("preds", [])) and any("index::Index" in p for p in f.d.get("preds", []))]
    ctx.floor("R15.3", "functions taking a caller-made path (P: IntoIterator, P::Item: Index)", len(fns), 6)
    for f in fns:
        nx = [(b, t) for b, t in f.calls() if callee_is(t, "next") and "Iterator" in (t.get("trait") or t["callee"])]
        bad = []
        for b, t in nx:
            der = forward_derived(f, {t["dest"][0]})
            for bb, tt in f.calls():
                nm = tt["callee"].rsplit("::", 1)[-1]
                if nm in ("unwrap", "expect", "unwrap_unchecked") and tt["args"] and op_local(tt["args"][0]) in der:
                    bad.append(tt)
        ctx.ob("R15.3", f"{short(f.id)}", not bad, f.loc(bad[0]["ln"] if bad else None),
               "no element of the caller's path is unwrapped: the empty path is the identity" if not bad else "path.next() is unwrapped: the empty path panics although every sibling returns the value itself")


CLASSES = (("Array", "EmptyArray"), ("Object", "ObjectOwned", "EmptyObject"))
REPR_ADTS = ("sonic_rs::value::node::ValueRefInner", "sonic_rs::value::node::ValueDetail")


def r15_4(ctx):
    prog = ctx.prog()
    n = 0
    for f in prog.fns.values():
        if f.crate != "sonic_rs":
            continue
        for b, t in f.terms():
            if t["k"] != "switch":
                continue
            dl = op_local(t["discr"])
            d = f.single_def(dl) if dl is not None else None
            if not (d and d[0] == "stmt" and d[3]["rv"]["k"] == "discr"):
                continue
            pl = d[3]["rv"]["p"]
            adt = f.locals[pl[0]].get("adt") if not pl[1] else None
            if pl[1]:
                # discriminant of a projection: use the type string
                continue
            if adt not in REPR_ADTS:
                continue
            variants = {int(v["discr"]): v["name"] for v in prog.adts[adt]["variants"]}
            edges = switch_edges(f, b)
            explicit = {v: tgt for v, tgt in edges if v is not None}
            otherwise = [tgt for v, tgt in edges if v is None]
            arm = {}
            for dv, name in variants.items():
                tgt = explicit.get(dv, otherwise[0] if otherwise else None)
                if tgt is None:
                    continue
                reach = f.reachable_from(tgt)
                diverges = not (reach & set(f.return_blocks))
                arm[name] = ("panic" if diverges else "normal", tgt)
            n += 1
            for cls in CLASSES:
                kinds = {m: arm[m][0] for m in cls if m in arm}
                mixed = "panic" in kinds.values() and "normal" in kinds.values()
                if len(kinds) < 2:
                    continue
                # an arm that is unreachable by construction is lowered to `unreachable` without a panic call
                ctx.ob("R15.4", f"{short(f.id)}:{'/'.join(cls)}@{len([o for o in ctx.obligations if o['rule'] == 'R15.4' and o['key'].startswith(short(f.id))])}", not mixed, f.loc(t["ln"]),
                       f"representations {kinds}: " + ("handled alike" if not mixed else "one representation of the same JSON kind is served, another one panics (the model accepts both)"))
    ctx.floor("R15.4", "switches on the value representation", n, 15)


FACADES = {"sonic_rs::value::array::Array": ("array", "is_array", ("new_array", "new_array_with")),
           "sonic_rs::value::object::Object": ("object", "is_object", ("new_object", "new_object_with"))}
KIND_CHANGERS = ("take", "replace", "swap", "write", "write_unaligned", "drop_in_place", "clone_from", "set_null", "mark_root", "mark_shared")


def _facade_ty(ty):
    t = re.sub(r"^(&(\'\w+ )?(mut )?)+", "", ty or "")
    for adt in FACADES:
        if t == adt.replace("sonic_rs::", ""):
            return adt
    return None


def _inner_place(f, p):
    """is place p exactly the inner Value (.0) of an Array/Object facade held in a local?"""
    pr = [e for e in p[1] if e != "*"]
    if len(pr) == 1 and isinstance(pr[0], list) and pr[0][0] == "." and pr[0][2] == "0":
        return _facade_ty(f.locals[p[0]]["ty"])
    return None


def _kind_established(f, l, adt, b):
    """why the value in local l is known to be of the facade's kind at block b (None if it is not)"""
    kind, test, ctors = FACADES[adt]
    src = f.src(l) if l is not None else ("multi",)
    if src[0] == "call":
        t = src[2]
        nm = t["callee"].rsplit("::", 1)[-1]
        a0ty = (t.get("argtys") or [""])[0]
        if nm in ctors:
            return f"built by Value::{nm}"
        if nm in ("into", "from") and "node::Value" in (t.get("dty") or "") and kind == "array" and a0ty.startswith(("alloc::vec::Vec<", "&[")):
            return f"typed conversion of a sequence ({a0ty} -> Value builds an array)"
        if nm == "from_iter" and "for value::node::Value" in t["callee"] and (("FromIterator<(" in t["callee"]) == (kind == "object")):
            return f"collected by the {kind}-building FromIterator impl of Value"
        if nm in ("clone", "take", "replace") and t["args"]:
            a = op_local(t["args"][0])
            sa = f.src(a) if a is not None else ("multi",)
            if sa[0] == "place" and _inner_place(f, sa[1]) == adt:
                return f"{nm} of the inner value of the same facade"
    for bb, t in f.calls():
        if not callee_is(t, test):
            continue
        a = op_local(t["args"][0])
        sa = f.src(a) if a is not None else ("multi",)
        same = sa == src or (sa[0] == "refof" and (sa[1] == l or f.src(sa[1]) == src))
        if not same and sa[0] == "refof":
            d = f.single_def(l)
            same = bool(d and d[0] == "stmt" and d[3]["rv"]["k"] == "use" and op_local(d[3]["rv"]["op"]) == sa[1])
        e = bool_switch_edges(f, t["dest"][0])
        if same and e and e[0] != e[1] and f.dominates(e[0], b):
            return f"guarded by {test}() on the value being wrapped"
    return None


def r15_5(ctx):
    """typestate of the facades: Array(v) / Object(v) always wrap a value of that kind"""
    prog = ctx.prog()
    nsite = 0
    seen = collections.Counter()
    for f in prog.fns.values():
        if f.crate != "sonic_rs":
            continue
        for b, i, s in f.assigns():
            rv = s["rv"]
            if not (rv["k"] == "agg" and rv.get("adt") in FACADES):
                continue
            nsite += 1
            kind, test, ctors = FACADES[rv["adt"]]
            why = _kind_established(f, op_local(rv["f"][0]), rv["adt"], b)
            owner = prog.fns.get(f.parent_fn, f) if f.parent_fn else f
            seen[short(owner.id)] += 1
            ctx.ob("R15.5", f"construct:{short(owner.id)}#{seen[short(owner.id)]}", why is not None, f.loc(s.get("ln")),
                   f"{rv['adt'].rsplit('::', 1)[-1]}(v): v is {why}" if why else
                   f"{rv['adt'].rsplit('::', 1)[-1]}(v) wraps a value whose kind is not established ({kind} constructor, typed conversion or dominating {test}() test): every method of the facade panics on it")
    ctx.floor("R15.5", "facade construction sites", nsite, 10)
    # no kind-changing operation on the inner value of a facade
    nref = 0
    bad = []
    for f in prog.fns.values():
        if f.crate != "sonic_rs":
            continue
        inner = {}
        for b, i, s in f.assigns():
            rv = s["rv"]
            if rv["k"] in ("ref", "rawptr") and rv.get("mut") and _inner_place(f, rv["p"]):
                inner[s["lhs"][0]] = _inner_place(f, rv["p"])
            adt = _inner_place(f, s["lhs"]) if s["lhs"][1] else None
            if adt:
                # whole-value store into facade.0
                l = op_local(rv["op"]) if rv["k"] == "use" else None
                if _kind_established(f, l, adt, b) is None:
                    bad.append((f, s, "store", adt))
        nref += len(inner)
        for b, t in f.calls():
            nm = t["callee"].rsplit("::", 1)[-1]
            if nm not in KIND_CHANGERS or not t["args"]:
                continue
            # only the destination position matters
            a0 = op_local(t["args"][0])
            adt = inner.get(a0)
            if adt is None and a0 is not None:
                sa = f.src(a0)
                if sa[0] == "place":
                    adt = _inner_place(f, sa[1])
            if adt is None and nm == "swap" and len(t["args"]) > 1:
                adt = inner.get(op_local(t["args"][1]))
            if adt is None:
                continue
            if nm == "replace" and len(t["args"]) > 1 and _kind_established(f, op_local(t["args"][1]), adt, b):
                continue
            if nm == "swap" and all(inner.get(op_local(a)) == adt for a in t["args"]):
                continue
            bad.append((f, t, nm, adt))
    ctx.floor("R15.5", "mutable borrows of a facade's inner value", nref, 15)
    cnt = collections.Counter()
    for f, t, nm, adt in bad:
        owner = prog.fns.get(f.parent_fn, f) if f.parent_fn else f
        cnt[short(owner.id)] += 1
        ctx.ob("R15.5", f"kind-change:{short(owner.id)}:{nm}#{cnt[short(owner.id)]}", False, f.loc(t.get("ln")),
               f"{nm} on the inner value of an {adt.rsplit('::', 1)[-1]} puts a value of unestablished kind in its place (take() leaves null): the facade's methods then panic and the value no longer matches the model")
    ctx.ob("R15.5", "inner-value-keeps-its-kind", not bad, "", f"{nref} mutable borrows of Array.0 / Object.0: none is passed to take / replace / swap / write / clone_from with a value of unestablished kind, and no store replaces the inner value by one")


def r15_6(ctx):
    """a caller-supplied position never indexes the element storage unguarded (outside Index/IndexMut, whose contract is Vec's)"""
    prog = ctx.prog()
    n = 0
    seen = collections.Counter()
    for f in prog.fns.values():
        if f.crate != "sonic_rs" or not any(m in f.id for m in ("value::array::", "value::object::", "value::node::Value::", "value::array::Array", "value::object::Object")):
            continue
        owner = prog.fns.get(f.parent_fn, f) if f.parent_fn else f
        if (owner.trait or "").endswith(("ops::index::Index", "ops::index::IndexMut")) or (owner.trait or "").startswith("core::ops::index::Index"):
            continue
        if "ops::index::Index" in owner.id:
            continue
        for b, t in f.calls():
            nm = t["callee"].rsplit("::", 1)[-1]
            if nm not in ("index", "index_mut") or len(t["args"]) < 2 or not any(x in (t.get("argtys") or [""])[0] for x in ("[value::node::Value]", "Vec<value::node::Value>", "[(value::node::Value, value::node::Value)]")):
                continue
            il = op_local(t["args"][1])
            if il is None:
                continue
            sl, leaves = backward_slice(f, [il])
            params = sorted({lf[1] for lf in leaves if lf[0] == "param" and f.locals[lf[1]]["ty"] in ("usize", "u32", "u64", "isize")})
            if not params:
                continue
            n += 1
            clamped = any(lf[0] == "call" and lf[2]["callee"].rsplit("::", 1)[-1] in ("min", "clamp") for lf in leaves) and any(lf[0] == "call" and callee_is(lf[2], "len") for lf in leaves)
            guarded = False
            for bb, tt in f.terms():
                if tt["k"] != "switch" or bb == b or not f.dominates(bb, b):
                    continue
                dl = op_local(tt["discr"])
                if dl is None:
                    continue
                s2, lv2 = backward_slice(f, [dl])
                if set(params) & {lf[1] for lf in lv2 if lf[0] == "param"} and any(lf[0] == "call" and callee_is(lf[2], "len") for lf in lv2):
                    # the index site lies on one side only
                    tg = {x for _, x in tt["targets"]} | {tt["otherwise"]}
                    if len(tg) >= 2 and any(b not in f.reachable_from(x) for x in tg):
                        guarded = True
            seen[short(owner.id)] += 1
            ok = guarded or clamped
            ctx.ob("R15.6", f"{short(owner.id)}#{seen[short(owner.id)]}", ok, f.loc(t["ln"]),
                   f"element storage indexed by caller-supplied {[f.locals[p_].get('name', p_) for p_ in params]}: " + ("compared with len() on a dominating branch" if guarded else "clamped to len()" if clamped else
                   "no dominating comparison with len(): an out-of-range position panics where the model (Vec) returns normally or reports None"))
    ctx.ob("R15.6", "sites", True, "", f"{n} storage index site(s) fed by a caller-supplied position (checked accessors such as get()/get_mut() need no guard and are not counted)", nontrivial=False)


MUTATORS = ("pop", "push", "remove", "insert", "truncate", "clear", "swap_remove", "drain", "retain", "retain_mut", "append", "extend", "split_off", "set_len", "swap", "dedup", "resize", "shift_remove", "swap_remove_entry", "remove_entry")


def r15_7(ctx):
    """an operation the model rejects fails before it changes anything: in the facade mutators no check of a caller-supplied
    position can fail after the storage was already changed"""
    prog = ctx.prog()
    n = 0
    for f in prog.fns.values():
        if f.crate != "sonic_rs" or f.kind == "Closure" or (f.self_adt or "") not in FACADES or f.argc < 2:
            continue
        if not f.locals[1]["ty"].startswith("&mut"):
            continue
        iparams = [i for i in range(2, f.argc + 1) if f.locals[i]["ty"] in ("usize",)]
        if not iparams:
            continue
        muts = [(b, t) for b, t in f.calls() if t["callee"].rsplit("::", 1)[-1] in MUTATORS and t["args"] and ("Vec" in t["callee"] or "Array" in t["callee"] or "Object" in t["callee"] or "Map" in t["callee"] or "ptr::" in t["callee"])]
        if not muts:
            continue
        n += 1
        late = []
        for mb, mt in muts:
            after = set()
            for x in f.succs(mb):
                after |= f.reachable_from(x)
            for b, t in f.calls():
                if b not in after or (b == mb):
                    continue
                nm = t["callee"].rsplit("::", 1)[-1]
                if nm in ("index", "index_mut") and len(t["args"]) > 1:
                    l = op_local(t["args"][1])
                    sl, leaves = backward_slice(f, [l]) if l is not None else (set(), [])
                    if any(lf[0] == "param" and lf[1] in iparams for lf in leaves):
                        late.append((mt, t, "an index by the caller's position"))
                if "panicking::" in t["callee"] and not f.d["blocks"][b].get("cleanup"):
                    # a panic that depends on the caller's position
                    for sb, st in f.terms():
                        if st["k"] == "switch" and f.dominates(sb, b):
                            dl = op_local(st["discr"])
                            sl, leaves = backward_slice(f, [dl]) if dl is not None else (set(), [])
                            if any(lf[0] == "param" and lf[1] in iparams for lf in leaves) and sb in after:
                                late.append((mt, t, "a panic on a test of the caller's position"))
        key = short(f.id)
        ctx.ob("R15.7", key, not late, f.loc(late[0][1]["ln"] if late else None),
               "every check of the caller's position happens before the first change of the storage" if not late else
               f"{late[0][2]} can fail after {late[0][0]['callee'].rsplit('::', 1)[-1]}() already changed the storage: the rejected operation leaves the array modified")
    ctx.floor("R15.7", "facade mutators taking a position", n, 4)


def r15_8(ctx):
    """append moves the members of `other` into `self`: on a name both hold, other's value wins (as in the map model)"""
    prog = ctx.prog()
    f = prog.find("value::object::Object::append")
    both = []
    for b, t in f.calls():
        ps = []
        for a in t["args"]:
            l = op_local(a)
            sl, leaves = backward_slice(f, [l]) if l is not None else (set(), [])
            ps.append({lf[1] for lf in leaves if lf[0] == "param"})
        muts = [i for i, a in enumerate(t["args"]) if (t.get("argtys") or [""] * 9)[i].startswith("&mut")]
        if any(1 in ps[i] for i in muts) and any(2 in ps[i] and 1 not in ps[i] for i in muts) and t["callee"].rsplit("::", 1)[-1] in ("swap", "replace", "take"):
            both.append(t)
    ctx.ob("R15.8", "append:operands-not-exchanged", not both, f.loc(both[0]["ln"] if both else None),
           "self and other are never exchanged" if not both else "self and other are exchanged before the merge: on a name both objects hold, the old value of self survives")
    ins = [(b, t) for g in prog.with_closures(f) for b, t in g.calls() if t["callee"].rsplit("::", 1)[-1] in ("insert", "extend", "append", "push")]
    okd = bool(ins)
    for b, t in [(b, t) for b, t in f.calls() if t["callee"].rsplit("::", 1)[-1] in ("insert", "extend", "append", "push")]:
        l = op_local(t["args"][0])
        sl, leaves = backward_slice(f, [l]) if l is not None else (set(), [])
        recv = {lf[1] for lf in leaves if lf[0] == "param"}
        srcs = set()
        for a in t["args"][1:]:
            l2 = op_local(a)
            s2, lv2 = backward_slice(f, [l2]) if l2 is not None else (set(), [])
            srcs |= {lf[1] for lf in lv2 if lf[0] == "param"}
        if not (1 in recv and 2 not in recv and 2 in srcs):
            okd = False
    ctx.ob("R15.8", "append:other-into-self", okd, f.loc(), "members drained from `other` are inserted into `self`")


def r15_9(ctx):
    """insertion overwrites: the value handed to Value::insert / Object::insert goes into the map through an overwriting
    `insert`, never through a keep-the-old-one operation (entry().or_insert, try_insert)"""
    prog = ctx.prog()
    n = 0
    for name in ("value::node::Value::insert", "value::object::Object::insert"):
        f = prog.find(name, required=False)
        if f is None:
            continue
        n += 1
        vparams = [i for i in range(1, f.argc + 1) if f.locals[i]["ty"].endswith("value::node::Value") or f.locals[i]["ty"] == "V"]
        keep = []
        over = []
        for g in prog.with_closures(f):
            for b, t in g.calls():
                nm = t["callee"].rsplit("::", 1)[-1]
                if nm in ("or_insert", "or_insert_with", "or_insert_with_key", "or_default", "try_insert"):
                    keep.append(t)
                if nm in ("insert", "insert_full"):
                    over.append(t)
        ctx.ob("R15.9", f"{short(f.id)}:overwrites", bool(over) and not keep, f.loc(keep[0]["ln"] if keep else None),
               "the new value replaces an existing member of the same name" if over and not keep else
               "the value is stored with a keep-the-old-one operation: inserting under an existing name drops the new value (the map model overwrites)")
    ctx.floor("R15.9", "insertion helpers", n, 2)


def r15_10(ctx):
    """the consuming array iterator shows what is left: next/next_back move the cursors `index`/`len` and take the element
    out (leaving null behind), so every view of the remaining elements (as_slice, as_mut_slice) must be cut by both cursors,
    as Vec's IntoIter does"""
    prog = ctx.prog()
    adt = "sonic_rs::value::array::IntoIter"
    views = [f for f in prog.fns.values() if f.crate == "sonic_rs" and (f.self_adt or "") == adt and f.name in ("as_slice", "as_mut_slice") and f.kind != "Closure"]
    ctx.floor("R15.10", "slice views of array::IntoIter", len(views), 2)
    steps = [f for f in prog.fns.values() if f.crate == "sonic_rs" and (f.self_adt or "") == adt and f.name in ("next", "next_back")]
    moved = set()
    for g in steps:
        for b, i, st in g.assigns():
            names = [e[2] for e in st["lhs"][1] if isinstance(e, list) and e[0] == "."]
            if names and names[-1] in ("index", "len"):
                moved.add(names[-1])
    ctx.ob("R15.10", "cursors", moved == {"index", "len"}, steps[0].loc() if steps else "", f"next / next_back advance the cursor fields {sorted(moved)}", nontrivial=False)
    def cut_fields(f, depth=0):
        """cursor fields the returned slice depends on, in f or in the private helper of the iterator that builds it"""
        sl, leaves = backward_slice(f, [0])
        fields = set()
        for b, i, st in f.assigns():
            for pl in rv_places(st["rv"]):
                names = [e[2] for e in pl[1] if isinstance(e, list) and e[0] == "."]
                if names and names[-1] in ("index", "len") and "IntoIter" in f.locals[pl[0]]["ty"] and st["lhs"][0] in sl:
                    fields.add(names[-1])
        if depth < 2:
            for lf in leaves:
                if lf[0] == "call" and lf[2]["callee"] in prog.fns and (prog.fns[lf[2]["callee"]].self_adt or "") == adt:
                    fields |= cut_fields(prog.fns[lf[2]["callee"]], depth + 1)
        return fields
    for f in views:
        fields = cut_fields(f)
        ok = fields >= moved and bool(moved)
        ctx.ob("R15.10", f"view:{f.name}", ok, f.loc(), f"{f.name} is cut by the cursor fields {sorted(fields)}" if ok else
               f"{f.name} does not depend on {sorted(moved - fields)}: after next() it still shows the consumed positions (as null) where Vec's IntoIter shows only what is left")


def r15_11(ctx):
    """copy-on-write promotion is only asked of containers: Value::as_mut converts a parsed array/object and calls itself
    again; on a parsed string or number the conversion does nothing and the recursion never ends.  So every call into the
    promoting helpers of Value (those that call as_mut) has a receiver whose kind is established: the inner value of an
    Array/Object facade, or a value on the true edge of a dominating is_array()/is_object() test"""
    prog = ctx.prog()
    am = prog.find("value::node::Value::as_mut")
    promoting = {am.id}
    for f, b, t in prog.callers_of(lambda t: t.get("callee") == am.id):
        if (f.self_adt or "").endswith("node::Value"):
            promoting.add(f.id)
    n = 0
    seen = collections.Counter()
    for f in prog.fns.values():
        if f.crate != "sonic_rs" or f.id in promoting:
            continue
        # the accessors that answer None for a value of the wrong kind: Index::index_into_mut of every index type.  (Other
        # callers hold values whose kind is fixed by construction - facades, the in-memory serializer's builders - and are
        # covered by R15.5.)
        if f.name != "index_into_mut" or "index::" not in f.id:
            continue
        for b, t in f.calls():
            if t.get("callee") not in promoting or not t["args"]:
                continue
            n += 1
            a = op_local(t["args"][0])
            src = f.src(a) if a is not None else ("multi",)
            why = None
            if src[0] == "place" and _inner_place(f, src[1]):
                why = "the inner value of a facade"
            else:
                root = None
                sl, leaves = backward_slice(f, [a]) if a is not None else (set(), [])
                if any(lf[0] == "place" and _inner_place(f, lf[1]) for lf in leaves):
                    why = "the inner value of a facade"
                else:
                    for cb, ct in f.calls():
                        if not callee_is(ct, "is_object", "is_array") or not f.dominates(cb, b):
                            continue
                        ca = op_local(ct["args"][0])
                        csl, cleaves = backward_slice(f, [ca]) if ca is not None else (set(), [])
                        roots_a = {lf[1] for lf in leaves if lf[0] == "param"} | {x for x in sl if f.locals[x].get("name")}
                        roots_c = {lf[1] for lf in cleaves if lf[0] == "param"} | {x for x in csl if f.locals[x].get("name")}
                        e = bool_switch_edges(f, ct["dest"][0])
                        if (roots_a & roots_c) and e and e[0] != e[1] and (b == e[0] or f.dominates(e[0], b)) and b not in f.reachable_from(e[1], avoid={e[0]}):
                            why = f"on the true edge of {ct['callee'].rsplit('::', 1)[-1]}()"
            owner = prog.fns.get(f.parent_fn, f) if f.parent_fn else f
            seen[short(owner.id)] += 1
            ctx.ob("R15.11", f"promotion-on-containers:{short(owner.id)}#{seen[short(owner.id)]}", why is not None, f.loc(t["ln"]),
                   f"{t['callee'].rsplit('::', 1)[-1]} is applied to {why}" if why else
                   f"{t['callee'].rsplit('::', 1)[-1]} (which promotes through as_mut) can be applied to a value whose kind was not tested: on a parsed string or number as_mut calls itself for ever (stack overflow) where the model returns None")
    ctx.floor("R15.11", "calls into the promoting helpers of Value from index_into_mut", n, 3)


def r15_12(ctx):
    """the cursors of the consuming array iterator stay ordered (index <= len): `len() = len - index`, `as_slice` and the
    element accesses rely on it.  Every store to `index` / `len` of array::IntoIter is a step by one on the edge where
    `index < len` was tested, a clamp to the other cursor (min / max), or the initial value in a constructor"""
    from .c11 import _store_arith
    prog = ctx.prog()
    adt = "array::IntoIter"
    n = 0
    seen = collections.Counter()
    for f in prog.fns.values():
        if f.crate != "sonic_rs":
            continue
        for b, i, st in f.assigns():
            names = [e[2] for e in st["lhs"][1] if isinstance(e, list) and e[0] == "."]
            if names[-1:] not in (["index"], ["len"]) or adt not in f.locals[st["lhs"][0]]["ty"]:
                continue
            n += 1
            fld = names[-1]
            found, leaves = _store_arith(f, st, "Add" if fld == "index" else "Sub")
            by_one = found and any(lf[0] == "const" and op_int(lf[1]) == 1 for lf in leaves)
            guarded = False
            for bb, ii, ss in f.assigns():
                rv = ss["rv"]
                if rv["k"] == "binop" and rv["op"] in ("Lt", "Gt", "Ne", "Ge", "Le", "Eq") and f.dominates(bb, b):
                    tags = []
                    for o in (rv["a"], rv["b"]):
                        l = op_local(o)
                        lv = backward_slice(f, [l], through_calls=False)[1] if l is not None else []
                        tags.append({[e[2] for e in lf[1][1] if isinstance(e, list) and e[0] == "."][-1] for lf in lv if lf[0] == "place" and lf[1][1] and adt in f.locals[lf[1][0]]["ty"] and [e for e in lf[1][1] if isinstance(e, list) and e[0] == "."]})
                    il = "index" in tags[0] and "len" in tags[1]
                    li = "len" in tags[0] and "index" in tags[1]
                    # the edge on which index < len holds
                    pos = (rv["op"] == "Lt" and il) or (rv["op"] == "Gt" and li) or (rv["op"] == "Ne" and (il or li))
                    neg = (rv["op"] == "Ge" and il) or (rv["op"] == "Le" and li) or (rv["op"] == "Eq" and (il or li))
                    e = bool_switch_edges(f, ss["lhs"][0]) if (pos or neg) else None
                    if e:
                        inside, outside = (e[0], e[1]) if pos else (e[1], e[0])
                        if (inside == b or f.dominates(inside, b)) and b not in f.reachable_from(outside, avoid={inside}):
                            guarded = True
            if not guarded:
                # the same test on the number of remaining elements: `len - index` (computed here or by a helper of the
                # iterator) compared with 0
                def is_remaining(l, depth=0):
                    d = f.single_def(l) if l is not None else None
                    if d is None or depth > 4:
                        return False
                    if d[0] == "call":
                        g = prog.fns.get(d[2]["callee"])
                        if g is not None and adt in (g.self_adt or "") :
                            for gb, gi, gs in g.assigns():
                                fnd, lv = _store_arith(g, gs, "Sub")
                                tags = {[e[2] for e in lf[1][1] if isinstance(e, list) and e[0] == "."][-1] for lf in lv if lf[0] == "place" and lf[1] and [e for e in lf[1][1] if isinstance(e, list) and e[0] == "."]}
                                if fnd and {"index", "len"} <= tags and (gs["lhs"][0] == 0 or 0 in forward_derived(g, {gs["lhs"][0]})):
                                    return True
                        return False
                    rv2 = d[3]["rv"]
                    if rv2["k"] == "use" and op_local(rv2["op"]) is not None:
                        return is_remaining(op_local(rv2["op"]), depth + 1)
                    fnd, lv = _store_arith(f, d[3], "Sub")
                    tags = {[e[2] for e in lf[1][1] if isinstance(e, list) and e[0] == "."][-1] for lf in lv if lf[0] == "place" and lf[1] and [e for e in lf[1][1] if isinstance(e, list) and e[0] == "."]}
                    return fnd and {"index", "len"} <= tags
                for bb, ii, ss in f.assigns():
                    rv = ss["rv"]
                    if rv["k"] == "binop" and rv["op"] in ("Eq", "Ne", "Gt") and f.dominates(bb, b) and 0 in (op_int(rv["a"]), op_int(rv["b"])):
                        o = rv["a"] if op_int(rv["b"]) == 0 else rv["b"]
                        if not is_remaining(op_local(o)):
                            continue
                        e = bool_switch_edges(f, ss["lhs"][0])
                        if e:
                            inside, outside = (e[1], e[0]) if rv["op"] == "Eq" else (e[0], e[1])
                            if (inside == b or f.dominates(inside, b)) and b not in f.reachable_from(outside, avoid={inside}):
                                guarded = True
            clamp = False
            if st["rv"]["k"] == "use" and op_local(st["rv"]["op"]) is not None:
                src = f.src(op_local(st["rv"]["op"]))
                if src[0] == "call" and callee_is(src[2], "min" if fld == "index" else "max"):
                    clamp = True
            ok = (by_one and guarded) or clamp
            seen[short(f.id)] += 1
            ctx.ob("R15.12", f"{short(f.id)}:{fld}#{seen[short(f.id)]}", ok, f.loc(st.get("ln")),
                   f"`{fld}` moves by one on the edge where index < len was tested" if by_one and guarded else ("clamped to the other cursor" if clamp else
                   f"`{fld}` of the consuming iterator is changed without keeping index <= len: len() underflows (panic / huge length) and the slice views go out of range once the cursor has passed the end"))
    ctx.floor("R15.12", "stores to the cursors of array::IntoIter", n, 2)


def r15_13(ctx):
    """the text of a document node is read under its type tag: string nodes and raw-number nodes both carry (pointer,
    length), and only the tag tells them apart.  Every call of NodeInDom::unpack_str lies on a value arm of a dispatch on
    `get_type()` (a test such as "has a length" admits raw numbers, which then turn into strings)"""
    prog = ctx.prog()
    sites = prog.callers_of(lambda t: callee_is(t, "unpack_str") and "NodeInDom" in t.get("callee", ""))
    ctx.floor("R15.13", "reads of a document node's text", len(sites), 2)
    # the pointer itself (the `dom_str` member of the node's data union) is read by the one accessor only: a second reader
    # has to repeat the tag dispatch, and is held to it here
    for f in prog.fns.values():
        if f.crate != "sonic_rs" or (f.name == "unpack_str" and "NodeInDom" in ((f.impl or {}).get("self_ty") or "")):
            continue
        for b, i, st in f.assigns():
            for pl in rv_places(st["rv"]):
                names = [e[2] for e in pl[1] if isinstance(e, list) and e[0] == "."]
                if "dom_str" in names:
                    sites.append((f, b, {"ln": st.get("ln"), "callee": "data.dom_str"}))
        for b, t in f.calls():
            for a in t["args"]:
                pl = op_place(a)
                if pl is not None and "dom_str" in [e[2] for e in pl[1] if isinstance(e, list) and e[0] == "."]:
                    sites.append((f, b, {"ln": t.get("ln"), "callee": "data.dom_str"}))
    seen = collections.Counter()
    for f, b, t in sites:
        ok = False
        for sb, st in f.terms():
            if st["k"] != "switch" or not f.dominates(sb, b) or op_local(st["discr"]) is None:
                continue
            sl, leaves = backward_slice(f, [op_local(st["discr"])], through_calls=False)
            if not any(lf[0] == "call" and callee_is(lf[2], "get_type") for lf in leaves):
                continue
            arms = [x for v, x in st["targets"] if (x == b or f.dominates(x, b)) and b not in f.reachable_from(st["otherwise"], avoid={x})]
            if arms:
                ok = True
        seen[short(f.id)] += 1
        ctx.ob("R15.13", f"{short(f.id)}#{seen[short(f.id)]}", ok, f.loc(t["ln"]),
               "the node's text is read on an arm of the dispatch on its type tag" if ok else
               "the node's text is read without a dispatch on its type tag: a raw-number node is taken for a string (after a mutation of its parent it serialises with quotes and is_number() fails)")


def r15_14(ctx):
    """copy-on-write promotion keeps what the lookups answered: a parsed object may repeat a member name and every lookup
    on it returns the FIRST pair; when the pairs are moved into the owned map (From<&[Pair]> for Value) a name that is
    already there must not be overwritten - the map is filled through `entry(..).or_insert*` or an insert guarded by a
    failed membership test"""
    prog = ctx.prog()
    fs = [g for g in prog.fns.values() if g.crate == "sonic_rs" and g.name == "from" and "value::node::Value" in (g.impl or {}).get("self_ty", "") and any("Pair" in x or "(value::node::Value, value::node::Value)" in x for x in g.inputs)]
    if len(fs) != 1:
        ctx.fail_closed("R15.14", "From<&[Pair]> for Value")
        return
    f = fs[0]
    bodies = prog.with_closures(f)
    ins = [(g, b, t) for g in bodies for b, t in g.calls() if callee_is(t, "insert") and ("HashMap" in t["callee"] or "BTreeMap" in t["callee"])]
    ent = [(g, b, t) for g in bodies for b, t in g.calls() if callee_is(t, "or_insert", "or_insert_with", "or_insert_with_key", "or_default")]
    bad = []
    for g, b, t in ins:
        guarded = False
        for cb, ct in g.calls():
            if callee_is(ct, "contains_key", "get") and g.dominates(cb, b):
                e = bool_switch_edges(g, ct["dest"][0]) if callee_is(ct, "contains_key") else None
                if e and (e[1] == b or g.dominates(e[1], b)) and b not in g.reachable_from(e[0], avoid={e[1]}):
                    guarded = True
        if not guarded:
            bad.append(t["ln"])
    ok = (bool(ins) or bool(ent)) and not bad
    ctx.ob("R15.14", "promotion:first-of-repeated-names-kept", ok, f.loc(bad[0] if bad else None),
           "the owned map is filled without overwriting a name that is already there (first pair wins, as in the lookups on the parsed object)" if ok else
           "the pairs are inserted one after the other, so the LAST pair of a repeated name replaces the first: after any mutation of the object (even of an unrelated member) v[name] answers differently than before")


RULES = [("R15.1", r15_a), ("R15.2", r15_2), ("R15.3", r15_3), ("R15.4", r15_4), ("R15.5", r15_5), ("R15.6", r15_6), ("R15.7", r15_7), ("R15.8", r15_8), ("R15.9", r15_9), ("R15.10", r15_10), ("R15.11", r15_11), ("R15.12", r15_12), ("R15.13", r15_13), ("R15.14", r15_14)]

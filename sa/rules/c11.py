"""C11 — multi-path and schema extraction agree with single-path get: structural clauses."""
import collections
from ..facts import callee_is, op_local, op_place, op_int, FactError, norm_path
from ..analysis import backward_slice, bool_switch_edges, forward_derived, result_edges, reachable_cp, bool_chain_env, switch_edges
from .c01 import short

EXPLANATION = (
    "Agreement of get_many / get_by_schema with get over all documents and path sets is a run-time property. "
    "Decides necessary structural conditions: (R11.1) slot bookkeeping of the path trie - PointerTree::add_path hands "
    "the current path count to the node as its slot number and then adds exactly 1 to it, the node records the slot "
    "on every path to its return, and Parser::get_many sizes the result vector and the outstanding counter from "
    "tree.size(); (R11.2) in get_many_rec every store into a result slot lies under the test that the node's first "
    "slot is still empty (the first member wins, as for get), all slots of one node receive clones of one LazyValue "
    "built once, and the outstanding counter is decremented only there, by order.len(); (R11.3) the span of a result is "
    "[index after skip_space_peek, index after the walk); (R11.4) the validating flag is threaded consistently: "
    "get_many_rec selects the validating walkers on the true edge and the non-validating on the false edge, each walker "
    "recurses with its own constant, and the public get_many / get_many_unchecked pass true / false; (R11.5) the validating "
    "walkers of get, get_many and get_by_schema are siblings: each skips an unmatched member with skip_one, reads keys "
    "with the decoding key reader followed by parse_object_clo, and raises the same structural errors; (R11.6) "
    "get_by_schema_rec replaces a schema value only by the document text between the indices taken around the walk, "
    "under should_replace, recurses only into members found in the schema's own key table and skips every other member. "
    "Does NOT decide the run-time agreement itself (path-set shapes, early exit, the bitmap skipper)."
)
ASSUMPTIONS = ["rustc MIR and callee resolution", "HashMap get/get_mut/entry behave as documented"]


def _p(prog, name):
    return prog.find(name)


def _store_arith(fn, s, opname):
    """the arithmetic feeding a store `place = value`: (found the operation, leaves of its operands).  Handles both the
    checked form (tmp = OpWithOverflow(a, b); assert; place = tmp.0) and the plain form (place = Op(a, b))."""
    rv = s["rv"]
    if rv["k"] == "binop" and rv["op"].startswith(opname):
        ls = [op_place(o)[0] for o in (rv["a"], rv["b"]) if op_place(o)]
        sl, leaves = backward_slice(fn, ls) if ls else (set(), [])
        leaves = list(leaves) + [("const", o) for o in (rv["a"], rv["b"]) if o["k"] == "const"]
        leaves += [("place", op_place(o), None) for o in (rv["a"], rv["b"]) if op_place(o) and op_place(o)[1]]
        return True, leaves
    pl = op_place(rv["op"]) if rv["k"] == "use" else None
    l = pl[0] if pl else None
    if l is None:
        return False, []
    sl, leaves = backward_slice(fn, [l])
    found = any(st["rv"]["k"] == "binop" and st["rv"]["op"].startswith(opname) for bb, ii, st in fn.assigns() if st["lhs"][0] in sl | {l})
    return found, leaves


def r11_1(ctx):
    prog = ctx.prog()
    tree = prog.adts.get("sonic_rs::pointer::tree::PointerTree")
    fields = [fl["name"] for v in tree["variants"] for fl in v["fields"]] if tree else []
    ctx.ob("R11.1", "PointerTree:fields", "size" in fields and "root" in fields, "src/pointer/tree.rs", f"PointerTree fields {fields}")
    ap = _p(prog, "pointer::tree::PointerTree::add_path")
    inner = [(b, t) for b, t in ap.calls() if callee_is(t, "add_path") and "PointerTreeNode" in t["callee"]]
    ok = len(inner) == 1
    msg = "PointerTree::add_path does not delegate to the node exactly once"
    if ok:
        b, t = inner[0]
        a = op_local(t["args"][2]) if len(t["args"]) > 2 else None
        src = ap.src(a) if a is not None else ("multi",)
        from_size = src[0] == "place" and [e[2] for e in src[1][1] if isinstance(e, list) and e[0] == "."][-1:] == ["size"]
        ok = from_size
        msg = "the slot number handed to the node is the current path count (self.size)" if ok else "the slot number handed to the node is not self.size"
    ctx.ob("R11.1", "add_path:slot-is-size", ok, ap.loc(), msg)
    # size += 1 exactly once, after the call, on every path
    incs = []
    for b, i, s in ap.assigns():
        lhs = s["lhs"]
        if [e[2] for e in lhs[1] if isinstance(e, list) and e[0] == "."] == ["size"]:
            incs.append((b, s))
    okinc = len(incs) == 1
    detail = f"{len(incs)} store(s) into size"
    if okinc:
        b, s = incs[0]
        adds, leaves = _store_arith(ap, s, "Add")
        one = any(lf[0] == "const" and op_int(lf[1]) == 1 for lf in leaves)
        reads_size = any(lf[0] == "place" and [e[2] for e in lf[1][1] if isinstance(e, list) and e[0] == "."][-1:] == ["size"] for lf in leaves)
        after = inner and ap.dominates(inner[0][0], b)
        every = not (ap.reachable_from(0, avoid={b}) & set(ap.return_blocks))
        okinc = bool(one and adds and reads_size and after and every)
        detail = f"size = size + 1 after the node call, on every path to the return (add {bool(adds)}, const 1 {one}, after {bool(after)}, every path {every})"
    ctx.ob("R11.1", "add_path:size-incremented-once", okinc, ap.loc(), detail)
    na = _p(prog, "pointer::tree::PointerTreeNode::add_path")
    pushes = [(b, t) for b, t in na.calls() if callee_is(t, "push") and "Vec" in t["callee"]]
    okp = len(pushes) == 1
    dp = f"{len(pushes)} push call(s)"
    if okp:
        b, t = pushes[0]
        a = op_local(t["args"][1])
        src = na.src(a) if a is not None else ("multi",)
        is_param = src == ("param", 3)
        recv = op_local(t["args"][0])
        sl, leaves = backward_slice(na, [recv]) if recv is not None else (set(), [])
        to_order = any(lf[0] == "place" and [e[2] for e in lf[1][1] if isinstance(e, list) and e[0] == "."][-1:] == ["order"] for lf in leaves)
        every = not (na.reachable_from(0, avoid={b}) & set(na.return_blocks))
        okp = is_param and to_order and every
        dp = f"the node pushes its slot number (the `order` parameter) into .order on every path to the return (param {is_param}, into order {to_order}, every path {every})"
    ctx.ob("R11.1", "node:records-slot", okp, na.loc(), dp)
    gm = _p(prog, "Parser::get_many")
    sizes = [(b, t) for b, t in gm.calls() if callee_is(t, "size") and "PointerTree" in t["callee"]]
    rs = [(b, t) for b, t in gm.calls() if callee_is(t, "resize")]
    rec = [(b, t) for b, t in gm.calls() if callee_is(t, "get_many_rec")]
    okg = bool(sizes) and len(rs) == 1 and len(rec) == 1
    if okg:
        n = op_local(rs[0][1]["args"][1])
        s1 = gm.src(n) if n is not None else ("multi",)
        okg = s1[0] == "call" and callee_is(s1[2], "size")
        # the outstanding counter handed to the walk starts at tree.size()
        r = op_local(rec[0][1]["args"][4]) if len(rec[0][1]["args"]) > 4 else None
        sl, leaves = backward_slice(gm, [r]) if r is not None else (set(), [])
        okg = okg and any(lf[0] == "call" and callee_is(lf[2], "size") for lf in leaves)
    ctx.ob("R11.1", "get_many:out-and-remain-from-size", okg, gm.loc(), "the result vector is resized to tree.size() and the outstanding counter starts at tree.size()")


def _rec(prog):
    return _p(prog, "Parser::get_many_rec")


def r11_2(ctx):
    prog = ctx.prog()
    f = _rec(prog)
    # stores into the result vector: index_mut on Vec<Option<LazyValue>>
    ims = [(b, t) for b, t in f.calls() if callee_is(t, "index_mut") and "LazyValue" in " ".join(t.get("rgargs") or t.get("gargs") or [])]
    ctx.floor("R11.2", "stores into result slots", len(ims), 1)
    from ..analysis import option_test_edges
    guard = None
    tests = [(x, False) for x in option_test_edges(prog, f, ("is_none",))] + [(x, True) for x in option_test_edges(prog, f, ("is_some",)) if x[4] is None]
    for (b, t, t_edge, f_edge, clo), negated in tests:
        if negated:
            t_edge, f_edge = f_edge, t_edge   # the slot is empty on the false edge of is_some()
        if clo is None:
            if "LazyValue" not in " ".join(t.get("rgargs") or t.get("gargs") or []):
                continue
            a = op_local(t["args"][0])
            sl, leaves = backward_slice(f, [a]) if a is not None else (set(), [])
            idx = [lf for lf in leaves if lf[0] == "call" and callee_is(lf[2], "index") and "usize" in (lf[2].get("rgargs") or lf[2].get("gargs") or [""])[0]]
            first = any(op_int(lf[2]["args"][1]) == 0 for lf in idx if len(lf[2]["args"]) > 1) or any(lf[0] == "call" and callee_is(lf[2], "first") for lf in leaves)
            from_order = any(lf[0] == "place" and [e[2] for e in lf[1][1] if isinstance(e, list) and e[0] == "."][-1:] == ["order"] for lf in leaves)
        else:
            # opt.is_some_and(|first| out[*first].is_none()) with opt = node.order.first()
            a = op_local(t["args"][0])
            sl, leaves = backward_slice(f, [a]) if a is not None else (set(), [])
            first = any(lf[0] == "call" and callee_is(lf[2], "first", "get") for lf in leaves)
            from_order = any(lf[0] == "place" and [e[2] for e in lf[1][1] if isinstance(e, list) and e[0] == "."][-1:] == ["order"] for lf in leaves)
            inner = [tt for bb, tt in clo.calls() if callee_is(tt, "is_none") and "LazyValue" in " ".join(tt.get("rgargs") or tt.get("gargs") or [])]
            first = first and bool(inner)
        if first and from_order:
            guard = (b, t, (t_edge, f_edge))
    ctx.ob("R11.2", "first-wins:test-present", guard is not None, f.loc(), "get_many_rec tests out[order[0]].is_none() before filling the slots of a node" if guard else
           "no test that the node's first slot is still empty: a member name that occurs twice overwrites the first result and is counted twice")
    if guard is None:
        return
    gb, gt, (t_edge, f_edge) = guard
    for n, (b, t) in enumerate(ims):
        ok = f.dominates(t_edge, b)
        ctx.ob("R11.2", f"first-wins:store#{n + 1}", ok, f.loc(t["ln"]), "the slot store lies under the slot-is-empty edge" if ok else "a slot is stored outside the slot-is-empty edge")
    # what is stored: Some(clone of one LazyValue built once outside the loop)
    news = [(b, t) for b, t in f.calls() if callee_is(t, "new") and "LazyValue" in t["callee"]]
    clones = [(b, t) for b, t in f.calls() if callee_is(t, "clone") and "LazyValue" in t["callee"]]
    okv = len(news) == 1 and len(clones) >= 1
    if okv:
        nb, nt = news[0]
        for b, t in clones:
            a = op_local(t["args"][0])
            s = f.src(a) if a is not None else ("multi",)
            if not (s[0] == "refof" and s[1] == nt["dest"][0]):
                okv = False
        for b, t in ims:
            if not f.dominates(nb, b):
                okv = False
        # the LazyValue is not rebuilt per slot
        if nb in f.reachable_from(f.succs(nb)[0]) if f.succs(nb) else False:
            okv = False
    ctx.ob("R11.2", "repeated-paths:one-value-cloned", okv, f.loc(), "all slots of a node receive clones of one LazyValue built once (repeated paths get identical results)")
    # the outstanding counter
    decs = []
    for b, i, s in f.assigns():
        if s["lhs"] == [5, ["*"]]:
            decs.append((b, s))
    okd = len(decs) == 1
    dd = f"{len(decs)} store(s) into *remain"
    if okd:
        b, s = decs[0]
        sub, leaves = _store_arith(f, s, "Sub")
        by_len = any(lf[0] == "call" and callee_is(lf[2], "len") for lf in leaves)
        under = f.dominates(t_edge, b)
        okd = by_len and sub and under
        dd = f"*remain -= order.len() under the slot-is-empty edge (len {by_len}, sub {sub}, guarded {under})"
    ctx.ob("R11.2", "remain:decremented-once-per-node", okd, f.loc(), dd)


def r11_3(ctx):
    prog = ctx.prog()
    f = _rec(prog)
    sl_calls = [(b, t) for b, t in f.calls() if callee_is(t, "slice_unchecked")]
    ssp = [(b, t) for b, t in f.calls() if callee_is(t, "skip_space_peek")]
    walks = [(b, t) for b, t in f.calls() if callee_is(t, "skip_one", "get_many_index", "get_many_keys", "get_many_index_unchecked", "get_many_keys_unchecked")]
    ok = len(sl_calls) == 1 and len(ssp) == 1 and len(walks) >= 5
    msg = f"{len(sl_calls)} slice, {len(ssp)} skip_space_peek, {len(walks)} walker calls"
    if ok:
        b, t = sl_calls[0]
        s0 = f.src(op_local(t["args"][1]))
        s1 = f.src(op_local(t["args"][2]))
        ok0 = s0[0] == "call" and callee_is(s0[2], "Reader::index") and f.dominates(ssp[0][0], s0[1]) and all(f.dominates(s0[1], wb) for wb, wt in walks)
        ok1 = s1[0] == "call" and callee_is(s1[2], "Reader::index") and not any(wb in f.reachable_from(s1[1]) and not f.dominates(wb, s1[1]) for wb, wt in walks) and all(s1[1] not in f.reachable_from(0, avoid={wb for wb, wt in walks}) for _ in [0])
        ok = ok0 and ok1
        msg = f"span = [index after skip_space_peek and before the walk ({ok0}), index after the walk ({ok1}))"
    ctx.ob("R11.3", "span:indices-around-the-walk", ok, f.loc(), msg)


def _const_bool_arg(fn, t, i):
    if len(t["args"]) <= i:
        return None
    o = t["args"][i]
    if o["k"] == "const":
        return op_int(o)
    l = op_local(o)
    s = fn.src(l) if l is not None else ("multi",)
    if s[0] == "const":
        return op_int(s[1])
    return None


def r11_4(ctx):
    """the validating flag is carried through the recursion: under specialisation on the flag each entry point passes down
    (a bool or a field-less enum), the checked get_many reaches the checked member walkers and none of the unchecked ones,
    and get_many_unchecked the reverse - the walkers recurse in their own mode"""
    from ..analysis import specialised_reach, path_to
    prog = ctx.prog()
    checked = {_p(prog, "Parser::get_many_keys").id, _p(prog, "Parser::get_many_index").id}
    unchecked = {_p(prog, "Parser::get_many_keys_unchecked").id, _p(prog, "Parser::get_many_index_unchecked").id}
    rec = _rec(prog)
    # the dispatcher really dispatches: both families are called from it
    called = {t["callee"] for b, t in rec.calls()}
    ctx.ob("R11.4", "flag-dispatch", checked <= called and unchecked <= called, rec.loc(), f"get_many_rec calls {sorted(x.rsplit('::', 1)[-1] for x in called & (checked | unchecked))}")
    for entry, want, other in (("lazyvalue::get::get_many", checked, unchecked), ("lazyvalue::get::get_many_unchecked", unchecked, checked)):
        g = _p(prog, entry)
        reached, via = specialised_reach(prog, [(g.id, {}, {})])
        hit = sorted(set(reached) & other)
        miss = sorted(want - set(reached))
        ok = not hit and not miss
        ctx.ob("R11.4", f"entry-flag:{entry.rsplit('::', 1)[-1]}", ok, g.loc(),
               f"{entry.rsplit('::', 1)[-1]} reaches {sorted(x.rsplit('::', 1)[-1] for x in want)} and no walker of the other mode" if ok else
               (f"{entry.rsplit('::', 1)[-1]} reaches a walker of the other mode: " + " -> ".join(x.rsplit('::', 1)[-1] for x, l in path_to(via, hit[0])) if hit else
                f"{entry.rsplit('::', 1)[-1]} does not reach {[x.rsplit('::', 1)[-1] for x in miss]}"))


def _error_codes(prog, fn):
    out = set()
    for g in prog.with_closures(fn):
        for b, i, s in g.assigns():
            rv = s["rv"]
            if rv["k"] == "agg" and rv.get("adt", "").endswith("error::ErrorCode"):
                out.add(rv.get("variant"))
    return out


OBJ_SIBS = ("Parser::get_from_object_checked", "Parser::get_many_keys", "Parser::get_by_schema_rec")
ARR_SIBS = ("Parser::get_from_array_checked", "Parser::get_many_index")
OBJ_ERRS = {"ExpectObjectKeyOrEnd", "ExpectedObjectCommaOrEnd", "EofWhileParsing"}
ARR_ERRS = {"ExpectedArrayCommaOrEnd", "EofWhileParsing", "GetInEmptyArray", "GetIndexOutOfArray"}
NONVALIDATING = ("skip_container", "skip_string_unchecked", "skip_string_unchecked2", "get_next_token", "skip_container_loop", "skip_number_unsafe", "skip_one_unchecked")


def _schema_walker(prog):
    """(get_by_schema_rec, the body that holds its member loop): the function itself, or the private method of the parser
    it hands the members of a non-empty schema object to (which recurses back into it)"""
    rec = _p(prog, "Parser::get_by_schema_rec")
    if any(callee_is(t, "parse_str", "parse_string_raw") for b, t in rec.calls()):
        return rec, rec
    for b, t in rec.calls():
        g = prog.fns.get(t["callee"])
        if g is not None and g.self_adt == rec.self_adt and g is not rec and any(callee_is(tt, "parse_str", "parse_string_raw") for bb, tt in g.calls()) \
                and any(tt["callee"] == rec.id for bb, tt in g.calls()):
            return rec, g
    return rec, rec


def _walker_bodies(prog, name):
    f = _p(prog, name)
    if name.endswith("get_by_schema_rec"):
        rec, w = _schema_walker(prog)
        return f, ([rec] if w is rec else [rec, w]), w
    return f, [f], f


def r11_5(ctx):
    prog = ctx.prog()
    for sibs, errs, kind in ((OBJ_SIBS, OBJ_ERRS, "object"), (ARR_SIBS, ARR_ERRS, "array")):
        for name in sibs:
            f, bodies, wf = _walker_bodies(prog, name)
            got = set().union(*[_error_codes(prog, g) for g in bodies])
            missing = sorted(errs - got)
            ctx.ob("R11.5", f"{kind}-walker-errors:{name.rsplit('::', 1)[-1]}", not missing, f.loc(),
                   f"raises {sorted(got & errs)}" + (f"; missing {missing}: a separator or key position is no longer checked as in the sibling walkers" if missing else " like its siblings"))
            names = {t["callee"].rsplit("::", 1)[-1] for g in bodies for b, t in g.calls()}
            bad = sorted(names & set(NONVALIDATING))
            ctx.ob("R11.5", f"{kind}-walker-skips-with-skip_one:{name.rsplit('::', 1)[-1]}", "skip_one" in names and not bad, f.loc(),
                   "unmatched members are skipped by the validating skip_one" if not bad else f"the validating walker calls non-validating primitives {bad}")
            if kind == "object":
                keys = [(b, t) for b, t in wf.calls() if callee_is(t, "parse_str", "parse_string_raw")]
                clo = [(b, t) for b, t in wf.calls() if callee_is(t, "parse_object_clo")]
                ok = len(keys) == 1 and len(clo) == 1 and wf.dominates(keys[0][0], clo[0][0])
                ctx.ob("R11.5", f"object-walker-key-then-colon:{name.rsplit('::', 1)[-1]}", ok, wf.loc(), "the key is read by the decoding key reader and followed by parse_object_clo")
    # the unchecked siblings use the same decoding key reader (escaped keys compare equal in both)
    for name in ("Parser::get_from_object", "Parser::get_many_keys_unchecked"):
        f = _p(prog, name)
        keys = [(b, t) for b, t in f.calls() if callee_is(t, "parse_str", "parse_string_raw")]
        ctx.ob("R11.5", f"unchecked-walker-decodes-keys:{name.rsplit('::', 1)[-1]}", len(keys) == 1, f.loc(), "keys are decoded before they are compared / looked up")


def r11_6(ctx):
    prog = ctx.prog()
    f = _p(prog, "Parser::get_by_schema_rec")
    fs = [(b, t) for b, t in f.calls() if callee_is(t, "from_slice")]
    sl_calls = [(b, t) for b, t in f.calls() if callee_is(t, "slice_unchecked")]
    idx = [(b, t) for b, t in f.calls() if callee_is(t, "Reader::index")]
    ok = len(fs) == 1 and len(sl_calls) == 1 and len(idx) == 2
    ctx.ob("R11.6", "replace:shape", ok, f.loc(), f"{len(fs)} from_slice, {len(sl_calls)} slice_unchecked, {len(idx)} index reads")
    if not ok:
        return
    sb, st = sl_calls[0]
    s0 = f.src(op_local(st["args"][1]))
    s1 = f.src(op_local(st["args"][2]))
    rec_, wf_ = _schema_walker(prog)
    walks = [(b, t) for b, t in f.calls() if callee_is(t, "skip_one", "get_by_schema_rec", "parse_str", "eat") or (wf_ is not f and t["callee"] == wf_.id)]
    ok_span = s0[0] == "call" and s1[0] == "call" and callee_is(s0[2], "Reader::index") and callee_is(s1[2], "Reader::index") and s0[1] != s1[1] \
        and all(f.dominates(s0[1], wb) for wb, wt in walks) and not any(wb in f.reachable_from(s1[1]) for wb, wt in walks)
    ctx.ob("R11.6", "replace:span-around-the-walk", ok_span, f.loc(st["ln"]), "the replacement text is the reader span [index before the walk, index after the walk)")
    a = op_local(fs[0][1]["args"][0])
    sa = f.src(a) if a is not None else ("multi",)
    ctx.ob("R11.6", "replace:parses-that-span", sa[0] == "call" and sa[1] == sb, f.loc(fs[0][1]["ln"]), "from_slice parses exactly that span")
    # never for a schema object that has members: from the edge on which key_values.is_empty() is false, the replacement
    # is unreachable - through control flow, or through a flag that carries the test (followed by constant propagation)
    tests = []
    for b, t in f.terms():
        if t["k"] == "switch" and t.get("dty") == "bool":
            dl = op_local(t["discr"])
            sl, leaves = backward_slice(f, [dl], through_calls=False) if dl is not None else (set(), [])
            if not any(lf[0] == "call" and callee_is(lf[2], "is_empty") for lf in leaves) or any(lf[0] == "call" and not callee_is(lf[2], "is_empty") for lf in leaves):
                continue
            negs = sum(1 for x in sl | {dl} for d in f.defs.get(x, []) if d[0] == "stmt" and d[3]["rv"]["k"] == "unop" and d[3]["rv"]["op"] == "Not")
            edges = dict(switch_edges(f, b))
            empty_v = 0 if negs % 2 else 1
            nonempty_t = edges.get(1 - empty_v, edges.get(None))
            tests.append((b, dl, 1 - empty_v, nonempty_t))
    guarded = bool(tests) and all(sb not in reachable_cp(f, tgt, env=bool_chain_env(f, dl, v)) for b, dl, v, tgt in tests) \
        and any(f.dominates(b, sb) or sb in f.reachable_from(b) for b, dl, v, tgt in tests)
    ctx.ob("R11.6", "replace:only-when-schema-leaf-or-empty-object", guarded, f.loc(), "the replacement is unreachable from the edge on which the schema object has members (key_values.is_empty() is false)" if guarded else
           "the replacement `*schema = from_slice(span)` is reachable from the edge on which the schema object has members: a non-empty object schema is overwritten by the document's object instead of being filled member by member")
    # recursion only on members found in the schema's key table; others skipped
    recs = [(b, t) for b, t in wf_.calls() if callee_is(t, "get_by_schema_rec")]
    gm = [(b, t) for b, t in wf_.calls() if callee_is(t, "get_mut") and "HashMap" in t["callee"]]
    okr = len(recs) == 1 and len(gm) == 1
    if okr:
        rb, rt = recs[0]
        a = op_local(rt["args"][1])
        sl, leaves = backward_slice(wf_, [a]) if a is not None else (set(), [])
        okr = any(lf[0] == "call" and lf[1] == gm[0][0] for lf in leaves) and wf_.dominates(gm[0][0], rb)
        # the miss edge skips the member
        skips = [b for b, t in wf_.calls() if callee_is(t, "skip_one") and wf_.dominates(gm[0][0], b)]
        okr = okr and bool(skips) and not any(wf_.dominates(rb, s) or wf_.dominates(s, rb) for s in skips)
    ctx.ob("R11.6", "walk:recurse-on-schema-keys-only", okr, wf_.loc(), "a member is descended into only through the schema's own key table (get_mut hit); a miss is skipped with skip_one")


def r11_7(ctx):
    """a walker stops reading a container early only when nothing is outstanding: every edge that leaves the member loop
    towards an Ok return is the `*remain == 0` edge or the closing-bracket arm of the separator test (otherwise the reader
    is left in the middle of the container and the enclosing walkers continue from there)"""
    from ..analysis import return_kinds
    prog = ctx.prog()
    for name, remain_param in (("get_many_keys", 5), ("get_many_keys_unchecked", 5), ("get_many_index", 5), ("get_many_index_unchecked", 5), ("get_by_schema_rec", None)):
        f = _p(prog, f"Parser::{name}")
        if name == "get_by_schema_rec":
            f = _schema_walker(prog)[1]
        nb = len(f.d["blocks"])
        loop = set()
        for b in range(nb):
            if f.d["blocks"][b].get("cleanup"):
                continue
            if any(b in f.reachable_from(x) for x in f.succs(b)):
                loop.add(b)
        oks = {b for b, k, _ in return_kinds(f) if k == "Ok"}
        exits = []
        for u in loop:
            for v in f.succs(u):
                if v not in loop and not f.d["blocks"][v].get("cleanup") and (f.reachable_from(v) | {v}) & oks:
                    exits.append((u, v))
        bad = []
        kinds = collections.Counter()
        for u, v in exits:
            t = f.d["blocks"][u]["term"]
            kind = None
            if t["k"] == "switch":
                if t.get("dty") == "u8":
                    arm = [int(val) for val, x in t["targets"] if x == v]
                    if arm and set(arm) <= {93, 125}:
                        kind = "closing bracket"
                else:
                    dl = op_local(t["discr"])
                    sl, leaves = backward_slice(f, [dl]) if dl is not None else (set(), [])
                    from_remain = remain_param is not None and any(lf[0] == "place" and lf[1][0] == remain_param and "*" in lf[1][1] for lf in leaves)
                    others = [lf for lf in leaves if lf[0] == "call" or (lf[0] == "param" and lf[1] != remain_param)]
                    zero = any(lf[0] == "const" and op_int(lf[1]) == 0 for lf in leaves)
                    if from_remain and zero and not others:
                        kind = "nothing outstanding"
                    elif t.get("dty") == "isize":
                        # Option / Result plumbing around the separator byte or a lookup
                        src = f.single_def(dl) if dl is not None else None
                        if src and src[0] == "stmt" and src[3]["rv"]["k"] == "discr":
                            kind = "plumbing"
            elif t["k"] == "call":
                kind = "plumbing"
            if kind is None:
                bad.append((u, v, t))
            else:
                kinds[kind] += 1
        # plumbing exits must lead to a closing-bracket test or an error, not straight to Ok: check that every Ok-reaching
        # exit path from a plumbing exit passes a u8 switch
        ctx.ob("R11.7", f"loop-exits:{name}", not bad and (kinds["closing bracket"] >= 1 or kinds["plumbing"] >= 1), f.loc(bad[0][2].get("ln") if bad else None),
               f"the member loop is left towards Ok only by {dict(kinds)}" if not bad else
               "the member loop is left towards Ok on a condition other than `*remain == 0` or the closing bracket: the reader stays inside the container and the enclosing walkers misread its tail")


def r11_8(ctx):
    """a member that is absent from the document is not an error for the multi-path and schema walkers (the slot stays
    empty / the schema keeps its default): the lookup-failure codes of single-path get are not raised on those routes"""
    prog = ctx.prog()
    def codes_from(root):
        reach = prog.reachable_fns([root.id])
        out = collections.defaultdict(list)
        for fid in reach:
            g = prog.fns.get(fid)
            if g is None or g.crate != "sonic_rs":
                continue
            for b, i, st in g.assigns():
                rv = st["rv"]
                if rv["k"] == "agg" and rv.get("adt", "").endswith("error::ErrorCode") and (rv.get("variant") or "").startswith("Get"):
                    out[rv["variant"]].append(g)
        return out
    f = _p(prog, "Parser::get_by_schema")
    got = codes_from(f)
    ctx.ob("R11.8", "schema-walk:no-lookup-failure-codes", not got, (list(got.values())[0][0].loc() if got else f.loc()),
           "no function reachable from get_by_schema raises a Get* lookup-failure code" if not got else
           f"{ {k: [short(g.id) for g in v][:2] for k, v in got.items()} }: an empty or smaller document object makes get_by_schema fail instead of keeping the schema's defaults")
    for name in ("get_many_keys", "get_many_keys_unchecked"):
        g = _p(prog, f"Parser::{name}")
        own = {st["rv"].get("variant") for b, i, st in g.assigns() if st["rv"]["k"] == "agg" and st["rv"].get("adt", "").endswith("error::ErrorCode")}
        ctx.ob("R11.8", f"multi-path:{name}:missing-key-is-not-an-error", "GetUnknownKeyInObject" not in own, g.loc(), "a key that the object does not hold leaves its slot empty (no GetUnknownKeyInObject)")


def r11_s(ctx):
    """the remaining-count that lets the multi-path walk stop early is decremented only when a slot is really filled, by
    what was filled (shared with C01: R01.10) - counted before the descent, the count reaches zero inside a target
    container and its slot gets a truncated span"""
    from . import c01
    ctx.include(c01.r01_10, "R11.S")


def r11_9(ctx):
    """the table of wanted indices is consulted with the element's POSITION: in get_many_index(_unchecked) every keyed access
    to the MultiIndex parameter (get / index / contains_key / binary_search ...) uses the element counter - the local that
    starts at 0 and is incremented on the ',' edge - and not a counter that only advances when a wanted element was found
    (a match cursor is right only if the wanted indices were inserted in ascending order)"""
    prog = ctx.prog()
    for name in ("Parser::get_many_index", "Parser::get_many_index_unchecked"):
        f = _p(prog, name)
        # counters: locals defined by a constant 0 and by `+ 1`
        counters = {}
        for L in range(len(f.locals)):
            ds = f.defs.get(L, [])
            inits = [d for d in ds if d[0] == "stmt" and d[3]["rv"]["k"] == "use" and op_int(d[3]["rv"]["op"]) == 0]
            incs = []
            for d in ds:
                if d[0] == "stmt" and d not in inits:
                    found, leaves = _store_arith(f, d[3], "Add")
                    if found and any(lf[0] == "const" and op_int(lf[1]) == 1 for lf in leaves):
                        incs.append(d)
            if inits and incs and len(inits) + len(incs) == len(ds):
                on_comma = all(any(f.dominates(x, d[1]) and not any(f.dominates(y, d[1]) for vv, y in t["targets"] if int(vv) != 44)
                                   for bb, t in f.terms() if t["k"] == "switch" and t.get("dty") == "u8" for v, x in t["targets"] if int(v) == 44) for d in incs)
                counters[L] = on_comma
        elem = {L for L, oc in counters.items() if oc}
        other = {L for L, oc in counters.items() if not oc}
        keyed = []
        for b, t in f.calls():
            if len(t["args"]) < 2 or op_local(t["args"][0]) is None:
                continue
            nm = t["callee"].rsplit("::", 1)[-1]
            if nm not in ("get", "get_mut", "index", "index_mut", "contains_key", "get_key_value", "binary_search", "binary_search_by_key", "get_unchecked", "binary_search_by"):
                continue
            recv = backward_slice(f, [op_local(t["args"][0])])[1]
            if not any(lf[0] == "param" and "PointerTreeNode" in f.locals[lf[1]]["ty"] or (lf[0] == "param" and "MultiIndex" in f.locals[lf[1]]["ty"]) for lf in recv):
                continue
            ksl = backward_slice(f, [op_local(a) for a in t["args"][1:] if op_local(a) is not None], through_calls=False)[0]
            keyed.append((t, bool(ksl & elem), sorted(ksl & other)))
        ok = bool(keyed) and all(e and not o for t, e, o in keyed)
        bad = [t for t, e, o in keyed if not e or o]
        ctx.ob("R11.9", f"{name.rsplit('::', 1)[-1]}:table-keyed-by-position", ok, f.loc(bad[0]["ln"] if bad else None),
               f"{len(keyed)} keyed access(es) to the index table, each by the element counter" if ok else
               ("no keyed access to the index table found (fail closed)" if not keyed else
                "the index table is accessed with a counter that advances only on a match (a cursor), not with the element's position: wanted indices added in non-ascending order are never found and the call fails with GetIndexOutOfArray"))


RULES = [("R11.1", r11_1), ("R11.2", r11_2), ("R11.3", r11_3), ("R11.4", r11_4), ("R11.5", r11_5), ("R11.6", r11_6), ("R11.7", r11_7), ("R11.8", r11_8), ("R11.9", r11_9), ("R11.S", r11_s)]

"""C01 — safe entry points never panic / abort / touch invalid memory: structural clauses."""
import re, collections
from ..facts import callee_is, op_local, op_place, op_int, op_bytes, fmt_place, norm_path, sccs, FactError
from ..analysis import (backward_slice, forward_derived, result_edges, discr_switches_on, switch_edges,
                        rv_operands, rv_places, return_kinds)

EXPLANATION = (
    "Decides necessary structural conditions of C01 on the MIR of the current tree, not absence of all "
    "panics: (R01.1) every recursion cycle among the functions that advance a reader (Parser/Deserializer "
    "and the serde accessors wrapping them) passes a depth guard whose error is propagated and which is "
    "not undone before the recursive call; (R01.2) the over-reading PaddedSliceRead is constructed only "
    "by parse_with_padding over a buffer extended by PADDING_SIZE bytes whose first byte cannot continue "
    "a token and which contains a scanner-stopping byte early enough; (R01.2b) a parse that ends inside "
    "the padding is rejected; (R01.3) the checked reader compares index+n with the length before every "
    "raw slice construction; (R01.4) error rendering receives an index clamped to the input; (R01.5) no "
    "todo!/unimplemented! body has a caller; (R01.6) the node buffer push is capacity-guarded. Does not "
    "decide absence of arithmetic/bounds panics on arbitrary inputs nor the pointer arithmetic of the "
    "SIMD string routines."
)
ASSUMPTIONS = [
    "rustc MIR (mir-opt-level=0) and Instance::try_resolve give the resolved program",
    "calls into foreign generic code (serde visitors/seeds) may re-enter any foreign-trait impl of a crate type occurring in their argument types (callback model), and nothing else of the crate",
    "recursion that does not hand a freshly opened container to the callee (visit_some(self), visit_newtype_struct(self), UnitVariantAccess) is bounded by the target type, not by the input",
]

PARSER = "sonic_rs::parser::Parser"


def input_adts(prog):
    """ADTs that (transitively) hold a Parser: the only objects through which input is consumed"""
    hold = {PARSER}
    if PARSER not in prog.adts:
        raise FactError("anchor not found: struct parser::Parser")
    changed = True
    while changed:
        changed = False
        for a in prog.adts.values():
            if a["id"] in hold:
                continue
            for v in a["variants"]:
                for f in v["fields"]:
                    if set(f["adts"]) & hold:
                        hold.add(a["id"])
                        changed = True
    return hold


def input_driven(prog, hold):
    out = set()
    for fn in prog.fns.values():
        if fn.crate != "sonic_rs":
            continue
        if set(fn.sig_adts) & hold or (fn.self_adt in hold):
            out.add(fn.id)
    # closures of those
    for fn in prog.fns.values():
        if fn.parent_fn in out:
            out.add(fn.id)
    return out


def short(fid):
    s = norm_path(fid).replace("sonic_rs::", "")
    m = re.match(r"<(?:&'a mut |&mut |&)?([\w:]+)(?:<[^>]*>)? as ([\w:]+)(?:<[^>]*>)?>::(\w+)(.*)", s)
    if m:
        return f"{m.group(1).split('::')[-1]}::{m.group(3)}{m.group(4)}"
    parts = s.split("::")
    return "::".join(parts[-2:]) if len(parts) >= 2 else s


def guard_fns(prog, I):
    """functions that take one unit of a depth budget: decrement an integer field reached through
    their first parameter, compare it, and can return Err.  Returns {fn id: field} and the
    un-guards {fn id: field} (functions that only give the unit back)."""
    guards, unguards = {}, {}
    for fid in I:
        fn = prog.fns[fid]
        dec, inc, cmp_fields = set(), set(), set()
        for b, i, s in fn.assigns():
            lhs = s["lhs"]
            rv = s["rv"]
            fields = [e[2] for e in lhs[1] if isinstance(e, list) and e[0] == "."]
            if fields and lhs[0] >= 1:
                # value written: comes from Sub / Add of the same field?
                ls = [p[0] for p in rv_places(rv)]
                sl, leaves = backward_slice(fn, ls, through_calls=False)
                ops = set()
                for l in sl | set(ls):
                    for d in fn.defs.get(l, []):
                        if d[0] == "stmt" and d[3]["rv"]["k"] == "binop":
                            ops.add(d[3]["rv"]["op"])
                if rv["k"] == "binop":
                    ops.add(rv["op"])
                reads_same = any(lf[0] == "place" and fields[-1] in [e[2] for e in lf[1][1] if isinstance(e, list) and e[0] == "."] for lf in leaves) or any(
                    fields[-1] in [e[2] for e in p[1] if isinstance(e, list) and e[0] == "."] for p in rv_places(rv))
                if reads_same and ops & {"Sub", "SubWithOverflow", "SubUnchecked"}:
                    dec.add(fields[-1])
                if reads_same and ops & {"Add", "AddWithOverflow", "AddUnchecked"}:
                    inc.add(fields[-1])
            if rv["k"] == "binop" and rv["op"] in ("Eq", "Ne", "Lt", "Le", "Gt", "Ge"):
                for o in (rv["a"], rv["b"]):
                    p = op_place(o)
                    if p is None:
                        continue
                    if p[1]:
                        cmp_fields.update(e[2] for e in p[1] if isinstance(e, list) and e[0] == ".")
                    else:
                        s2 = fn.src(p[0])
                        if s2[0] == "place":
                            cmp_fields.update(e[2] for e in s2[1][1] if isinstance(e, list) and e[0] == ".")
        has_err = any(k == "Err" for _, k, _ in return_kinds(fn)) or "Result<" in fn.output
        for f in dec:
            if f in cmp_fields and has_err and "Result<" in fn.output:
                guards[fid] = f
        for f in inc:
            if f not in dec:
                unguards[fid] = f
    return guards, unguards


def call_edges_with_sites(prog, I):
    """(caller, callee) -> list of (bb, term, kind) restricted to the input-driven subgraph"""
    cg = prog.callgraph
    sites = collections.defaultdict(list)
    local_traits = set(prog.traits)
    for fid in I:
        fn = prog.fns[fid]
        for b, t in fn.calls():
            st = t.get("st")
            targets = []
            if st == "R" and t["callee"] in prog.fns:
                targets.append((t["callee"], "direct"))
            elif st == "U" and t.get("trait") in local_traits:
                name = t["callee"].rsplit("::", 1)[-1]
                for im in prog.impls_of.get(t["trait"], []):
                    m = im["methods"].get(name)
                    if m:
                        targets.append((m, "cha"))
                targets.append((t["callee"], "cha"))
            else:
                targets += [(x, "callback") for x in prog.callback_targets(t)]
            for tgt, kind in targets:
                if tgt in I:
                    sites[(fid, tgt)].append((b, t, kind))
        for f2 in prog.fns.values():
            if f2.parent_fn == fid and f2.id in I:
                sites[(fid, f2.id)].append((0, None, "closure"))
    # drop glue edges
    for fid in I:
        for tgt in cg.get(fid, ()):
            if tgt in I and "drop" in prog.edge_kind.get((fid, tgt), ()) and (fid, tgt) not in sites:
                sites[(fid, tgt)].append((None, None, "drop"))
    return sites


def site_guarded(prog, fn, b, guards, unguards):
    """is the call in block b of fn dominated by a propagated guard call that is not undone?"""
    for gb, gt in fn.calls():
        if gt.get("callee") not in guards or gb == b:
            continue
        if not fn.dominates(gb, b):
            continue
        dest = gt["dest"][0]
        re_ = result_edges(fn, dest)
        if re_ is None:
            # `?` : the result goes through Try::branch first
            tb = [(bb, tt) for bb, tt in fn.calls() if callee_is(tt, "branch") and op_local(tt["args"][0]) == dest]
            if len(tb) == 1:
                re_ = result_edges(fn, tb[0][1]["dest"][0])
        if re_ is None:
            continue  # result not inspected: the guard's error is dropped
        ok_t, err_t, _ = re_
        if b not in fn.reachable_from(ok_t):
            continue
        if b in fn.reachable_from(err_t, avoid={gb}):
            continue
        # no un-guard between the guard and the call: neither a call nor a Drop of a guard object
        undone = False
        between = fn.reachable_from(ok_t, avoid={b})
        for ub in between:
            if b not in fn.reachable_from(ub):
                continue
            if ub == b:
                continue
            t = fn.blocks[ub]["term"]
            if t["k"] in ("call", "tailcall") and t.get("callee") in unguards:
                undone = True
            if t["k"] == "drop":
                for a in t["adts"]:
                    d = prog.adts.get(a, {}).get("drop")
                    if d in unguards:
                        undone = True
        if not undone:
            return True
    return False


def is_delegation(fn, t, hold_short):
    """callback whose crate-typed argument is the caller's own parameter handed on unchanged
    (visit_some(self), visit_newtype_struct(self), a provided trait method called on self)"""
    if t is None:
        return False
    found = False
    for a, ty in zip(t["args"], t.get("argtys", [])):
        if not any(h in ty for h in hold_short):
            continue
        l = op_local(a)
        if l is None:
            return False
        s = fn.src(l)
        if s[0] != "param":
            return False
        found = True
    return found


# Edges that do not hand a freshly opened container to the callee; each with its reason.
TABLE_EXEMPT_EDGES = [
    ("deserialize_enum", "sonic_rs::serde::de::UnitVariantAccess",
     "a unit variant given as a bare string: no byte is consumed before the callback, a cycle through it repeats at the same input position and is bounded by the target type"),
]
# SCCs whose recursion follows a caller-built structure, one level per call (checked structurally).
STRUCTURE_DRIVEN = {
    "get_many": ("PointerTreeNode", "recursion only descends into a child of the caller-built pointer tree"),
    "get_by_schema_rec": ("Value", "recursion only descends into a child of the caller-built schema value"),
}


def r01_1(ctx):
    prog = ctx.prog()
    hold = input_adts(prog)
    I = input_driven(prog, hold)
    ctx.floor("R01.1", "input-driven functions (signature mentions Parser/Deserializer/accessors)", len(I), 150)
    guards, unguards = guard_fns(prog, I)
    ctx.note(f"R01.1 input-carrying ADTs: {sorted(short(h) for h in hold)}")
    ctx.note(f"R01.1 depth guards: { {short(k): v for k, v in guards.items()} } un-guards: { {short(k): v for k, v in unguards.items()} }")
    sites = call_edges_with_sites(prog, I)
    hold_short = [h.split('::', 1)[1] + '<' for h in hold]
    edges = collections.defaultdict(set)
    removed = collections.Counter()
    guarded_sites = 0
    for (a, b), lst in sites.items():
        fa = prog.fns[a]
        keep = False
        for bb, t, kind in lst:
            if kind in ("closure", "drop"):
                keep = True
                continue
            if site_guarded(prog, fa, bb, guards, unguards):
                removed["guarded"] += 1
                guarded_sites += 1
                continue
            if kind == "callback" and is_delegation(fa, t, hold_short):
                removed["delegation"] += 1
                continue
            ex = False
            for fname, adt, why in TABLE_EXEMPT_EDGES:
                if fa.name == fname and prog.fns[b].self_adt == adt and adt in (t.get("arg_adts") or []):
                    # structural part of the reason: no reader-advancing call dominates the site
                    adv = [gb for gb, gt in fa.calls() if callee_is(gt, "eat", "next", "next_n") and fa.dominates(gb, bb) and gb != bb]
                    if not adv:
                        ex = True
            if ex:
                removed["table"] += 1
                continue
            keep = True
        if keep:
            edges[a].add(b)
    comps = [c for c in sccs(sorted(I), edges) if len(c) > 1 or c[0] in edges.get(c[0], ())]
    ctx.note(f"R01.1 edges removed: {dict(removed)}; recursive SCCs left: {len(comps)}")
    ctx.ob("R01.1", "positive-control:guarded-sites", guarded_sites >= 7, "", f"{guarded_sites} recursive call sites are dominated by a propagated, not-undone depth guard (floor 7: the serde container entries)", nontrivial=False)
    for c in comps:
        names = sorted(short(x) for x in c)
        key = "scc:" + "+".join(names)
        if len(key) > 200:
            key = key[:200] + f"...({len(names)})"
        # structure-driven exemptions, verified: every recursive call passes a reference to the named type
        exempt = None
        for tag, (tyname, why) in STRUCTURE_DRIVEN.items():
            # the group is the tagged function and helpers it was split into: every recursive call inside the group, whoever
            # makes it, has to pass a reference to the named type
            if any(tag in n for n in names):
                okk = True
                for a in c:
                    for b in edges.get(a, ()):
                        if b in c:
                            for bb, t, kind in sites[(a, b)]:
                                if t is None:
                                    continue
                                if not any(tyname in x for x in t.get("argtys", [])):
                                    okk = False
                if okk:
                    exempt = why
        where = prog.fns[sorted(c)[0]].loc()
        if exempt:
            ctx.ob("R01.1", key, True, where, f"recursive group is structure-driven: {exempt}")
        else:
            ctx.ob("R01.1", key, False, where,
                   "input-driven recursion cycle without an effective depth guard: one stack frame per nesting level of the input (stack overflow aborts the process): " + ", ".join(names[:12]))
    if not comps:
        ctx.ob("R01.1", "no-unguarded-cycle", True, "", "no input-driven recursion cycle is left after removing guarded edges")
    # every guarded site is an obligation that holds
    for (a, b), lst in sites.items():
        fa = prog.fns[a]
        for bb, t, kind in lst:
            if kind in ("closure", "drop"):
                continue
            if site_guarded(prog, fa, bb, guards, unguards):
                ctx.ob("R01.1", f"guarded:{short(a)}->{short(b)}", True, fa.loc(t["ln"]), "recursive edge dominated by a depth guard whose error is propagated")




# ------------------------------------------------------------------------------------------------
PADDED = "sonic_rs::reader::PaddedSliceRead"
TOKEN_CONT = set(b"0123456789.eE+-") | set(b"truefalsn")


def _array_local_bytes(fn, arr):
    """bytes of a local array built as `[c; N]` and then patched by copy_from_slice of constants into
    constant ranges (in dominance order); None if anything else writes it"""
    d = fn.single_def(arr)
    if not d or d[0] != "stmt" or d[3]["rv"]["k"] != "repeat":
        return None
    c = op_int(d[3]["rv"]["op"])
    try:
        n = int(d[3]["rv"]["n"].split("_")[0].split(" ")[0])
    except ValueError:
        return None
    if c is None:
        return None
    buf = bytearray([c & 0xFF] * n)
    patches = []
    for b, t in fn.calls():
        if callee_is(t, "copy_from_slice"):
            dl = op_local(t["args"][0])
            src_bytes = _const_bytes_of_arg(fn, t["args"][1])
            if dl is None:
                continue
            # dest = index_mut(&mut arr, range)
            chain = fn.src(dl)
            if chain[0] != "call" or not callee_is(chain[2], "index_mut"):
                continue
            base = op_local(chain[2]["args"][0])
            if base is None or fn.src(base) != ("refof", arr):
                continue
            rl = op_local(chain[2]["args"][1])
            agg = fn.single_def(rl) if rl is not None else None
            if src_bytes is None or not agg or agg[0] != "stmt" or agg[3]["rv"]["k"] != "agg":
                return None
            rv = agg[3]["rv"]
            vals = [op_int(x) for x in rv["f"]]
            nm = rv.get("adt", "")
            if nm.endswith("RangeTo") and vals[0] is not None:
                lo, hi = 0, vals[0]
            elif nm.endswith("Range") and None not in vals[:2]:
                lo, hi = vals[0], vals[1]
            elif nm.endswith("RangeFrom") and vals[0] is not None:
                lo, hi = vals[0], n
            else:
                return None
            if hi - lo != len(src_bytes) or hi > n:
                return None
            patches.append((len(fn.dom.get(b, ())), lo, hi, src_bytes))
    for _, lo, hi, bs in sorted(patches):
        buf[lo:hi] = bs
    return bytes(buf)


def _const_bytes_of_arg(fn, o):
    """constant byte string reaching an operand through refs / unsizing / full-range index"""
    l = op_local(o)
    if l is None:
        return op_bytes(o)
    sc = fn.src(l)
    if sc[0] == "refof":
        ab = _array_local_bytes(fn, sc[1])
        if ab is not None:
            return ab
    sl, leaves = backward_slice(fn, [l])
    bs = [op_bytes(lf[1]) for lf in leaves if lf[0] == "const" and op_bytes(lf[1]) is not None]
    dyn = [lf for lf in leaves if lf[0] == "param"]
    if len(bs) == 1 and not dyn:
        return bs[0]
    return None


def _append_model(fn, before=None):
    """padding bytes of a buffer built by appending: the input copy first, then constants (extend_from_slice / push /
    resize).  None if the function does not build it that way."""
    ext = [(b, t) for b, t in fn.calls() if callee_is(t, "extend_from_slice", "push", "resize", "extend") and "Vec" in t["callee"] and (before is None or fn.dominates(b, before))]
    if not ext:
        return None
    # order by dominance (straight line)
    ext.sort(key=lambda bt: len(fn.dom[bt[0]]))
    pads = b""
    seen_input = False
    for b, t in ext:
        bs = _const_bytes_of_arg(fn, t["args"][1]) if callee_is(t, "extend_from_slice") else None
        if bs is None and callee_is(t, "resize") and seen_input and len(t["args"]) >= 3 and op_int(t["args"][2]) is not None:
            # resize(json.len() + K, byte): fills up to K bytes behind the input copy
            v = _sym(fn, t["args"][1])
            if v is not None and v[0] is not None and v[0][0] == "call":
                lt = fn.blocks[v[0][1]]["term"]
                ll = op_local(lt["args"][0]) if callee_is(lt, "len") and lt["args"] else None
                lsl, lleaves = backward_slice(fn, [ll]) if ll is not None else (set(), [])
                if any(lf[0] == "param" for lf in lleaves) and v[1] >= len(pads):
                    bs = bytes([op_int(t["args"][2]) & 0xFF]) * (v[1] - len(pads))
        if bs is None:
            # the copy of the caller's input (derived from parameter `json`)
            sl, leaves = backward_slice(fn, [op_local(t["args"][1])]) if op_local(t["args"][1]) is not None else (set(), [])
            if any(lf[0] == "param" for lf in leaves) and not seen_input and not pads:
                seen_input = True
                continue
            raise FactError(f"parse_with_padding: unrecognised buffer extension at {fn.loc(t['ln'])}")
        pads += bs
    if not seen_input:
        raise FactError("parse_with_padding: copy of the input not found")
    return pads


def _fill_model(fn):
    """padding bytes of a buffer built by filling: `vec![byte; input.len() + K]`, split at input.len() into (text, padding),
    the input copied into `text` and constants copied to the front of `padding`.  None if not built that way."""
    fe = [(b, t) for b, t in fn.calls() if callee_is(t, "from_elem") and len(t["args"]) == 2]
    sp = [(b, t) for b, t in fn.calls() if callee_is(t, "split_at_mut") and len(t["args"]) == 2]
    if len(fe) != 1 or len(sp) != 1:
        return None
    def len_of_param(v):
        if v is None or v[0] is None or v[0][0] != "call":
            return False
        lt = fn.blocks[v[0][1]]["term"]
        ll = op_local(lt["args"][0]) if callee_is(lt, "len") and lt["args"] else None
        return ll is not None and any(lf[0] == "param" for lf in backward_slice(fn, [ll])[1])
    byte, size, at = op_int(fe[0][1]["args"][0]), _sym(fn, fe[0][1]["args"][1]), _sym(fn, sp[0][1]["args"][1])
    if byte is None or not len_of_param(size) or not len_of_param(at) or at[1] != 0 or size[1] < 0:
        return None
    pads = bytearray([byte & 0xFF]) * size[1]
    tup = sp[0][1]["dest"][0]

    def part_of(l, depth=0):
        """which half of the split a slice local points into, and whether it starts at the half's first byte"""
        if l is None or depth > 10:
            return None
        d = fn.single_def(l)
        if d is None:
            return None
        if d[0] == "call":
            t = d[2]
            if callee_is(t, "index_mut", "get_unchecked_mut") and t["args"]:
                r = fn.single_def(op_local(t["args"][1])) if op_local(t["args"][1]) is not None else None
                kind = r[3]["rv"].get("adt", "") if r and r[0] == "stmt" and r[3]["rv"]["k"] == "agg" else ""
                if kind.endswith("RangeTo") or kind.endswith("RangeFull") or kind.endswith("RangeToInclusive"):
                    return part_of(op_local(t["args"][0]), depth + 1)
                return None
            if callee_is(t, "deref_mut", "as_mut_slice", "as_mut"):
                return part_of(op_local(t["args"][0]), depth + 1)
            return None
        rv = d[3]["rv"]
        pl = rv["p"] if rv["k"] in ("ref", "rawptr") else op_place(rv["op"]) if rv["k"] in ("use", "cast") else None
        if pl is None:
            return None
        if pl[0] == tup:
            idx = [e[1] for e in pl[1] if isinstance(e, list) and e[0] == "."]
            return idx[0] if idx else None
        return part_of(pl[0], depth + 1)

    seen_input = False
    for b, t in fn.calls():
        if not callee_is(t, "copy_from_slice") or len(t["args"]) != 2:
            continue
        part = part_of(op_local(t["args"][0]))
        if part == 0:
            sl, leaves = backward_slice(fn, [op_local(t["args"][1])]) if op_local(t["args"][1]) is not None else (set(), [])
            if any(lf[0] == "param" for lf in leaves):
                seen_input = True
                continue
            raise FactError(f"parse_with_padding: the text half of the buffer is filled from something else than the input at {fn.loc(t['ln'])}")
        if part == 1:
            bs = _const_bytes_of_arg(fn, t["args"][1])
            if bs is None or len(bs) > len(pads):
                raise FactError(f"parse_with_padding: unrecognised write into the padding at {fn.loc(t['ln'])}")
            pads[:len(bs)] = bs
            continue
        raise FactError(f"parse_with_padding: unrecognised copy_from_slice target at {fn.loc(t['ln'])}")
    if not seen_input:
        raise FactError("parse_with_padding: copy of the input not found")
    return bytes(pads)


def padding_bytes(prog):
    """the constant bytes behind the input copy in the buffer parse_with_padding hands to the over-reading reader, in order;
    the buffer is built in parse_with_padding itself or in a private helper it calls for that"""
    fn = prog.find("Value::parse_with_padding")
    news = [(b, t) for b, t in fn.calls() if t.get("callee", "").startswith(PADDED) and t["callee"].endswith("::new")]
    if len(news) != 1:
        raise FactError("parse_with_padding: expected exactly one PaddedSliceRead::new")
    nb = news[0][0]
    builders = [(fn, nb)]
    a = op_local(news[0][1]["args"][0]) if news[0][1]["args"] else None
    for lf in (backward_slice(fn, [a])[1] if a is not None else []):
        if lf[0] == "call" and lf[2]["callee"] in prog.fns and prog.fns[lf[2]["callee"]].crate == "sonic_rs" and "Vec<u8>" in prog.fns[lf[2]["callee"]].output:
            builders.insert(0, (prog.fns[lf[2]["callee"]], None))
    for g, before in builders:
        for model in (_fill_model, lambda x: _append_model(x, before)):
            pads = model(g)
            if pads is not None:
                return fn, pads, news[0]
    raise FactError("parse_with_padding: copy of the input not found")


def r01_2(ctx):
    prog = ctx.prog()
    # (a) who may construct the over-reading reader
    builders = []
    for fn in prog.fns.values():
        for b, i, s in fn.assigns():
            rv = s["rv"]
            if rv["k"] == "agg" and rv.get("adt") == PADDED:
                builders.append(fn)
    ok = builders and all(norm_path(f.id).endswith("PaddedSliceRead::new") for f in builders)
    ctx.ob("R01.2", "construct:PaddedSliceRead", ok, builders[0].loc() if builders else "", f"PaddedSliceRead is constructed only in its `new` ({sorted({short(f.id) for f in builders})})")
    callers = prog.callers_of(lambda t: t.get("callee", "").startswith(PADDED) and t["callee"].endswith("::new"))
    okc = callers and all(norm_path(f.id).endswith("Value::parse_with_padding") for f, b, t in callers)
    ctx.ob("R01.2", "call:PaddedSliceRead::new", okc, callers[0][0].loc(callers[0][2]["ln"]) if callers else "", f"PaddedSliceRead::new is called only from Value::parse_with_padding ({sorted({short(f.id) for f, b, t in callers})})")
    # generic instantiations of Parser with the padded reader: only inside parse_with_padding
    inst = set()
    for fn in prog.fns.values():
        for b, t in fn.calls():
            if any("PaddedSliceRead" in g for g in (t.get("rgargs") or t.get("gargs") or [])):
                inst.add(fn.id)
    ctx.ob("R01.2", "instantiate:Parser<PaddedSliceRead>", all(norm_path(i).endswith("Value::parse_with_padding") for i in inst) and inst, "", f"code is instantiated with the padded reader only in {sorted(short(i) for i in inst)}")
    # (b) the padding
    fn, pads, (nb, nt) = padding_bytes(prog)
    p1 = prog.const_int("PaddedSliceRead::PADDING_SIZE")
    p2 = prog.const_int("Value::PADDING_SIZE")
    ctx.ob("R01.2", "padding:length", len(pads) == p1 == p2, fn.loc(nt["ln"]), f"{len(pads)} constant bytes are appended to the input copy; PaddedSliceRead::PADDING_SIZE={p1}, Value::PADDING_SIZE={p2}")
    # the reader's length excludes exactly the padding: len = slice.len() - PADDING_SIZE
    newf = prog.find("PaddedSliceRead::new")
    subs = [s for b, i, s in newf.assigns() if s["rv"]["k"] == "binop" and s["rv"]["op"] in ("Sub", "SubWithOverflow", "SubUnchecked")]
    oks = any(op_int(s["rv"]["b"]) == p1 for s in subs)
    ctx.ob("R01.2", "padding:reader-len", oks, newf.loc(), "PaddedSliceRead::new takes len = slice.len() - PADDING_SIZE")
    if pads:
        ctx.ob("R01.2", "padding:first-byte", pads[0] not in TOKEN_CONT, fn.loc(nt["ln"]),
               f"first padding byte {pads[:1]!r} cannot continue a number or a literal that ends at the end of the input")
    lanes = [int(c["int"]) for k, c in prog.consts.items() if k.startswith("sonic_rs::") and k.rsplit("::", 1)[-1] in ("LANES", "LANS") and "int" in c]
    ctx.floor("R01.2", "LANES constants of the block scanners", len(lanes), 5)
    mx = max(lanes) if lanes else 64
    window = p1 - (mx - 1)
    stops = [i for i, c in enumerate(pads[:max(window, 0)]) if c == 0x22 or (c < 0x20 and c not in (9, 10, 13))]
    ctx.ob("R01.2", "padding:stop-byte", bool(stops), fn.loc(nt["ln"]),
           f"a byte that stops every scanner (quote or control byte) occurs at padding offset {stops[:1]} < {window} = PADDING - (LANES-1), so a {mx}-byte block loop entered inside the input finds it before a load could leave the buffer")
    # (c) constant look-ahead widths used by Parser methods
    widths = []
    for f in prog.fns.values():
        if f.crate != "sonic_rs" or not (f.self_adt == PARSER or (f.parent_fn or "").startswith("sonic_rs::parser::Parser")):
            continue
        for b, t in f.calls():
            if callee_is(t, "Reader::peek_n", "Reader::next_n") and len(t["args"]) > 1:
                n = op_int(t["args"][1])
                if n is not None:
                    widths.append((n, f, t))
    ctx.floor("R01.2", "constant peek_n/next_n widths in Parser", len(widths), 6)
    for n, f, t in widths:
        ctx.ob("R01.2", f"lookahead:{short(f.id)}:{n}", n <= p1, f.loc(t["ln"]), f"constant look-ahead of {n} bytes <= padding {p1}")


def r01_2b(ctx):
    prog = ctx.prog()
    fn = prog.find("Value::parse_with_padding")
    # index reached by the reader
    idx_calls = [(b, t) for b, t in fn.calls() if callee_is(t, "Reader::index", "index") and "Reader" in (t.get("trait") or t.get("callee", ""))]
    if not idx_calls:
        ctx.ob("R01.2b", "end-inside-input", False, fn.loc(), "parse_with_padding never reads the index reached by the over-reading reader: a parse that ends inside the padding is accepted")
        return
    idx_l = forward_derived(fn, {t["dest"][0] for b, t in idx_calls})
    len_calls = [(b, t) for b, t in fn.calls() if callee_is(t, "len")]
    len_l = set()
    for b, t in len_calls:
        a = op_local(t["args"][0])
        if a is not None:
            sl, leaves = backward_slice(fn, [a])
            if ("param", 2) in leaves:
                len_l.add(t["dest"][0])
    len_l = forward_derived(fn, len_l)
    ok = False
    where = fn.loc()
    for b, i, s in fn.assigns():
        rv = s["rv"]
        if rv["k"] == "binop" and rv["op"] in ("Gt", "Ge", "Lt", "Le"):
            la, lb = op_local(rv["a"]), op_local(rv["b"])
            if (la in idx_l and lb in len_l) or (la in len_l and lb in idx_l):
                from ..analysis import bool_switch_edges
                e = bool_switch_edges(fn, s["lhs"][0])
                if e is None:
                    continue
                t_t, f_t = e
                # "index beyond input" edge
                beyond = t_t if ((rv["op"] in ("Gt", "Ge") and la in idx_l) or (rv["op"] in ("Lt", "Le") and la in len_l)) else f_t
                inside = f_t if beyond == t_t else t_t
                ok_blocks = [bb for bb, k, _ in return_kinds(fn) if k == "Ok"]
                err_only = not (fn.reachable_from(beyond, avoid=set()) & set(ok_blocks))
                dominated = all(fn.dominates(b, ob) for ob in ok_blocks)
                if err_only and dominated and ok_blocks:
                    ok = True
                    where = fn.loc(s["ln"])
    ctx.ob("R01.2b", "end-inside-input", ok, where,
           "every Ok return of parse_with_padding is dominated by a comparison of the reader's end index with the input length whose beyond-the-input edge cannot reach Ok"
           if ok else "parse_with_padding can return Ok although the reader's end index lies beyond the caller's input (the padding sentinel closed the value)")


def r01_3(ctx):
    prog = ctx.prog()
    n = 0
    for m in ("peek", "peek_n", "next_n"):
        fns = [f for f in prog.fns.values() if f.trait == "sonic_rs::reader::Reader" and f.self_adt == "sonic_rs::reader::Read" and f.name == m]
        if len(fns) != 1:
            ctx.fail_closed("R01.3", f"impl Reader for Read::{m}")
            continue
        fn = fns[0]
        n += 1
        # comparison of index(+n) with the slice length
        cmp_l = None
        for b, i, s in fn.assigns():
            rv = s["rv"]
            if rv["k"] == "binop" and rv["op"] in ("Lt", "Le", "Gt", "Ge"):
                sides = []
                for o in (rv["a"], rv["b"]):
                    l = op_local(o)
                    if l is None:
                        sides.append(set())
                        continue
                    sl, leaves = backward_slice(fn, [l])
                    tags = set()
                    for lf in leaves:
                        if lf[0] == "place" and "index" in [e[2] for e in lf[1][1] if isinstance(e, list) and e[0] == "."]:
                            tags.add("index")
                        if lf[0] == "call" and callee_is(lf[2], "len"):
                            tags.add("len")
                    sides.append(tags)
                if ("index" in sides[0] and "len" in sides[1]) or ("len" in sides[0] and "index" in sides[1]):
                    strict_ok = True
                    cmp_l = (s["lhs"][0], rv["op"], "index" in sides[0], b)
        if cmp_l is None:
            # delegation: the bytes come from a sibling accessor of the same impl that is itself checked here (next_n built
            # on peek_n); nothing is read besides what it returned
            sib = [(b, t) for b, t in fn.calls() if t["callee"] in prog.fns and prog.fns[t["callee"]].trait == fn.trait and prog.fns[t["callee"]].self_adt == fn.self_adt
                   and prog.fns[t["callee"]].name in ("peek", "peek_n", "next_n") and prog.fns[t["callee"]].name != m]
            rawd = [(b, t) for b, t in fn.calls() if callee_is(t, "get_unchecked", "from_raw_parts", "index", "add", "offset")]
            if sib and not rawd:
                ctx.ob("R01.3", f"Read::{m}", True, fn.loc(), f"the bytes are those returned by the checked sibling accessor {prog.fns[sib[0][1]['callee']].name}")
                continue
            # the checked accessor form: slice.get(index) / get(range), which returns None out of range by itself, with no
            # unchecked read besides it
            gets = [(b, t) for b, t in fn.calls() if callee_is(t, "get") and "slice" in t["callee"]]
            raw = [(b, t) for b, t in fn.calls() if callee_is(t, "get_unchecked", "from_raw_parts", "index", "add", "offset")]
            okg = bool(gets) and not raw
            if okg:
                a = op_local(gets[0][1]["args"][1])
                sl, leaves = backward_slice(fn, [a]) if a is not None else (set(), [])
                okg = any(lf[0] == "place" and "index" in [e[2] for e in lf[1][1] if isinstance(e, list) and e[0] == "."] for lf in leaves)
            ctx.ob("R01.3", f"Read::{m}", okg, fn.loc(), "the read goes through the checked slice accessor get(index), which answers None out of range" if okg else "no comparison of index (+n) with the slice length guards the read")
            continue
        cl, op, index_left, cb = cmp_l
        from ..analysis import bool_switch_edges
        e = bool_switch_edges(fn, cl)
        guarded = False
        how = ""
        if e is not None:
            t_t, f_t = e
            inside = t_t if ((op in ("Lt", "Le") and index_left) or (op in ("Gt", "Ge") and not index_left)) else f_t
            outside = f_t if inside == t_t else t_t
            somes = [bb for bb, k, _ in return_kinds(fn) if k == "Some"]
            guarded = bool(somes) and not (fn.reachable_from(outside) & set(somes))
            how = "Some(..) is returned only on the in-bounds edge"
        else:
            # `cond.then(|| ...)`: the closure runs only when cond holds
            thens = [(b, t) for b, t in fn.calls() if callee_is(t, "bool::then", "then")]
            for b, t in thens:
                a = op_local(t["args"][0])
                if a is not None and cl in backward_slice(fn, [a])[0] | {a} and ((op in ("Lt", "Le") and index_left) or (op in ("Gt", "Ge") and not index_left)):
                    guarded = True
                    how = "the raw slice is built in the closure of `cond.then(..)`"
        # peek (one byte) needs strict <, peek_n/next_n allow <=
        if m == "peek" and op in ("Le", "Ge"):
            guarded = False
            how = "one-byte read guarded by a non-strict comparison"
        ctx.ob("R01.3", f"Read::{m}", guarded, fn.loc(), f"bounds comparison ({op}) of index with the slice length: {how}" if guarded else f"the read is not confined to the in-bounds edge of the length comparison: {how}")
    ctx.floor("R01.3", "checked reader methods", n, 3)


VALIDATOR_CALLS = ("valid_up_to", "offset", "next_invalid_utf8", "error_len")


def _index_arg_ok(prog, fn, b, t, argi, depth=0):
    """classify the index argument of an Error::syntax-like call"""
    a = t["args"][argi]
    if op_int(a) is not None:
        return True, f"constant {op_int(a)}"
    l = op_local(a)
    if l is None:
        return False, "unrecognised operand"
    sl, leaves = backward_slice(fn, [l])
    calls = [lf[2] for lf in leaves if lf[0] == "call"]
    if any(callee_is(c, *VALIDATOR_CALLS) for c in calls):
        return True, "offset produced by a UTF-8 validator"
    places = [lf for lf in leaves if lf[0] == "place"]
    if any("next_invalid_utf8" in [e[2] for e in lf[1][1] if isinstance(e, list) and e[0] == "."] for lf in places):
        return True, "offset recorded by the up-front UTF-8 validation"
    if calls and all(callee_is(c, "len") for c in calls) and not any(lf[0] == "param" for lf in leaves) and not places:
        return True, "the slice length itself"
    direct = fn.src(l)
    if direct[0] == "call" and callee_is(direct[2], "min") and len(direct[2]["args"]) == 2:
        for a2 in direct[2]["args"]:
            l2 = op_local(a2)
            s2 = fn.src(l2) if l2 is not None else ("multi",)
            if s2[0] == "call" and callee_is(s2[2], "len"):
                return True, "clamped with min(index, len())"
    # dominated by a comparison against a len() whose out-of-range edge does not reach the call
    for bb, i, s in fn.assigns():
        rv = s["rv"]
        if rv["k"] == "binop" and rv["op"] in ("Gt", "Ge", "Lt", "Le"):
            la, lb = op_local(rv["a"]), op_local(rv["b"])
            if la is None or lb is None:
                continue
            sa_, lva = backward_slice(fn, [la])
            sb_, lvb = backward_slice(fn, [lb])
            a_len = any(lf[0] == "call" and callee_is(lf[2], "len") for lf in lvb)
            b_len = any(lf[0] == "call" and callee_is(lf[2], "len") for lf in lva)
            # the compared index shares an origin with the argument
            shares = (sa_ & sl) if a_len else (sb_ & sl) if b_len else set()
            if (a_len or b_len) and shares and fn.dominates(bb, b):
                return True, "dominated by a comparison of the index with the slice length"
    # produced by a closure the callers pass in (`locate(index)`): every closure passed there returns only checked offsets
    fcalls = [c for c in calls if (c.get("trait") or "").startswith("core::ops::function::Fn") and c["args"] and op_local(c["args"][0]) is not None
              and fn.src(op_local(c["args"][0]))[0] == "param"]
    if fcalls and depth < 3 and all(callee_is(c, "len", "min") or c in fcalls or c["callee"].rsplit("::", 1)[-1] in ("branch", "from_residual") for c in calls):
        pk = fn.src(op_local(fcalls[0]["args"][0]))[1]
        callers = prog.callers_of(lambda tt: tt.get("callee") == fn.id)
        if not callers:
            return False, "index comes from a closure parameter of a function without visible callers"
        for cf, cb, ct in callers:
            la = op_local(ct["args"][pk - 1]) if pk - 1 < len(ct["args"]) else None
            bodies = [g for g in prog.closures_of(cf) if la is not None and _closure_passed(cf, {"args": [ct["args"][pk - 1]]}, g)]
            if not bodies:
                return False, f"caller {short(cf.id)}: cannot see the closure that computes the index"
            for g in bodies:
                okc, whyc = _closure_returns_checked(prog, g)
                if not okc:
                    return False, f"caller {short(cf.id)}: its closure returns {whyc}"
        return True, "every caller's closure returns an offset compared with or clamped to the slice length"
    if any(lf[0] == "param" for lf in leaves) and depth < 3:
        params = [lf[1] for lf in leaves if lf[0] == "param"]
        callers = prog.callers_of(lambda tt: tt.get("callee") == fn.id)
        if not callers:
            return False, "index comes from a parameter of a function without visible callers"
        for cf, cb, ct in callers:
            for pn in params:
                ok, why = _index_arg_ok(prog, cf, cb, ct, pn - 1, depth + 1)
                if not ok:
                    return False, f"caller {short(cf.id)}: {why}"
        return True, "every caller passes a checked index"
    return False, "index is neither constant, validator offset, slice length nor compared with the slice length"


def _closure_returns_checked(prog, g):
    """every Some(x) the closure returns holds an offset that is clamped to / compared with a slice length"""
    n = 0
    for b, i, s_ in g.assigns():
        rv = s_["rv"]
        if rv["k"] == "agg" and rv.get("variant") == "Some" and rv["f"] and 0 in (forward_derived(g, {s_["lhs"][0]}) | {s_["lhs"][0]}):
            n += 1
            ok, why = _index_arg_ok(prog, g, b, {"args": [rv["f"][0]]}, 0, depth=3)
            if not ok:
                return False, f"an unchecked offset ({why})"
    for b, t in g.calls():
        if callee_is(t, "then_some", "then") and (t["dest"][0] == 0 or 0 in forward_derived(g, {t["dest"][0]})):
            n += 1
            # bool::then_some(cond, x): cond compares x with a length
            lc = op_local(t["args"][0])
            sl, leaves = backward_slice(g, [lc]) if lc is not None else (set(), [])
            cmp_len = any(lf[0] == "call" and callee_is(lf[2], "len") for lf in leaves)
            lx = op_local(t["args"][1]) if len(t["args"]) > 1 else None
            shares = lx is not None and bool((backward_slice(g, [lx])[0] | {lx}) & (sl | {lc}))
            if not (cmp_len and shares):
                return False, "an offset under a condition that does not compare it with the slice length"
    return n > 0, "no recognisable offset"


def r01_4(ctx):
    prog = ctx.prog()
    sites = prog.callers_of(lambda t: callee_is(t, "Error::syntax"))
    ctx.floor("R01.4", "Error::syntax call sites", len(sites), 5)
    seen = collections.Counter()
    for fn, b, t in sites:
        ok, why = _index_arg_ok(prog, fn, b, t, 2)
        k = short(fn.id)
        seen[k] += 1
        ctx.ob("R01.4", f"{k}#{seen[k]}" if seen[k] > 1 else k, ok, fn.loc(t["ln"]), f"index handed to Error::syntax (which slices the input around it): {why}", nontrivial=(op_int(t["args"][2]) is None))
    # Parser::error specifically clamps: index > len -> index = len
    pe = prog.find("Parser::error")
    ok, why = _index_arg_ok(prog, pe, [b for b, t in pe.calls() if callee_is(t, "Error::syntax")][0], [t for b, t in pe.calls() if callee_is(t, "Error::syntax")][0], 2)
    # the comparison alone is not a clamp: on its exceeding edge the index that is handed on must be replaced by len()
    sb, st_ = [(b, t) for b, t in pe.calls() if callee_is(t, "Error::syntax")][0]
    E = op_local(st_["args"][2])
    for _ in range(6):
        d = pe.single_def(E) if E is not None else None
        if d and d[0] == "stmt" and d[3]["rv"]["k"] == "use" and op_local(d[3]["rv"]["op"]) is not None:
            E = op_local(d[3]["rv"]["op"])
        else:
            break
    lens = {b for b, t in pe.calls() if callee_is(t, "len")}
    replaced = False
    for b, i, s_ in pe.assigns():
        rv = s_["rv"]
        if not (rv["k"] == "binop" and rv["op"] in ("Gt", "Ge", "Lt", "Le")):
            continue
        sa_, sb_ = _sym(pe, rv["a"]), _sym(pe, rv["b"])
        if sa_ is None or sb_ is None:
            continue
        a_len = sa_[0] is not None and sa_[0][0] == "call" and sa_[0][1] in lens
        b_len = sb_[0] is not None and sb_[0][0] == "call" and sb_[0][1] in lens
        if a_len == b_len:
            continue
        from ..analysis import bool_switch_edges
        e = bool_switch_edges(pe, s_["lhs"][0])
        if not e:
            continue
        op = rv["op"] if b_len else {"Lt": "Gt", "Gt": "Lt", "Le": "Ge", "Ge": "Le"}[rv["op"]]   # index op len
        exceed = e[0] if op in ("Gt", "Ge") else e[1]
        stores = [bb for bb, ii, ss in pe.assigns() if ss["lhs"] == [E, []] and (bb == exceed or pe.dominates(exceed, bb))
                  and (lambda v: v is not None and v[0] is not None and v[0][0] == "call" and v[0][1] in lens and v[1] == 0)(_sym(pe, ss["rv"]["op"]) if ss["rv"]["k"] == "use" else None)]
        if stores and sb not in pe.reachable_from(exceed, avoid=set(stores)) | ({exceed} - set(stores)):
            replaced = True
    clamped_by_min = ok and "min(index, len())" in why
    ctx.ob("R01.4", "Parser::error:clamp", (ok and "compar" in why and replaced) or clamped_by_min, pe.loc(),
           "Parser::error replaces an error index beyond the input by len() before rendering" if (ok and replaced) or clamped_by_min else
           "Parser::error compares the error index with the input length but hands the unclamped index to Error::syntax: building the error underflows / slices out of range when the padded reader stopped inside the padding")


def r01_5(ctx, config="native"):
    prog = ctx.prog(config)
    bodies = []
    for fn in prog.fns.values():
        for b, o, c in fn.const_operands():
            bs = op_bytes(c)
            if bs in (b"not yet implemented", b"not implemented"):
                bodies.append(fn)
                break
    ctx.ob("R01.5", "positive-control:todo-bodies-found", len(bodies) >= 1, "", f"{len(bodies)} todo!/unimplemented! bodies found in this configuration", nontrivial=False)
    cg = prog.callgraph
    rev = collections.defaultdict(set)
    for a, bs in cg.items():
        for b in bs:
            rev[b].add(a)
    for fn in bodies:
        # everything that can reach the body; wrappers inside sonic_simd (the 512-bit composite of the
        # same method) are fine as long as nothing of sonic_rs / sonic_number reaches them
        seen = set()
        st = [fn.id]
        while st:
            x = st.pop()
            if x in seen:
                continue
            seen.add(x)
            st.extend(rev.get(x, ()))
        live = sorted(x for x in seen if prog.fns[x].crate != "sonic_simd")
        ctx.ob("R01.5", f"unreachable:{short(fn.id)}:{fn.impl.get('self_ty') if fn.impl else ''}", not live, fn.loc(),
               f"body that panics with 'not yet implemented' is reachable from {len(live)} functions of sonic_rs/sonic_number {[short(c) for c in live[:4]]} (through {len(seen) - 1} callers in sonic_simd)")


def r01_6(ctx):
    prog = ctx.prog()
    pushes = prog.callers_of(lambda t: callee_is(t, "push") and "Vec" in t.get("callee", "") and any("ManuallyDrop<value::node::Value>" in g for g in (t.get("rgargs") or [])))
    ctx.floor("R01.6", "pushes on the node buffer", len(pushes), 2)
    for fn, b, t in pushes:
        # dominated by a switch on Eq(len, capacity) through its false edge
        ok = False
        for bb, i, s in fn.assigns():
            rv = s["rv"]
            if rv["k"] == "binop" and rv["op"] in ("Eq", "Ne", "Lt", "Ge"):
                la, lb = op_local(rv["a"]), op_local(rv["b"])
                if la is None or lb is None:
                    continue
                ca = [lf[2] for lf in backward_slice(fn, [la])[1] if lf[0] == "call"]
                cb = [lf[2] for lf in backward_slice(fn, [lb])[1] if lf[0] == "call"]
                if any(callee_is(c, "len") for c in ca) and any(callee_is(c, "capacity") for c in cb):
                    from ..analysis import bool_switch_edges
                    e = bool_switch_edges(fn, s["lhs"][0])
                    if e:
                        t_t, f_t = e
                        full = t_t if rv["op"] in ("Eq", "Ge") else f_t
                        if b not in fn.reachable_from(full) and fn.dominates(bb, b):
                            ok = True
        ctx.ob("R01.6", f"push-guarded:{short(fn.id)}", ok, fn.loc(t["ln"]), "push on the node buffer happens only on the len != capacity edge (the buffer never reallocates while nodes point into it)" if ok else "push on the node buffer is not guarded by the len == capacity test: a reallocation invalidates the pointers held by the visitor")
    # capacity request derived from the input length: json_len / 2 + 2
    dv = prog.find("DocumentVisitor::new")
    wc = [(b, t) for b, t in dv.calls() if callee_is(t, "TlsBuf::with_capacity")]
    ok = False
    msg = "DocumentVisitor::new does not call TlsBuf::with_capacity"
    if wc:
        l = op_local(wc[0][1]["args"][0])
        sl, leaves = backward_slice(dv, [l]) if l is not None else (set(), [])
        consts = sorted(op_int(lf[1]) for lf in leaves if lf[0] == "const" and op_int(lf[1]) is not None)
        ops = set()
        for x in sl:
            for d in dv.defs.get(x, []):
                if d[0] == "stmt" and d[3]["rv"]["k"] == "binop":
                    ops.add(d[3]["rv"]["op"].replace("WithOverflow", ""))
        ok = ("param", 1) in leaves and "Div" in ops and "Add" in ops and 2 in consts
        msg = f"node buffer capacity = f(json_len) with ops {sorted(ops)} and constants {consts} (expected json_len/2 + 2: one node per two input bytes plus root and header)"
    ctx.ob("R01.6", "capacity:json_len/2+2", ok, dv.loc(), msg)


def r01_7(ctx):
    """fixed-width unchecked loads behind a slice: the callers of simd_str2int must have checked
    that 16 bytes remain"""
    prog = ctx.prog()
    sites = prog.callers_of(lambda t: callee_is(t, "simd_str2int"))
    ctx.floor("R01.7", "simd_str2int call sites", len(sites), 1)
    width = 16
    for fn, b, t in sites:
        ok = False
        found = None
        for bb, i, s in fn.assigns():
            rv = s["rv"]
            if rv["k"] == "binop" and rv["op"] in ("Ge", "Gt", "Le", "Lt"):
                ca, cb_ = op_int(rv["a"]), op_int(rv["b"])
                other = rv["a"] if cb_ is not None else rv["b"] if ca is not None else None
                c = cb_ if cb_ is not None else ca
                if other is None or c is None:
                    continue
                l = op_local(other)
                if l is None:
                    continue
                sl, leaves = backward_slice(fn, [l])
                has_len = any(lf[0] == "call" and callee_is(lf[2], "len") for lf in leaves)
                if not has_len:
                    continue
                from ..analysis import bool_switch_edges
                e = bool_switch_edges(fn, s["lhs"][0])
                if not e:
                    continue
                t_t, f_t = e
                # edge on which `remaining >= c` holds
                if cb_ is not None:
                    enough = t_t if rv["op"] in ("Ge", "Gt") else f_t
                    bound = c if rv["op"] in ("Ge", "Lt") else c + 1
                else:
                    enough = t_t if rv["op"] in ("Le", "Lt") else f_t
                    bound = c if rv["op"] in ("Le", "Gt") else c + 1
                notenough = f_t if enough == t_t else t_t
                if b in fn.reachable_from(enough) and b not in fn.reachable_from(notenough, avoid={enough}) and fn.dominates(bb, b):
                    found = bound
                    if bound >= width:
                        ok = True
        ctx.ob("R01.7", f"load-width:{short(fn.id)}", ok, fn.loc(t["ln"]),
               f"the {width}-byte vector load of simd_str2int is dominated by a check that at least {found} bytes remain" if found is not None else
               f"no constant remaining-length check dominates the {width}-byte vector load of simd_str2int")


def r01_9(ctx):
    """`index() - k` (the position of a byte already consumed) is computed only where k bytes are known
    to have been consumed: the function was handed the consumed byte (a u8 parameter), or the
    subtraction sits on the Some-edge of the consuming call, or an eat(n >= k) dominates it."""
    prog = ctx.prog()
    from ..analysis import affine_of
    n = 0
    seen = collections.Counter()
    for f in prog.fns.values():
        if f.crate != "sonic_rs" or f.self_adt != PARSER:
            continue
        for b, i, s in f.assigns():
            rv = s["rv"]
            if not (rv["k"] == "binop" and rv["op"] in ("SubWithOverflow", "Sub")):
                continue
            la = op_local(rv["a"])
            k = op_int(rv["b"])
            if la is None:
                continue
            # the minuend is the reader index itself (through copies), an unsigned quantity
            sc = f.src(la)
            if not (sc[0] == "call" and callee_is(sc[2], "Reader::index")) or f.locals[la]["ty"] != "usize":
                continue
            n += 1
            seen[short(f.id)] += 1
            key = f"{short(f.id)}#{seen[short(f.id)]}"
            why = None
            if any(t == "u8" for t in f.inputs[1:]):
                why = "the function is handed the byte it has consumed (u8 parameter)"
            if why is None:
                # Some-edge of a consuming call
                for cb, ct in f.calls():
                    if callee_is(ct, "skip_space", "Reader::next") and f.dominates(cb, b):
                        re_ = result_edges(f, ct["dest"][0])
                        sws = discr_switches_on(f, ct["dest"][0])
                        for sb, st in sws:
                            edges = dict(switch_edges(f, sb))
                            some_t = edges.get(1)
                            none_t = edges.get(0, edges.get(None))
                            if some_t is not None and b in f.reachable_from(some_t) and b not in f.reachable_from(none_t, avoid={some_t}):
                                why = f"on the Some edge of {ct['callee'].rsplit('::', 1)[-1]}() (a byte was consumed)"
            if why is None:
                for cb, ct in f.calls():
                    if callee_is(ct, "Reader::eat") and f.dominates(cb, b) and len(ct["args"]) > 1:
                        af = affine_of(f, ct["args"][1])
                        c = op_int(ct["args"][1])
                        if (c is not None and k is not None and c >= k) or (af is not None and af[0] >= 0 and k is not None and af[1] >= k):
                            why = "dominated by eat(n) with n >= the subtracted constant"
            if why is None and k is not None:
                # guarded by a comparison of the index with a constant (index > k-1 / index >= k)
                from ..analysis import bool_switch_edges
                for bb, ii, ss in f.assigns():
                    r2 = ss["rv"]
                    if r2["k"] == "binop" and r2["op"] in ("Gt", "Ge") and op_int(r2["b"]) is not None and f.dominates(bb, b):
                        l1 = op_local(r2["a"])
                        if l1 is None:
                            continue
                        lv = backward_slice(f, [l1])[1]
                        if not any(lf[0] == "call" and callee_is(lf[2], "Reader::index") for lf in lv):
                            continue
                        bound = op_int(r2["b"]) + (1 if r2["op"] == "Gt" else 0)
                        e = bool_switch_edges(f, ss["lhs"][0])
                        if e and bound >= k and b in f.reachable_from(e[0]) and b not in f.reachable_from(e[1], avoid={e[0]}):
                            why = f"guarded by index() >= {bound}"
            ctx.ob("R01.9", key, why is not None, f.loc(s["ln"]),
                   f"index() - {k}: {why}" if why else f"index() - {k} is computed although no byte may have been consumed (empty input): arithmetic overflow panic in builds with overflow checks")
    ctx.floor("R01.9", "reader-index subtractions in the parser", n, 8)


def r01_10(ctx):
    """a count of outstanding work handed down by `&mut usize` is decremented by a run-time amount only
    under a guard (the slot group is still empty / a comparison with the amount) or with a saturating
    / checked subtraction: a document that repeats a key must not be counted twice"""
    prog = ctx.prog()
    n = 0
    for f in prog.fns.values():
        if f.crate != "sonic_rs" or f.self_adt != PARSER:
            continue
        counters = [i for i in range(1, f.argc + 1) if f.locals[i]["ty"] == "&mut usize"]
        if not counters:
            continue
        for b, i, s in f.assigns():
            rv = s["rv"]
            if not (rv["k"] == "binop" and rv["op"] in ("SubWithOverflow", "Sub") and op_int(rv["b"]) is None):
                continue
            pa = op_place(rv["a"])
            if pa is None:
                continue
            root = pa[0] if pa[1] else None
            la = op_local(rv["a"])
            is_counter = (root in counters and pa[1] == ["*"])
            if not is_counter and la is not None:
                sc = f.src(la)
                is_counter = sc[0] == "place" and sc[1][0] in counters and sc[1][1] == ["*"]
            if not is_counter:
                continue
            n += 1
            guard = None
            from ..analysis import option_test_edges
            for cb, ct, t_edge, f_edge, clo in option_test_edges(prog, f, ("is_none",)):
                if f.dominates(cb, b) and b in f.reachable_from(t_edge) and b not in f.reachable_from(f_edge, avoid={t_edge}):
                    guard = "the slot group is still empty (first member wins)"
            for cb, ct, t_edge, f_edge, clo in option_test_edges(prog, f, ("is_some",)):
                if clo is None and f.dominates(cb, b) and b in f.reachable_from(f_edge) and b not in f.reachable_from(t_edge, avoid={f_edge}):
                    guard = "the slot group is still empty (first member wins)"
            for bb, ii, ss in f.assigns():
                r2 = ss["rv"]
                if r2["k"] == "binop" and r2["op"] in ("Ge", "Gt", "Le", "Lt") and f.dominates(bb, b):
                    l1, l2 = op_local(r2["a"]), op_local(r2["b"])
                    if l1 is not None and l2 is not None:
                        s1 = backward_slice(f, [l1])[1]
                        s2 = backward_slice(f, [l2])[1]
                        if any(lf[0] == "place" and lf[1][0] in counters for lf in s1 + s2):
                            guard = guard or "a comparison of the counter with the amount"
            ctx.ob("R01.10", f"{short(f.id)}:counter-decrement", guard is not None, f.loc(s["ln"]),
                   f"the outstanding-work counter is decremented by a run-time amount under a guard: {guard}" if guard else
                   "the outstanding-work counter is decremented by a run-time amount without a guard: a document that repeats a key is counted twice and the subtraction overflows (panic)")
    ctx.floor("R01.10", "run-time decrements of a `&mut usize` work counter", n, 1)


def r01_11(ctx):
    """an offset measured over one text is applied to a reader over the same text: when the in-place
    parser is given a repaired (lossy) copy, the count it returns must be mapped back before eat()"""
    prog = ctx.prog()
    # the functions of the serde deserializer that run the in-place parser (deserialize_value, or the helper it was split into)
    hosts = []
    for hf, hb, ht in prog.callers_of(lambda t: callee_is(t, "parse_with_padding")):
        if hf.crate == "sonic_rs" and (hf.self_adt or "").endswith("serde::de::Deserializer") and hf not in hosts:
            hosts.append(hf)
    ctx.floor("R01.11", "functions of the serde deserializer calling parse_with_padding", len(hosts), 1)
    for f in hosts:
        _r01_11_in(ctx, prog, f)


def _r01_11_in(ctx, prog, f):
    pw = [(b, t) for b, t in f.calls() if callee_is(t, "parse_with_padding")]
    eats = [(b, t) for b, t in f.calls() if callee_is(t, "Reader::eat")]
    k = 0
    for b, t in pw:
        k += 1
        al = op_local(t["args"][1])
        sl, leaves = backward_slice(f, [al]) if al is not None else (set(), [])
        transformed = [lf[2]["callee"].rsplit("::", 1)[-1] for lf in leaves if lf[0] == "call" and callee_is(lf[2], "from_utf8_lossy", "to_vec", "to_owned", "replace", "to_string")]
        if not transformed:
            ctx.ob("R01.11", f"deserialize_value:parse#{k}", True, f.loc(t["ln"]), "the in-place parser is given the reader's own text: its end offset applies to the reader as is")
            continue
        # the count produced by this call must reach eat() only through a mapping that also sees the original text
        res = t["dest"][0]
        ok = False
        why = "the end offset measured over the repaired text is applied to the reader over the original text"
        for eb, et in eats:
            l = op_local(et["args"][1])
            if l is None:
                continue
            esl, eleaves = backward_slice(f, [l])
            for lf in eleaves:
                if lf[0] != "call" or lf[2] is t:
                    continue
                nm = lf[2]["callee"].rsplit("::", 1)[-1]
                if nm in ("branch", "from_residual", "from", "into", "unwrap", "expect"):
                    continue  # plumbing of `?`, not a mapping
                argl = [op_local(a) for a in lf[2]["args"]]
                takes_count = any(a is not None and res in (backward_slice(f, [a], through_calls=True)[0] | {a}) for a in argl)
                takes_text = False
                for a in argl:
                    if a is None:
                        continue
                    dsl, dleaves = backward_slice(f, [a], through_calls=False)
                    if any(x[0] == "call" and callee_is(x[2], "as_u8_slice") for x in dleaves) and res not in dsl:
                        takes_text = True
                if takes_count and takes_text:
                    ok = True
                    why = f"the count over the repaired text ({transformed[0]}) is mapped back through {nm}(original, n) before eat()"
        ctx.ob("R01.11", f"deserialize_value:parse#{k}", ok, f.loc(t["ln"]), why if ok else why + ": the reader index can pass the end of the input (panic in remain(), spurious EOF)")
        # the same holds for the position carried by an error: it counts the bytes of the repaired text
        re_ = None
        tb = [(bb, tt) for bb, tt in f.calls() if callee_is(tt, "branch") and op_local(tt["args"][0]) == res]
        re_ = result_edges(f, tb[0][1]["dest"][0]) if tb else result_edges(f, res)
        if re_ is None:
            ctx.ob("R01.11", f"deserialize_value:parse#{k}:error-position", False, f.loc(t["ln"]), "cannot find the error edge of the parse over the repaired text (fail closed)")
            continue
        err_blocks = f.reachable_from(re_[1]) | {re_[1]}
        mapped = False
        for bb, tt in f.calls():
            if bb not in err_blocks or tt["callee"].rsplit("::", 1)[-1] in ("from_residual", "branch", "from", "into"):
                continue
            for a in tt["args"]:
                la = op_local(a)
                if la is None:
                    continue
                dsl, dleaves = backward_slice(f, [la], through_calls=False)
                if any(x[0] == "call" and callee_is(x[2], "as_u8_slice") for x in dleaves):
                    mapped = True
        # combinator form: the Result goes through map_err(closure) before `?`, and the closure re-renders the error against
        # the original text it captured
        from ..analysis import upvar_parent_leaves
        for bb, tt in f.calls():
            if not callee_is(tt, "map_err") or not tt["args"] or op_local(tt["args"][0]) is None:
                continue
            a0 = op_local(tt["args"][0])
            if res not in (backward_slice(f, [a0])[0] | {a0}):
                continue
            for g in prog.closures_of(f):
                if not _closure_passed(f, tt, g):
                    continue
                for cb, ct in g.calls():
                    for a2 in ct["args"]:
                        la = op_local(a2)
                        if la is None:
                            continue
                        for lf in backward_slice(g, [la], through_calls=False)[1]:
                            if any(x[0] == "call" and callee_is(x[2], "as_u8_slice") for x in upvar_parent_leaves(prog, g, lf)):
                                mapped = True
        ctx.ob("R01.11", f"deserialize_value:parse#{k}:error-position", mapped, f.loc(t["ln"]),
               "an error of the parse over the repaired text is re-rendered against the original input before it is returned" if mapped else
               "an error of the parse over the repaired text is returned as is: its offset / line / column count the bytes of the repaired text and can lie behind the end of the input")


def _closure_passed(f, t, g):
    """is closure body g the closure value handed to call t of f (an argument built from g's closure aggregate)"""
    for a in t["args"]:
        la = op_local(a)
        if la is None:
            continue
        for x in backward_slice(f, [la])[0] | {la}:
            for d in f.defs.get(x, []):
                if d[0] == "stmt" and d[3]["rv"]["k"] == "agg" and d[3]["rv"].get("ak") == "closure" and d[3]["rv"].get("def") == g.id:
                    return True
    return False


def r01_12(ctx):
    """trailing_zeros() of a bitmap is used as an offset only where the bitmap is known to be non-zero
    (trailing_zeros(0) is the bit width: the cursor would jump over a byte that was never looked at)"""
    prog = ctx.prog()
    from ..analysis import bool_switch_edges
    n = 0
    seen = collections.Counter()
    for f in prog.fns.values():
        if f.crate != "sonic_rs":
            continue
        for b, t in f.calls():
            if not callee_is(t, "trailing_zeros"):
                continue
            n += 1
            l = op_local(t["args"][0])
            sl, _ = backward_slice(f, [l], through_calls=False) if l is not None else (set(), [])
            ok = False
            for bb, i, s in f.assigns():
                rv = s["rv"]
                if rv["k"] == "binop" and rv["op"] in ("Ne", "Eq") and (op_int(rv["b"]) == 0 or op_int(rv["a"]) == 0) and f.dominates(bb, b):
                    o = rv["a"] if op_int(rv["b"]) == 0 else rv["b"]
                    ol = op_local(o)
                    if ol is None:
                        continue
                    if not ((backward_slice(f, [ol], through_calls=False)[0] | {ol}) & (sl | {l})):
                        continue
                    e = bool_switch_edges(f, s["lhs"][0])
                    if not e:
                        continue
                    nz = e[0] if rv["op"] == "Ne" else e[1]
                    z = e[1] if rv["op"] == "Ne" else e[0]
                    if b in f.reachable_from(nz) and b not in f.reachable_from(z, avoid={nz}):
                        ok = True
            if not ok and f.parent_fn and f.parent_fn in prog.fns:
                # `(bits != 0).then(|| bits.trailing_zeros())`: the closure runs only when the receiver of bool::then is true,
                # and the receiver is the non-zero test of the captured bitmap
                from ..analysis import upvar_parent_leaves
                par = prog.fns[f.parent_fn]
                cap = set()
                for lf in backward_slice(f, [l])[1] if l is not None else []:
                    for x in upvar_parent_leaves(prog, f, lf):
                        pass
                    if lf[0] == "place" and lf[1][0] == 1:
                        ks = [e[1] for e in lf[1][1] if isinstance(e, list) and e[0] == "."]
                        for pb, pi, ps in par.assigns():
                            prv = ps["rv"]
                            if prv["k"] == "agg" and prv.get("ak") == "closure" and prv.get("def") == f.id and ks and ks[0] < len(prv["f"]) and op_place(prv["f"][ks[0]]) is not None:
                                cl = op_place(prv["f"][ks[0]])[0]
                                cap |= backward_slice(par, [cl], through_calls=False)[0] | {cl}
                for pb, pt in par.calls():
                    if callee_is(pt, "then") and "bool" in pt["callee"] and _closure_passed(par, pt, f):
                        rl = op_local(pt["args"][0])
                        d = par.single_def(rl) if rl is not None else None
                        for _ in range(4):
                            if d and d[0] == "stmt" and d[3]["rv"]["k"] == "use" and op_local(d[3]["rv"]["op"]) is not None:
                                d = par.single_def(op_local(d[3]["rv"]["op"]))
                        if d and d[0] == "stmt" and d[3]["rv"]["k"] == "binop" and d[3]["rv"]["op"] == "Ne" and 0 in (op_int(d[3]["rv"]["a"]), op_int(d[3]["rv"]["b"])):
                            o = d[3]["rv"]["a"] if op_int(d[3]["rv"]["b"]) == 0 else d[3]["rv"]["b"]
                            ol = op_local(o)
                            if ol is not None and ((backward_slice(par, [ol], through_calls=False)[0] | {ol}) & cap):
                                ok = True
            seen[short(f.id)] += 1
            ctx.ob("R01.12", f"{short(f.id)}#{seen[short(f.id)]}", ok, f.loc(t["ln"]),
                   "trailing_zeros() is taken on the non-zero edge of a test of the same bitmap" if ok else
                   "trailing_zeros() of a bitmap that may be zero is used as an offset: for an all-clear bitmap the cursor advances by the bit width plus one and skips a byte unseen")
    ctx.floor("R01.12", "trailing_zeros sites", n, 6)


MUST_PROVE = (
    # (function, obligation kind, regex on the description, sites discharged today, why it matters)
    ("Parser::do_skip_number", "sub", r"^Sub\(32,", 1, "bytes left in the 32-lane block after the fraction's first digit: an underflow eats 2^64-k bytes"),
    ("Parser::do_skip_number", "shift-upper", r"^wrapping_shr\(", 1, "the non-digit mask is shifted by the lanes already consumed: >= 32 wraps and re-reads old lanes"),
    ("Parser::skip_space", "shift-upper", r"^Shl\(1,", 1, "the cached non-space bitmap is masked by 1 << offset: 64 overflows"),
    ("Parser::skip_space", "BoundsCheck", r"<64\)$", 1, "index of the first non-space lane in the 64-byte block"),
    ("Parser::get_from_array", "sub", r",1\)$", 1, "the element countdown stops at zero"),
    ("Parser::get_from_array_checked", "sub", r",1\)$", 1, "the element countdown stops at zero"),
    ("parser::skip_container_loop", "sub", r",1\)$", 2, "the open-bracket balance is decremented only while positive"),
    ("error::Error::syntax", "sub", r",1\)$", 1, "the snippet window start is decremented only while positive"),
    ("util::utf8::lossy_offset_to_origin", "sub", r",3\)$", 1, "a replacement character is removed from the lossy offset only when 3 bytes are there"),
    ("value::array::Array::swap_remove", "sub", r",1\)$", 1, "len - 1 is taken after the index < len test"),
    ("util::unicode::hex_to_u32_nocheck", "BoundsCheck", r"<886\)$", 4, "the four 256-entry hex digit tables live in one 886-entry array at offsets 0/210/420/630 and are indexed by offset + byte"),
    ("RawFloat>::pow10_fast_path", "BoundsCheck", r"<(16|32)\)$", 2, "the exact power-of-ten tables are indexed by exponent & (len-1)"),
    ("decimal::Decimal::left_shift", "BoundsCheck", r"<768\)$", 2, "digit writes are guarded by write_index < MAX_DIGITS"),
    ("decimal::Decimal::right_shift", "BoundsCheck", r"<768\)$", 1, "digit writes are guarded by write_index < MAX_DIGITS"),
    ("decimal::Decimal::round", "BoundsCheck", r"<768\)$", 2, "the rounding digit is read only when decimal_point < num_digits <= MAX_DIGITS"),
    ("decimal::number_of_digits_decimal_left_shift", "BoundsCheck", r"<65\)$", 2, "the shift table is indexed by shift & 63 and shift + 1"),
    ("lemire::compute_float", "shift-upper", r"^Shl\(", 1, "the significand is normalised by its own leading_zeros after the w == 0 exit"),
    ("lemire::compute_product_approx", "shift-upper", r"^Shr\(", 1, "the precision mask shift is guarded by precision < 64"),
    ("sonic_number::parse_float_fast", "BoundsCheck", r"<23\)$", 2, "POW10_FLOAT[exp10] on the exp10 <= 22 edges"),
    ("sonic_number::parse_float_fast", "sub", r",22\)$", 1, "exp10 - 22 on the exp10 > 22 edge"),
)


# matching sites that are neither discharged nor control-dependent on a test of their operands on the audited tree
# (their safety rests on a caller's guard or a data-structure invariant; not claimed)
MUST_PROVE_UNGUARDED = {
    # digits[read_index] in the first loop: read_index counts down from num_digits, which is <= MAX_DIGITS by the type's
    # invariant (documented in Decimal::trim); `read_index != 0` only ends the loop, it does not bound the index
    ("decimal::Decimal::left_shift", "BoundsCheck", r"<768\)$"): 1,
}


def r01_13(ctx, crates=("sonic_rs", "sonic_number"), floor=40):
    """interval abstract interpretation: arithmetic/index checks that today's guards discharge stay discharged,
    and no check is violated by a bound the program itself establishes"""
    from ..intervals import obligations, guard_present
    prog = ctx.prog()
    tally = collections.Counter()
    per_fn = {}
    nfn = 0
    for f in prog.fns.values():
        if f.crate not in crates:
            continue
        try:
            obs = obligations(f)
        except RuntimeError as e:
            ctx.ob("R01.13", f"converges:{short(f.id)}", False, f.loc(), str(e))
            continue
        if not obs:
            continue
        nfn += 1
        per_fn[f.id] = (f, obs)
        seen = collections.Counter()
        for o in obs:
            tally[(o["kind"], o["verdict"])] += 1
            if o["verdict"] == "exceeds":
                seen[(o["kind"], o["desc"])] += 1
                ctx.ob("R01.13", f"exceeds:{short(f.id)}:{o['kind']}:{o['desc']}#{seen[(o['kind'], o['desc'])]}", False, f.loc(o["ln"]),
                       f"{o['kind']} {o['desc']}: {o['detail']} - the bounds established by the function's own constants and guards allow the failing case "
                       "(debug builds panic; release builds wrap or index out of range)")
    proved = sum(v for (k, vd), v in tally.items() if vd == "proved")
    ctx.ob("R01.13", "no-check-exceeded", not any(vd == "exceeds" for (k, vd) in tally), "",
           f"{nfn} bodies with arithmetic/index obligations: " + ", ".join(f"{k}:{vd}={v}" for (k, vd), v in sorted(tally.items())) +
           " (unknown = no bound available, nothing claimed)")
    ctx.floor("R01.13", "obligations discharged by the interval analysis", proved, floor)
    for fname, kind, rx, want, why in MUST_PROVE:
        in_number = fname.startswith(("decimal::", "lemire::", "sonic_number::", "RawFloat"))
        if ("sonic_number" if in_number else "sonic_rs") not in crates:
            continue
        cands = [(f, obs) for fid, (f, obs) in per_fn.items() if norm_path(fid).endswith(fname)]
        sites = [(f, o) for f, obs in cands for o in obs if o["kind"] == kind and re.search(rx, o["desc"])]
        key = f"must-prove:{fname}:{kind}:{rx}"
        if not sites:
            # the operation itself is gone (e.g. a countdown rewritten as a range iterator): nothing left to discharge.  A
            # function that disappeared altogether is still reported: the audited table has to follow a rename
            exists = [f2 for f2 in prog.fns.values() if f2.crate in crates and norm_path(f2.id).endswith(fname)]
            ctx.ob("R01.13", key, bool(exists), exists[0].loc() if exists else "",
                   f"no {kind} obligation matching {rx} is left in {fname}: nothing to discharge" if exists else f"anchor not found: function {fname} of the audited table does not exist any more ({why})", nontrivial=False)
            continue
        good = [(f, o) for f, o in sites if o["verdict"] == "proved"]
        # a site the intervals cannot decide, but which is control-dependent on a test of the same values: a guard
        # written in an idiom the engine does not model is not reported (only a weakened or missing guard is)
        soft = [(f, o) for f, o in sites if o["verdict"] == "unknown" and guard_present(f, o["b"], o.get("ops") or [])]
        bad = [(f, o) for f, o in sites if o["verdict"] != "proved" and (f, o) not in soft]
        max_bad = MUST_PROVE_UNGUARDED.get((fname, kind, rx), 0)
        # the audited count is informational: a re-write may leave fewer such operations (a checked accessor has no
        # bounds assertion to discharge); what must not happen is that one of those that exist loses its guard
        ok = len(bad) <= max_bad and not any(o["verdict"] == "exceeds" for f, o in sites)
        f0, o0 = (bad if (bad and not ok) else sites)[0]
        ctx.ob("R01.13", key, ok, f0.loc(o0["ln"]),
               (f"{len(good)} site(s) discharged by the guards in the function" + (f", e.g. {good[0][1]['desc']}: {good[0][1]['detail']}" if good else "") +
                (f"; {len(soft)} guarded by a test the interval engine does not model" if soft else "") if ok else
                f"{len(good)} discharged + {len(soft)} otherwise guarded of the {want} sites discharged on the audited tree, {len(bad)} unguarded (audited: {max_bad}); {o0['desc']}: {o0['detail']} ({o0['verdict']})") + f" - {why}")


def _sym(fn, o, depth=0):
    """operand as base + constant, base = ('param', n) | ('local', l) | ('call', bb); None if not of that shape"""
    c = op_int(o)
    if c is not None:
        return (None, c)
    p = op_place(o)
    if p is None or depth > 20:
        return None
    l, proj = p
    if proj and not (len(proj) == 1 and isinstance(proj[0], list) and proj[0][0] == "." and proj[0][2] == "0"):
        return None
    if 1 <= l <= fn.argc and not fn.defs.get(l):
        return (("param", l), 0)
    d = fn.single_def(l)
    if d is None:
        return (("local", l), 0)
    if d[0] == "call":
        return (("call", d[1]), 0)
    rv = d[3]["rv"]
    if rv["k"] == "use" or (rv["k"] == "cast" and rv.get("ck") == "IntToInt"):
        return _sym(fn, rv["op"], depth + 1)
    if rv["k"] == "binop" and rv["op"].replace("WithOverflow", "") in ("Add", "Sub"):
        x, y = _sym(fn, rv["a"], depth + 1), _sym(fn, rv["b"], depth + 1)
        if x is None or y is None:
            return None
        sign = 1 if rv["op"].startswith("Add") else -1
        if y[0] is None:
            return (x[0], x[1] + sign * y[1])
        if x[0] is None and sign == 1:
            return (y[0], x[1] + y[1])
    return None


def _at_most_len(prog, fn, l, depth=0):
    """is the usize in local l at most the length of a slice by construction?  len() itself; min(a, b) with one side so
    bounded; a search (`find`) in a numeric range whose end is so bounded (Range / RangeInclusive, forwards or reversed);
    unwrap_or(x, d) with both so bounded; a copy of such a value; the result of a private helper all of whose results are
    so bounded (the helper's slice is its own parameter)"""
    if l is None or depth > 8:
        return False
    ds = fn.defs.get(l, [])
    if not ds:
        return False
    for d in ds:
        if d[0] == "stmt":
            rv = d[3]["rv"]
            if rv["k"] == "use" and op_local(rv["op"]) is not None:
                if not _at_most_len(prog, fn, op_local(rv["op"]), depth + 1):
                    return False
                continue
            if rv["k"] == "use" and op_place(rv["op"]) is not None:
                # a field of an Option / Range local: look at the aggregate or call that made it
                if not _at_most_len(prog, fn, op_place(rv["op"])[0], depth + 1):
                    return False
                continue
            if rv["k"] == "agg" and ("ops::range::Range" in (rv.get("adt") or "")):
                endo = rv["f"][-1]
                if not (op_local(endo) is not None and _at_most_len(prog, fn, op_local(endo), depth + 1)):
                    return False
                continue
            if rv["k"] == "agg" and rv.get("variant") == "Some" and rv["f"] and op_local(rv["f"][0]) is not None:
                if not _at_most_len(prog, fn, op_local(rv["f"][0]), depth + 1):
                    return False
                continue
            return False
        t = d[2]
        nm = t["callee"].rsplit("::", 1)[-1]
        args = [op_local(a) for a in t["args"]]
        if nm == "len" and ("slice" in t["callee"] or "[T]" in t["callee"] or "Vec" in t["callee"]):
            continue
        if nm == "min" and len(args) == 2:
            if any(a is not None and _at_most_len(prog, fn, a, depth + 1) for a in args):
                continue
            return False
        if nm in ("unwrap_or", "new", "rev", "into_iter", "by_ref", "copied") and args:
            if all((a is not None and _at_most_len(prog, fn, a, depth + 1)) or op_int(t["args"][i]) == 0 for i, a in enumerate(args)):
                continue
            return False
        if nm in ("find", "rfind", "next", "next_back", "last", "max", "min_by_key") and args and "Iterator" in (t.get("trait") or t["callee"]):
            # values yielded by a numeric range lie inside it
            a0 = args[0]
            src = a0
            for _ in range(4):       # &mut range -> range
                dd = fn.single_def(src) if src is not None else None
                if dd and dd[0] == "stmt" and dd[3]["rv"]["k"] in ("ref", "rawptr"):
                    src = dd[3]["rv"]["p"][0]
                else:
                    break
            if src is not None and _at_most_len(prog, fn, src, depth + 1):
                continue
            return False
        g = prog.fns.get(t["callee"])
        if g is not None and g.crate == "sonic_rs" and depth < 3:
            if _at_most_len(prog, g, 0, depth + 1):
                continue
        return False
    return True


def r01_4b(ctx):
    """the snippet of an error message is cut out of the input with a range whose end is provably inside the input: every
    value given to the range end is len() itself, or the very expression that a dominating comparison showed to be <= len()
    (respectively one more than an expression shown to be < len())"""
    prog = ctx.prog()
    f = prog.find("error::Error::syntax")
    rng = [(b, i, st) for b, i, st in f.assigns() if st["rv"]["k"] == "agg" and "ops::range::Range" in (st["rv"].get("adt") or "")]
    if len(rng) != 1:
        ctx.ob("R01.4b", "snippet-range", False, f.loc(), f"expected one Range construction in Error::syntax, found {len(rng)} (fail closed)")
        return
    eo = rng[0][2]["rv"]["f"][1]
    E = op_local(eo)
    for _ in range(6):
        d = f.single_def(E) if E is not None else None
        if d and d[0] == "stmt" and d[3]["rv"]["k"] == "use" and op_local(d[3]["rv"]["op"]) is not None:
            E = op_local(d[3]["rv"]["op"])
        else:
            break
    # the window may be computed by a private helper that returns (start, end): the analysis moves into the helper, to the
    # local it returns in that position
    for _ in range(2):
        d = f.single_def(E) if E is not None else None
        pl = op_place(d[3]["rv"]["op"]) if d and d[0] == "stmt" and d[3]["rv"]["k"] == "use" else None
        if pl is None or not pl[1]:
            break
        ks = [e[1] for e in pl[1] if isinstance(e, list) and e[0] == "."]
        td = f.single_def(pl[0])
        h = prog.fns.get(td[2]["callee"]) if td and td[0] == "call" else None
        if h is None or h.crate != "sonic_rs" or len(ks) != 1:
            break
        tup = [st for b, i, st in h.assigns() if st["lhs"] == [0, []] and st["rv"]["k"] == "agg" and len(st["rv"].get("f", [])) > ks[0]]
        if len(tup) != 1 or op_local(tup[0]["rv"]["f"][ks[0]]) is None:
            break
        f, E = h, op_local(tup[0]["rv"]["f"][ks[0]])
        for _ in range(6):
            d2 = f.single_def(E)
            if d2 and d2[0] == "stmt" and d2[3]["rv"]["k"] == "use" and op_local(d2[3]["rv"]["op"]) is not None:
                E = op_local(d2[3]["rv"]["op"])
            else:
                break
    defs = [(b, i, st) for b, i, st in f.assigns() if st["lhs"] == [E, []]]
    if not defs and E is not None and _at_most_len(prog, f, E):
        # the end is computed by an expression / a helper whose every result is bounded by the slice length by construction
        ctx.ob("R01.4b", "snippet-end#1", True, f.loc(), "end is built from len(), min(.., len()) and searches in ranges that end there: bounded by the input length by construction")
        return
    if not defs:
        ctx.ob("R01.4b", "snippet-end#1", False, f.loc(), "the end of the snippet range is computed by an expression that is not bounded by the input length by construction (len(), min(.., len()), a search in a range ending there): slicing the input panics when it lands behind the end")
        return
    lens = {b for b, t in f.calls() if callee_is(t, "len")}
    k = 0
    for b, i, st in defs:
        k += 1
        rv = st["rv"]
        v = None
        if rv["k"] == "use":
            v = _sym(f, rv["op"])
        elif rv["k"] == "binop" and rv["op"].replace("WithOverflow", "") in ("Add", "Sub"):
            x, y = _sym(f, rv["a"]), _sym(f, rv["b"])
            sign = 1 if rv["op"].startswith("Add") else -1
            if x is not None and y is not None and y[0] is None:
                v = (x[0], x[1] + sign * y[1])
            elif x is not None and y is not None and x[0] is None and sign == 1:
                v = (y[0], x[1] + y[1])
        ok = False
        how = "the assigned value is not of the form base + constant"
        # x.min(len()) / min(x, len()) is bounded by construction
        if rv["k"] == "use" and op_local(rv["op"]) is not None:
            srcv = f.src(op_local(rv["op"]))
            if srcv[0] == "call" and callee_is(srcv[2], "min") and len(srcv[2]["args"]) == 2:
                for a2 in srcv[2]["args"]:
                    l2 = op_local(a2)
                    s2 = f.src(l2) if l2 is not None else ("multi",)
                    if s2[0] == "call" and callee_is(s2[2], "len"):
                        ok, how = True, "end = min(.., len())"
        if ok:
            pass
        elif v is not None:
            if v[0] is not None and v[0][0] == "call" and v[0][1] in lens and v[1] == 0:
                ok, how = True, "end = len()"
            else:
                how = f"no dominating comparison of that expression with len()"
                for bb, ii, ss in f.assigns():
                    r2 = ss["rv"]
                    if not (r2["k"] == "binop" and r2["op"] in ("Lt", "Le", "Gt", "Ge")) or not f.dominates(bb, b):
                        continue
                    sa, sb_ = _sym(f, r2["a"]), _sym(f, r2["b"])
                    if sa is None or sb_ is None:
                        continue
                    a_len = sa[0] is not None and sa[0][0] == "call" and sa[0][1] in lens and sa[1] == 0
                    b_len = sb_[0] is not None and sb_[0][0] == "call" and sb_[0][1] in lens and sb_[1] == 0
                    if a_len == b_len:
                        continue
                    x = sb_ if a_len else sa
                    op = r2["op"] if b_len else {"Lt": "Gt", "Gt": "Lt", "Le": "Ge", "Ge": "Le"}[r2["op"]]  # x op len
                    from ..analysis import bool_switch_edges
                    e = bool_switch_edges(f, ss["lhs"][0])
                    if not e:
                        continue
                    t_edge, f_edge = e
                    on_true = b == t_edge or (f.dominates(t_edge, b) and b not in f.reachable_from(f_edge, avoid={t_edge}))
                    on_false = b == f_edge or (f.dominates(f_edge, b) and b not in f.reachable_from(t_edge, avoid={f_edge}))
                    slack = None
                    if on_true and op == "Lt" or on_false and op == "Ge":
                        slack = 1    # x < len
                    elif on_true and op == "Le" or on_false and op == "Gt":
                        slack = 0    # x <= len
                    if slack is not None and x[0] == v[0] and v[1] <= x[1] + slack:
                        ok, how = True, f"end = {'x' if slack == 0 else 'x + 1'} on the edge where x {'<=' if slack == 0 else '<'} len()"
        ctx.ob("R01.4b", f"snippet-end#{k}", ok, f.loc(st.get("ln")), how if ok else
               f"the end of the snippet range is assigned a value that no dominating comparison bounds by len() ({how}): slicing the input panics when it lands behind the end")


BUF_READERS = ("is_empty", "len", "capacity", "as_ptr", "as_slice", "deref", "as_ref")


def _buf_root(fn, l):
    """where a `&mut Vec` operand comes from: ('param', n) | ('local', l) | None"""
    sl, leaves = backward_slice(fn, [l]) if l is not None else (set(), [])
    ps = [lf[1] for lf in leaves if lf[0] == "param" and "Vec<" in fn.locals[lf[1]]["ty"]]
    if ps:
        return ("param", ps[0])
    for x in sl | ({l} if l is not None else set()):
        if "Vec<" in fn.locals[x]["ty"] and not fn.locals[x]["ty"].startswith("&"):
            return ("local", x)
    return None


def _writers_reaching(fn, root, site_block):
    """calls that may write the buffer and from which the call site can be reached without passing a clear()"""
    clears = set()
    writers = []
    for b, t in fn.calls():
        for i, a in enumerate(t["args"]):
            l = op_local(a)
            if l is None or not (t.get("argtys") or [""] * 9)[i].startswith("&mut") or "Vec<" not in (t.get("argtys") or [""] * 9)[i]:
                continue
            if _buf_root(fn, l) != root:
                continue
            nm = t["callee"].rsplit("::", 1)[-1]
            if nm == "clear":
                clears.add(b)
            elif nm not in BUF_READERS:
                writers.append((b, t))
    out = []
    for b, t in writers:
        if b == site_block:
            continue
        nxt = fn.succs(b)
        if any(site_block == x or site_block in fn.reachable_from(x, avoid=clears) for x in nxt if x not in clears):
            out.append(t)
    return out


def r01_15(ctx):
    """an assertion that a scratch buffer handed in by the caller is empty holds on every call path: the buffer is freshly
    created or cleared on every path to every (transitive) call site - interprocedural typestate over `&mut Vec` parameters"""
    prog = ctx.prog()
    sites = []
    for f in prog.fns.values():
        if f.crate != "sonic_rs":
            continue
        for b, t in f.calls():
            if "core::panicking::panic" not in t["callee"] or f.d["blocks"][b].get("cleanup"):
                continue
            # the panic is the failing side of a test of is_empty() on a &mut Vec parameter
            for cb, ct in f.calls():
                if callee_is(ct, "is_empty") and "Vec" in ct["callee"] and f.dominates(cb, b):
                    from ..analysis import bool_switch_edges
                    e = bool_switch_edges(f, ct["dest"][0])
                    if e and (b == e[1] or (f.dominates(e[1], b) and b not in f.reachable_from(e[0], avoid={e[1]}))):
                        root = _buf_root(f, op_local(ct["args"][0]))
                        if root and root[0] == "param":
                            sites.append((f, root[1], t))
    bad = []
    for f, p, t in sites:
        seen = set()
        work = [(f, p, [short(f.id)])]
        while work:
            g, q, path = work.pop()
            if (g.id, q) in seen or len(path) > 6:
                continue
            seen.add((g.id, q))
            for h, hb, ht in prog.callers_of(lambda tt, gid=g.id: tt.get("callee") == gid):
                if len(ht["args"]) < q:
                    continue
                a = op_local(ht["args"][q - 1])
                root = _buf_root(h, a)
                if root is None:
                    continue
                ws = _writers_reaching(h, root, hb)
                if ws:
                    bad.append((f, t, h, ws[0], path))
                elif root[0] == "param":
                    work.append((h, root[1], path + [short(h.id)]))
    keys = collections.Counter()
    for f, t, h, w, path in bad:
        k = f"{short(f.id)}<-{short(h.id)}"
        keys[k] += 1
        if keys[k] > 1:
            continue
        ctx.ob("R01.15", f"asserted-empty:{k}", False, f.loc(t["ln"]),
               f"{short(f.id)} asserts that its scratch buffer is empty, but on the path {' <- '.join(path)} <- {short(h.id)} the buffer was handed to {w['callee'].rsplit('::', 1)[-1]}() (line {w['ln']}) and not cleared: the assertion fails in builds with debug assertions (a panic on well-formed input)")
    ctx.ob("R01.15", "asserted-empty-buffers-hold", not bad, "", f"{len(sites)} assertion(s) that a caller-supplied scratch buffer is empty; every transitive call site passes a fresh or cleared buffer" if not bad else f"{len(bad)} call path(s) reach an emptiness assertion with a written buffer")


def r01_16(ctx):
    """a raw write into the spare capacity of a Vec is preceded by a reserve of at least its extent: the UTF-8 encoder
    writes up to the largest length it can return (evaluated by the interval engine), so every caller that points it at
    `as_mut_ptr().add(len())` of a Vec reserves at least that many bytes on every path, before set_len"""
    from ..intervals import Intervals
    prog = ctx.prog()
    enc = prog.find("util::unicode::codepoint_to_utf8")
    iv = Intervals(enc)
    hi = 0
    for b in enc.return_blocks:
        st = iv.before_term(b)
        v = iv.get(st, (0, ())) if st is not None else None
        if v is None:
            hi = None
            break
        hi = max(hi, v[1])
    if hi is None or not (1 <= hi <= 8):
        # the length may be selected together with the bytes (`let (buf, len) = match cp {..}`): every definition that
        # reaches the returned value is a constant
        sl, leaves = backward_slice(enc, [0])
        cs = [op_int(lf[1]) for lf in leaves if lf[0] == "const"]
        if leaves and all(lf[0] == "const" for lf in leaves) and all(c is not None for c in cs):
            hi = max(cs)
    known = hi is not None and 1 <= hi <= 8
    ctx.ob("R01.16", "encoder:extent", True, enc.loc(), f"codepoint_to_utf8 returns (and writes) at most {hi} bytes" if known else
           "the largest length codepoint_to_utf8 can return is not bounded by the engine: the reserve clause is not decided", nontrivial=False)
    if not known:
        return
    n = 0
    for f in prog.fns.values():
        if f.crate != "sonic_rs":
            continue
        for b, t in f.calls():
            if t.get("callee") != enc.id:
                continue
            pl = op_local(t["args"][1])
            sl, leaves = backward_slice(f, [pl]) if pl is not None else (set(), [])
            vecptr = [lf for lf in leaves if lf[0] == "call" and callee_is(lf[2], "as_mut_ptr") and "Vec" in lf[2]["callee"]]
            if not vecptr:
                continue
            n += 1
            res = [(rb, rt) for rb, rt in f.calls() if callee_is(rt, "reserve") and "Vec" in rt["callee"] and f.dominates(rb, b) and rb != b]
            amounts = [op_int(rt["args"][1]) for rb, rt in res]
            ok = bool(res) and any(a is not None and a >= hi for a in amounts)
            owner = prog.fns.get(f.parent_fn, f) if f.parent_fn else f
            ctx.ob("R01.16", f"reserve-before-raw-write:{short(owner.id)}", ok, f.loc(t["ln"]),
                   f"reserve({max(a for a in amounts if a is not None)}) dominates the raw write of up to {hi} bytes" if ok else
                   f"the encoder writes up to {hi} bytes behind len() of the Vec, but the dominating reserve is {amounts or 'missing'}: a four-byte code point (a decoded surrogate pair) is written past the allocation")
    # a decoder that appends through the Vec's own API (extend_from_slice) has no raw write left to cover
    ctx.ob("R01.16", "raw-write-sites", True, "", f"{n} raw encoder write(s) into a Vec's spare capacity", nontrivial=False)


def r01_17(ctx):
    """a byte offset belongs to the text it was measured in: a string obtained from `from_utf8_lossy` (every invalid byte
    became a 3-byte U+FFFD) is never cut at an offset that comes from somewhere else - `split_at`, range indexing and
    `get(range)` on it panic or cut inside a character when the offset was measured in the original bytes"""
    prog = ctx.prog()
    n = 0
    seen = collections.Counter()
    CUT = ("split_at", "split_at_mut", "split_at_checked", "index", "index_mut", "get", "get_mut", "get_unchecked", "is_char_boundary", "split_off", "truncate", "drain", "replace_range", "insert_str", "insert")
    for f in prog.fns.values():
        if f.crate != "sonic_rs":
            continue
        lossy = [(b, t) for b, t in f.calls() if callee_is(t, "from_utf8_lossy")]
        if not lossy:
            continue
        n += 1
        der = {t["dest"][0] for b, t in lossy}
        for _ in range(6):
            der |= forward_derived(f, der)
            for b, t in f.calls():
                if t["args"] and op_local(t["args"][0]) in der and t["callee"].rsplit("::", 1)[-1] in ("deref", "as_ref", "as_str", "borrow", "as_mut_str", "deref_mut", "to_string", "into_owned", "to_owned", "clone", "as_bytes"):
                    der.add(t["dest"][0])
            for b, i, s_ in f.assigns():
                pl = op_place(s_["rv"]["op"]) if s_["rv"]["k"] == "use" else (s_["rv"]["p"] if s_["rv"]["k"] in ("ref", "rawptr") else None)
                if pl is not None and pl[0] in der and not s_["lhs"][1]:
                    der.add(s_["lhs"][0])
        for b, t in f.calls():
            nm = t["callee"].rsplit("::", 1)[-1]
            if nm not in CUT or not t["args"] or op_local(t["args"][0]) not in der or len(t["args"]) < 2:
                continue
            if not any(x in t["callee"] for x in ("str", "String", "[T]", "slice", "Vec")):
                continue
            # the cutting offset must itself come from the repaired text (its len / a search in it)
            ol = op_local(t["args"][1])
            sl, leaves = backward_slice(f, [ol]) if ol is not None else (set(), [])
            own = any(lf[0] == "call" and lf[2]["args"] and op_local(lf[2]["args"][0]) in der for lf in leaves)
            const = op_int(t["args"][1]) is not None or (leaves and all(lf[0] == "const" for lf in leaves))
            seen[short(f.id)] += 1
            ok = own or const
            ctx.ob("R01.17", f"{short(f.id)}#{seen[short(f.id)]}", ok, f.loc(t["ln"]),
                   "the repaired text is cut at an offset measured in itself" if ok else
                   f"the text repaired by from_utf8_lossy is cut by {nm} at an offset that was not measured in it: every invalid byte of the original has become three bytes there, the offset can land inside a character (panic) or elsewhere than meant")
    ctx.ob("R01.17", "functions-using-from_utf8_lossy", n >= 1, "", f"{n} function(s) of the crate repair text with from_utf8_lossy", nontrivial=False)


def r01_14(ctx):
    """data borrowed for 'de lives in the caller's buffer: a JsonInput implemented for a reference gives the reader either
    the borrowed bytes themselves or an owner that shares the caller's buffer.  The reader pins what it is given and
    hands out `&'de` data pointing into it; a FastStr clone copies an inlined (short) string, so wrapping a clone is
    allowed only under a test that the clone's bytes are the caller's bytes"""
    prog = ctx.prog()
    ims = [im for im in prog.impls if im["trait"] == "sonic_rs::input::JsonInput"]
    ctx.floor("R01.14", "impl JsonInput", len(ims), 5)
    for im in ims:
        f = prog.fns.get(im["methods"].get("to_json_slice", ""))
        ty = im["self_ty"]
        if f is None:
            ctx.ob("R01.14", f"to_json_slice:{ty}", False, "", "to_json_slice not found")
            continue
        if not ty.startswith("&"):
            continue
        aggs = [(b, i, s) for b, i, s in f.assigns() if s["rv"]["k"] == "agg" and s["rv"].get("adt", "").endswith("input::JsonSlice")]
        ok = bool(aggs)
        why = []
        for b, i, s in aggs:
            var = s["rv"].get("variant")
            if var == "Raw":
                # the borrowed bytes themselves
                l = op_local(s["rv"]["f"][0])
                sl, leaves = backward_slice(f, [l]) if l is not None else (set(), [])
                good = any(lf[0] == "param" and lf[1] == 1 for lf in leaves)
                why.append("borrows the caller's bytes" if good else "Raw slice not derived from self")
                ok = ok and good
                continue
            l = op_local(s["rv"]["f"][0])
            src = f.src(l) if l is not None else ("multi",)
            if src[0] == "call" and callee_is(src[2], "from_bytes_unchecked"):
                a = op_local(src[2]["args"][0])
                sa = f.src(a) if a is not None else ("multi",)
                good = sa[0] == "call" and callee_is(sa[2], "slice_ref", "clone") and "Bytes" in sa[2]["callee"]
                why.append("wraps a Bytes handle onto the caller's buffer (reference-counted, never inlined)" if good else "wraps bytes of unknown ownership")
                ok = ok and good
            elif src[0] == "call" and callee_is(src[2], "clone") and "FastStr" in src[2]["callee"]:
                # needs the same-buffer test
                guard = False
                tests = [(ss["lhs"][0], (ss["rv"]["a"], ss["rv"]["b"])) for bb, ii, ss in f.assigns() if ss["rv"]["k"] == "binop" and ss["rv"]["op"] == "Eq"]
                tests += [(tt["dest"][0], tuple(tt["args"][:2])) for bb, tt in f.calls() if callee_is(tt, "eq") and "ptr" in tt["callee"] and len(tt["args"]) >= 2]
                for res_local, operands in tests:
                    if True:
                        sides = []
                        for o in operands:
                            ol = op_local(o)
                            sl2, lv2 = backward_slice(f, [ol]) if ol is not None else (set(), [])
                            is_ptr = any(lf[0] == "call" and callee_is(lf[2], "as_ptr") for lf in lv2)
                            from_clone = any(lf[0] == "call" and lf[1] == src[1] for lf in lv2)
                            from_self = any(lf[0] == "param" and lf[1] == 1 for lf in lv2)
                            sides.append((is_ptr, from_clone, from_self))
                        if all(x[0] for x in sides) and any(x[1] for x in sides) and any(x[2] and not x[1] for x in sides):
                            from ..analysis import bool_switch_edges
                            e = bool_switch_edges(f, res_local)
                            if e and e[0] != e[1] and f.dominates(e[0], b):
                                guard = True
                why.append("wraps a FastStr clone under a same-buffer test" if guard else "wraps a FastStr clone unconditionally: an inlined string is copied, the reader's `&'de` results point into the copy and dangle once the reader is dropped")
                ok = ok and guard
            else:
                why.append("wraps an owner of unknown provenance")
                ok = False
        ctx.ob("R01.14", f"to_json_slice:{ty}", ok, f.loc(), "; ".join(why) or "no JsonSlice is built")


def r01_13x(ctx):
    """the interval obligations on the other targets the crate compiles for (SSE2 baseline, aarch64 NEON, a target without
    SIMD): thorough tier only"""
    if ctx.tier != "thorough":
        ctx.ob("R01.13x", "cross-target", True, "", "cross-target interval run: thorough tier only", nontrivial=False)
        return
    if ctx.default_config != "native":
        ctx.ob("R01.13x", "cross-target", True, "", "run once from the native pass", nontrivial=False)
        return
    keep = ctx.default_config
    for cfg in ("baseline", "aarch64", "nosimd"):
        n0 = len(ctx.obligations)
        ctx.default_config = cfg
        try:
            r01_13(ctx)
        finally:
            ctx.default_config = keep
        for o in ctx.obligations[n0:]:
            o["rule"] = "R01.13x"
            o["key"] = f"{cfg}:{o['key']}"
    ctx.violations = [o for o in ctx.obligations if not o["ok"]]


def r01_8(ctx):
    """no leak on an error path of the bitwise hand-over (shared with C16: R16.2)"""
    from .c16 import r16_2
    r16_2(ctx)
    for o in ctx.obligations:
        if o["rule"] == "R16.2":
            o["rule"] = "R01.8"


def r01_w(ctx):
    """type-level witnesses (compile_fail doctests with error codes, each with a compiling twin)"""
    from ..core import witness_obligations
    witness_obligations(ctx, "R01.W", [('W1ReaderSealed', 'Reader cannot be implemented outside the crate'), ('W2PaddedNotNameable', 'the over-reading reader cannot be named outside the crate')])


def r01_s(ctx):
    """no node of a copied-out document points into the caller's input (shared with C16: a dangling pointer is a memory-safety violation)"""
    from . import c16
    ctx.include(c16.r16_6, 'R01.S')
    from . import c18
    ctx.include(c18.r18_8, 'R01.S')  # a cached decoding taken back under &mut self leaves the cache empty (no double free in Drop)


RULES = [("R01.1", r01_1), ("R01.2", r01_2), ("R01.2b", r01_2b), ("R01.3", r01_3), ("R01.4", r01_4), ("R01.4b", r01_4b), ("R01.5", r01_5), ("R01.6", r01_6), ("R01.7", r01_7), ("R01.8", r01_8), ("R01.9", r01_9), ("R01.10", r01_10), ("R01.11", r01_11), ("R01.12", r01_12), ("R01.13", r01_13), ("R01.13x", r01_13x), ("R01.14", r01_14), ("R01.15", r01_15), ("R01.16", r01_16), ("R01.17", r01_17), ("R01.W", r01_w), ("R01.S", r01_s)]

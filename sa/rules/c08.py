"""C08 — numbers are written so that they read back identically: writer callees and raw-number validation."""
from ..facts import callee_is, op_local, op_place, op_int, FactError, norm_path
from ..analysis import forward_derived, backward_slice, result_edges, return_kinds
from .c01 import short
from . import c07

EXPLANATION = (
    "Bit-identity of the round trip is a run-time property.  Decides: (R08.1) every integer writer of "
    "every Formatter formats with itoa::Buffer::format on the value of its own width and every float "
    "writer with ryu::Buffer::format_finite (shortest round-trip), writing exactly the returned text; "
    "(R08.2) a raw number is always validated: RawNumber is constructed only in RawNumber::new / "
    "from_faststr, whose callers are the visitor behind deserialize_rawnumber and the DOM/lazy accessors "
    "over text that came from skip_number; in deserialize_rawnumber both the bare and the quoted arm pass "
    "the validating skip_number before the hand-over and the quoted arm requires the closing quote; "
    "RAWNUM nodes are created only by the raw-number visitor methods; (R08.3) the reader side keeps the "
    "sign of zero and every float result depends on the sign (= R07.3), so -0.0 written by ryu reads back "
    "as -0.0. Does NOT decide correct rounding of the reader (C07) nor ryu/itoa themselves."
)
ASSUMPTIONS = ["ryu::Buffer::format_finite prints the shortest decimal that round-trips; itoa::Buffer::format prints the exact integer", "rustc MIR and callee resolution"]

INT_W = ("write_i8", "write_i16", "write_i32", "write_i64", "write_i128", "write_u8", "write_u16", "write_u32", "write_u64", "write_u128")
FLT_W = ("write_f32", "write_f64")


def r08_1(ctx):
    prog = ctx.prog()
    n = 0
    for f in prog.fns.values():
        if f.crate != "sonic_rs" or f.name not in INT_W + FLT_W:
            continue
        tr = f.trait or f.trait_default or ""
        if not tr.endswith("format::Formatter"):
            continue
        n += 1
        want = "format_finite" if f.name in FLT_W else "format"
        crate = "ryu::" if f.name in FLT_W else "itoa::"
        # forwarding to a private generic helper of the file that formats its own parameter (`write_integer::<W, i8>(writer,
        # value)`): the helper is instantiated with this method's type, is handed this method's value, formats exactly that
        # parameter at the generic type and writes the text
        hs = [(b, t) for b, t in f.calls() if t["callee"] in prog.fns and prog.fns[t["callee"]].file == f.file and not prog.fns[t["callee"]].impl
              and any(tt["callee"].rsplit("::", 1)[-1] == want and crate in tt["callee"] for bb, tt in prog.fns[t["callee"]].calls())]
        if len(hs) == 1 and not any(tt["callee"].rsplit("::", 1)[-1] == want and crate in tt["callee"] for bb, tt in f.calls()):
            hb, ht = hs[0]
            h = prog.fns[ht["callee"]]
            ty0 = f.name.split("_", 1)[1]
            hfm = [(bb, tt) for bb, tt in h.calls() if tt["callee"].rsplit("::", 1)[-1] == want and crate in tt["callee"]]
            hwa = [(bb, tt) for bb, tt in h.calls() if callee_is(tt, "write_all")]
            okh = len(hfm) == 1 and len(hwa) == 1 and not (h.reachable_from(0, avoid={hfm[0][0]}) & set(h.return_blocks))
            if okh:
                vl = op_local(hfm[0][1]["args"][1])
                pidx = h.src(vl)[1] if vl is not None and h.src(vl)[0] == "param" else None
                # the value handed to the helper at that position is this method's own value parameter, uncast
                al = op_local(ht["args"][pidx - 1]) if pidx and pidx - 1 < len(ht["args"]) else None
                okh = al is not None and f.src(al)[0] == "param" and f.locals[f.src(al)[1]]["ty"] == ty0 and ty0 in (ht.get("rgargs") or ht.get("gargs") or [])
                sl, leaves = backward_slice(h, [op_local(hwa[0][1]["args"][1])]) if op_local(hwa[0][1]["args"][1]) is not None else (set(), [])
                okh = okh and hfm[0][1]["dest"][0] in sl
                okh = okh and not (f.reachable_from(0, avoid={hb}) & set(f.return_blocks))
            ctx.ob("R08.1", f"{short(f.id)}", okh, f.loc(), f"{f.name}: forwards its value to {h.name}::<{ty0}>, which writes {crate}Buffer::{want}(value)" if okh else f"{f.name} does not write exactly {crate}Buffer::{want}(value) of its own width")
            continue
        fm = [(b, t) for b, t in f.calls() if t["callee"].rsplit("::", 1)[-1] == want and crate in t["callee"]]
        wa = [(b, t) for b, t in f.calls() if callee_is(t, "write_all")]
        ok = len(fm) == 1 and len(wa) == 1
        # every path to a return goes through that one formatting call (or a delegation proved lossless below)
        has_other = any(t["callee"].rsplit("::", 1)[-1] in INT_W + FLT_W for b, t in f.calls())
        if ok and not has_other:
            ok = not (f.reachable_from(0, avoid={fm[0][0]}) & set(f.return_blocks))
        other = [(b, t) for b, t in f.calls() if t["callee"].rsplit("::", 1)[-1] in INT_W + FLT_W]
        delegated = set()
        if other:
            # a narrower sibling may be used where the value provably fits it: the cast feeding the call is value
            # preserving on that path (interval analysis of the guards)
            from ..intervals import Intervals, ty_range
            iv = Intervals(f)
            for b, t in other:
                tgt = t["callee"].rsplit("::", 1)[-1].split("_", 1)[1]
                a = op_local(t["args"][-1])
                d = f.single_def(a) if a is not None else None
                fits = False
                if d and d[0] == "stmt" and d[3]["rv"]["k"] == "cast" and d[3]["rv"].get("ck") == "IntToInt":
                    for bb, ii, ss in f.assigns():
                        if ss is d[3]:
                            v = iv.operand_at_stmt(bb, ii, ss["rv"]["op"])
                            r = ty_range(tgt)
                            src_l = op_local(ss["rv"]["op"])
                            from_value = src_l is not None and f.src(src_l)[0] == "param"
                            fits = bool(v and r and r[0] <= v[0] and v[1] <= r[1] and from_value)
                if fits:
                    delegated.add(b)
                else:
                    ok = False
            if ok and fm:
                ok = not (f.reachable_from(0, avoid={fm[0][0]} | delegated) & set(f.return_blocks))
            elif not fm:
                ok = False
        ty = f.name.split("_", 1)[1]
        if ok:
            # the formatted value is the method's own `value` parameter at its own width
            g = (fm[0][1].get("rgargs") or fm[0][1].get("gargs") or [])
            ok = ty in g
            vl = op_local(fm[0][1]["args"][1])
            ok = ok and vl is not None and f.src(vl)[0] == "param"
            # what is written is the formatted text
            al = op_local(wa[0][1]["args"][1])
            sl, leaves = backward_slice(f, [al]) if al is not None else (set(), [])
            ok = ok and fm[0][1]["dest"][0] in sl
        ctx.ob("R08.1", f"{short(f.id)}", ok, f.loc(), f"{f.name}: {crate}Buffer::{want}::<{ty}>(value) and the text it returns is what is written" if ok else f"{f.name} does not write exactly {crate}Buffer::{want}(value) of its own width")
    ctx.floor("R08.1", "number writers of Formatter", n, 12)


RAWNUM = "sonic_rs::serde::rawnumber::RawNumber"


def r08_2(ctx):
    prog = ctx.prog()
    builders = set()
    for f in prog.fns.values():
        for b, i, s in f.assigns():
            if s["rv"]["k"] == "agg" and s["rv"].get("adt") == RAWNUM:
                builders.add(f.id)
    ok = bool(builders) and all(prog.fns[x].name in ("new", "from_faststr", "clone") and (prog.fns[x].self_adt or "") == RAWNUM for x in builders)
    ctx.ob("R08.2", "construct:RawNumber", ok, "src/serde/rawnumber.rs", f"RawNumber is constructed only in {sorted(short(x) for x in builders)}")
    callers = prog.callers_of(lambda t: t.get("callee") in builders and not t["callee"].endswith("::clone"))
    allowed = ("visit_borrowed_str", "as_raw_number", "as_raw_number_mut", "to_raw_number", "from", "as_number")
    ctx.floor("R08.2", "callers of the RawNumber constructors", len(callers), 3)
    for f, b, t in callers:
        owner = prog.fns.get(f.parent_fn, f) if f.parent_fn else f
        okc = owner.name in allowed
        ctx.ob("R08.2", f"who-may-construct:{short(owner.id)}", okc, f.loc(t["ln"]), f"RawNumber built in {short(owner.id)}" + ("" if okc else ": not one of the validated sources (visitor behind deserialize_rawnumber, DOM/lazy raw-number accessors)"))
    dr = prog.find("Deserializer::deserialize_rawnumber")
    hand = [(b, t) for b, t in dr.calls() if callee_is(t, "visit_borrowed_str")]
    skips = {b for b, t in dr.calls() if callee_is(t, "skip_number")}
    ctx.ob("R08.2", "deserialize_rawnumber:arms", len(skips) >= 1 and len(hand) >= 1, dr.loc(), f"{len(skips)} validating skip_number calls (bare and quoted arm), {len(hand)} hand-over")
    if hand:
        hb = hand[0][0]
        esc = hb in dr.reachable_from(0, avoid=skips)
        ctx.ob("R08.2", "deserialize_rawnumber:validated-before-handover", not esc, dr.loc(hand[0][1]["ln"]), "every path to the hand-over passes the validating number skipper" if not esc else "the raw number can be handed over without passing skip_number")
        # errors of skip_number propagate
        prop = True
        for b, t in dr.calls():
            if callee_is(t, "skip_number"):
                tb = [(bb, tt) for bb, tt in dr.calls() if callee_is(tt, "branch") and op_local(tt["args"][0]) == t["dest"][0]]
                re_ = result_edges(dr, tb[0][1]["dest"][0]) if tb else result_edges(dr, t["dest"][0])
                if re_ is None or hb in dr.reachable_from(re_[1]):
                    prop = False
        ctx.ob("R08.2", "deserialize_rawnumber:skip-error-propagated", prop, dr.loc(), "an error of skip_number cannot reach the hand-over")
        # quoted arm: closing quote compared after the number
        q = []
        for b, i, s in dr.assigns():
            pass
        quote_tests = 0
        for b, t in dr.terms():
            if t["k"] == "switch" and t.get("dty") == "u8" and any(int(v) == 34 for v, _ in t["targets"]):
                quote_tests += 1
        for b, t in dr.calls():
            if callee_is(t, "ne", "eq"):
                for a in t["args"]:
                    cands = [a]
                    l = op_local(a)
                    if l is not None:
                        sl, leaves = backward_slice(dr, [l])
                        cands += [lf[1] for lf in leaves if lf[0] == "const"]
                    for c in cands:
                        bs = c.get("bytes") if isinstance(c, dict) else None
                        if op_int(c) == 34 or (bs and bytes.fromhex(bs)[-1:] == b'"' and "Option<u8>" in c.get("ty", "")):
                            quote_tests += 1
                            break
        consts34 = sum(1 for b, s, o in dr.const_operands() if op_int(o) == 34 and o.get("ty") == "u8")
        ctx.ob("R08.2", "deserialize_rawnumber:closing-quote", quote_tests >= 2 or consts34 >= 2, dr.loc(), f"the quoted arm tests the opening and the closing quote ({quote_tests} tests, {consts34} quote constants)")
    # RAWNUM nodes come only from the raw-number visitor methods
    tag = prog.const_int("Meta::RAWNUM_NODE")
    tagf = prog.const_int("Meta::RAWNUM_FASTSTR")
    users = set()
    for f in prog.fns.values():
        if f.crate != "sonic_rs":
            continue
        for b, s, o in f.const_operands():
            if o.get("def", "").endswith(("Meta::RAWNUM_NODE", "Meta::RAWNUM_FASTSTR")):
                if s.get("k") in ("call", "tailcall") or (s.get("k") == "assign" and s["rv"]["k"] in ("agg", "use")):
                    # passed as an argument / stored: a creation site (comparisons are reads)
                    if s.get("k") in ("call", "tailcall") and s["callee"].rsplit("::", 1)[-1] in ("pack_str", "pack_dom_node", "new", "pack_static_str"):
                        users.add(f.id)
    okm = bool(users) and all(prog.fns[x].name in ("visit_raw_number", "visit_borrowed_raw_number", "new_rawnum_faststr", "new_rawnum", "pack_str", "from") for x in users)
    ctx.ob("R08.2", "RAWNUM-nodes:creators", okm, "src/value/node.rs", f"RAWNUM-tagged nodes are created in {sorted(short(x) for x in users)}")
    # the parser calls those visitor methods only with skip_number output
    for name in ("parse_number_inplace", "parse_number_visit"):
        g = prog.find(f"Parser::{name}")
        vis = [(b, t) for b, t in g.calls() if t["callee"].rsplit("::", 1)[-1] in ("visit_raw_number", "visit_borrowed_raw_number")]
        sk = {b for b, t in g.calls() if callee_is(t, "skip_number")}
        okp = bool(vis) and bool(sk) and all(b not in g.reachable_from(0, avoid=sk) for b, t in vis)
        ctx.ob("R08.2", f"{name}:raw-after-skip_number", okp, g.loc(), "under use_rawnumber the text handed to the visitor has passed the validating skip_number")


def r08_3(ctx):
    c07.r07_3(ctx)
    for o in ctx.obligations:
        if o["rule"] == "R07.3":
            o["rule"] = "R08.3"


def r08_4(ctx):
    """128-bit integers are read back over their whole range: the text is parsed with its sign (the magnitude of
    i128::MIN does not fit an i128, so parse-then-negate rejects what the writer prints for i128::MIN)"""
    from ..analysis import forward_derived
    prog = ctx.prog()
    n = 0
    for f in prog.fns.values():
        if f.crate != "sonic_rs":
            continue
        for b, t in f.calls():
            if not (callee_is(t, "parse") and "str" in t["callee"]):
                continue
            g = t.get("rgargs") or t.get("gargs") or []
            if not any(x in ("i128", "i64", "i32", "i16", "i8", "isize") for x in g):
                continue
            n += 1
            cands = [(s["rv"]["a"], s) for bb, i, s in f.assigns() if s["rv"]["k"] == "unop" and s["rv"]["op"] == "Neg"]
            cands += [(tt["args"][0], tt) for bb, tt in f.calls() if tt["callee"].rsplit("::", 1)[-1] in ("neg", "wrapping_neg", "checked_neg", "overflowing_neg") and tt["args"]]
            negs = []
            for o, site in cands:
                l = op_local(o)
                sl, leaves = backward_slice(f, [l]) if l is not None else (set(), [])
                if any(lf[0] == "call" and lf[1] == b and lf[2] is t for lf in leaves):
                    negs.append(site)
            owner = prog.fns.get(f.parent_fn, f) if f.parent_fn else f
            ctx.ob("R08.4", f"signed-parse:{short(owner.id)}:{[x for x in g if x[0] == 'i'][0]}", not negs, f.loc(t["ln"]),
                   "the signed integer is parsed from the text with its sign" if not negs else
                   "a magnitude parsed as a signed integer is negated afterwards: the most negative value, which the writer prints, is rejected")
    ctx.floor("R08.4", "str::parse::<signed integer> sites", n, 1)


def r08_w(ctx):
    """type-level witnesses (compile_fail doctests with error codes, each with a compiling twin)"""
    from ..core import witness_obligations
    witness_obligations(ctx, "R08.W", [('W5RawNumberNoCtor', 'RawNumber has no public constructor from arbitrary text')])


def r08_5(ctx):
    """the serializer hands each number to the formatter's writer of the same type: serialize_f64 -> write_f64,
    serialize_u32 -> write_u32 ...; an integer may go to a wider integer writer of the same signedness, a float to no
    other writer (the shortest text of an f32 identifies it among f32 values only: 0.10000000149011612_f64 written by
    write_f32 reads back as a different f64)"""
    prog = ctx.prog()
    n = 0
    rank = {"8": 1, "16": 2, "32": 3, "64": 4, "128": 5}
    for f in prog.fns.values():
        if f.crate != "sonic_rs" or not (f.self_adt or "").endswith(("serde::ser::Serializer", "serde::ser::MapKeySerializer")) or not (f.trait or "").endswith("ser::Serializer"):
            continue
        if not f.name.startswith("serialize_") or f.name.split("_", 1)[1] not in [w.split("_", 1)[1] for w in INT_W + FLT_W]:
            continue
        ty = f.name.split("_", 1)[1]
        ws = [(b, t) for g in prog.with_closures(f) for b, t in g.calls() if t["callee"].rsplit("::", 1)[-1] in INT_W + FLT_W]
        if not ws:
            continue
        n += 1
        bad = []
        for b, t in ws:
            wty = t["callee"].rsplit("::", 1)[-1].split("_", 1)[1]
            if wty == ty:
                continue
            widen = ty[0] == wty[0] and ty[0] in "iu" and rank[wty[1:]] >= rank[ty[1:]]
            if widen:
                continue
            # an integer may also take a narrower / other-signed writer on a path where it provably fits (interval analysis
            # of the guards in front of the cast)
            fits = False
            if ty[0] in "iu" and wty[0] in "iu" and t["callee"] and b in f.reach and f.blocks[b]["term"] is t:
                from ..intervals import Intervals, ty_range
                a = op_local(t["args"][-1])
                d = f.single_def(a) if a is not None else None
                if d and d[0] == "stmt" and d[3]["rv"]["k"] == "cast" and d[3]["rv"].get("ck") == "IntToInt":
                    iv = Intervals(f)
                    v = iv.operand_at_stmt(d[1], d[2], d[3]["rv"]["op"])
                    r = ty_range("i" + wty[1:] if wty[0] == "i" else "u" + wty[1:])
                    fits = bool(v and r and r[0] <= v[0] and v[1] <= r[1])
            if not fits:
                bad.append((wty, t["ln"]))
        owner = (f.self_adt or "").rsplit("::", 1)[-1]
        ctx.ob("R08.5", f"{owner}::{f.name}", not bad, f.loc(bad[0][1] if bad else None),
               f"{f.name} writes through write_{ty}" + (" (or a wider writer of the same signedness)" if ty[0] in "iu" else "") if not bad else
               f"{f.name} hands its value to write_{bad[0][0]}: the text is the shortest one for another type and does not read back as the same {ty}")
    ctx.floor("R08.5", "number methods of the text serializers that call a number writer", n, 12)
    # the same clause one level up: nowhere in the crate is an f64 narrowed to f32 on its way into a serializer / writer
    # (`serializer.serialize_f32(f as f32)` in an impl Serialize)
    narrowed = []
    for f in prog.fns.values():
        if f.crate != "sonic_rs":
            continue
        casts = [(b, i, s_) for b, i, s_ in f.assigns() if s_["rv"]["k"] == "cast" and s_["rv"].get("ck") == "FloatToFloat" and s_["rv"]["ty"] == "f32"]
        if not casts:
            continue
        der = {s_["lhs"][0] for b, i, s_ in casts}
        der |= forward_derived(f, der)
        for b, t in f.calls():
            if t["callee"].rsplit("::", 1)[-1] in ("serialize_f32", "write_f32") and any(op_local(a) in der for a in t["args"]):
                narrowed.append((f, t))
    ctx.ob("R08.5", "no-f64-narrowed-into-a-float-writer", not narrowed, narrowed[0][0].loc(narrowed[0][1]["ln"]) if narrowed else "",
           "no f64 is cast to f32 on its way into serialize_f32 / write_f32" if not narrowed else
           f"{short(narrowed[0][0].id)} casts an f64 to f32 and serializes that: the shortest f32 text does not read back as the same f64")


def r08_s(ctx):
    """a raw number holds a grammatically valid number: one-fraction discipline of the validating number skipper (shared with C02)"""
    from . import c02
    ctx.include(c02.r02_10, 'R08.S')
    ctx.include(c02.r02_12, 'R08.S')
    ctx.include(c07.r07_9, 'R08.S')
    ctx.include(c07.r07_10, 'R08.S')
    ctx.include(c07.r07_8, 'R08.S')   # exact fast paths only inside their exponent ranges: what the writer printed reads back bit for bit


RULES = [("R08.1", r08_1), ("R08.2", r08_2), ("R08.3", r08_3), ("R08.4", r08_4), ("R08.5", r08_5), ("R08.W", r08_w), ("R08.S", r08_s)]

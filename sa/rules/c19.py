"""C19 — DOM conversion commutes with text conversion; DOM equality laws: the structural clauses of the equality part."""
import re, collections
from ..facts import callee_is, op_local, op_place, op_int, FactError, norm_path
from ..analysis import backward_slice, bool_switch_edges
from .c01 import short

EXPLANATION = (
    "That to_value / from_value commute with to_string / from_str over all values is a differential run-time property "
    "(with intended differences for 128-bit integers and f32) and is NOT decided. Decides the structural part of the "
    "equality laws the statement lists: (R19.1) Object equality compares the lengths first and then quantifies over the "
    "members of BOTH operands (a parsed object may repeat a name, so one direction alone is not symmetric); (R19.2) Value "
    "equality compares the type tags of both operands first and every container/number arm applies the same accessor to "
    "both operands; (R19.3) every PartialEq impl between Value (or &Value / &mut Value) and a primitive goes through the "
    "helper of the primitive's class (signed -> eq_i64, unsigned -> eq_u64, float -> eq_f64, bool -> eq_bool, string-like -> "
    "eq_str), widening with a cast to exactly that class, and each helper uses the accessor of its class; both directions "
    "(Value == T and T == Value) exist for every primitive; and one sibling clause of the commuting part: (R19.4) the map-key "
    "deserializers of the text route (serde::de::MapKey) and of the DOM route (value::de::MapKeyDeserializer) recognise a "
    "numeric key by the same first-byte alphabet, the ten digits and '-', evaluated over all 256 byte values in each of "
    "their 14 methods. Does NOT decide equality of numbers across representations."
)
ASSUMPTIONS = ["rustc MIR and callee resolution; impl table of the crate"]

SIGNED = ("i8", "i16", "i32", "i64", "isize")
UNSIGNED = ("u8", "u16", "u32", "u64", "usize")
FLOATS = ("f32", "f64")
STRS = ("str", "&str", "alloc::string::String", "faststr::FastStr")
HELPER = {**{t: "eq_i64" for t in SIGNED}, **{t: "eq_u64" for t in UNSIGNED}, **{t: "eq_f64" for t in FLOATS}, "bool": "eq_bool", **{t: "eq_str" for t in STRS}}
ACCESSOR = {"eq_i64": "as_i64", "eq_u64": "as_u64", "eq_f64": "as_f64", "eq_bool": "as_bool", "eq_str": "as_str"}
WIDE = {"eq_i64": "i64", "eq_u64": "u64", "eq_f64": "f64"}


def _params_of(fn, l):
    sl, leaves = backward_slice(fn, [l]) if l is not None else (set(), [])
    return {lf[1] for lf in leaves if lf[0] == "param"}, leaves


def r19_1(ctx):
    prog = ctx.prog()
    fs = [g for g in prog.fns.values() if g.crate == "sonic_rs" and g.name == "eq" and (g.d.get("impl") or {}).get("trait_ref") == "<value::object::Object as core::cmp::PartialEq>"]
    if len(fs) != 1:
        raise FactError("anchor not found: impl PartialEq for Object")
    f = fs[0]
    lens = [(b, t) for b, t in f.calls() if callee_is(t, "len")]
    # the enumerations, lookups and comparisons of Object::eq, in its own body, its closures and the private helpers of
    # the same file it hands its operands to (their parameters are bound to the operands of eq along the call chain)
    stats = {"iters": [], "it_params": set(), "gets": 0, "looks": 0, "cmp_sites": 0, "cmp_bodies": []}
    def walk(fn, binding, depth):
        for b, t in fn.calls():
            a0 = op_local(t["args"][0]) if t["args"] else None
            roots = set()
            if a0 is not None:
                for p_ in _params_of(fn, a0)[0]:
                    roots |= binding.get(p_, set())
            if callee_is(t, "iter") and "Object" in t["callee"]:
                stats["iters"].append((fn, b, t))
                stats["it_params"] |= roots
            if callee_is(t, "get", "contains_key", "get_key_value") and "Object" in t["callee"]:
                stats["looks"] += 1
                if callee_is(t, "get"):
                    stats["gets"] += 1
            if callee_is(t, "eq", "ne") and (fn.id != f.id or "Option" in " ".join(t.get("rgargs") or t.get("gargs") or [])):
                stats["cmp_sites"] += 1
                stats["cmp_bodies"].append(fn)
            g = prog.fns.get(t["callee"])
            if g is not None and g.crate == "sonic_rs" and g.file == f.file and g.id != f.id and not (g.self_adt or "").endswith("Object") and depth < 3:
                nb = {}
                for k_, a in enumerate(t["args"], start=1):
                    la = op_local(a)
                    if la is not None:
                        nb[k_] = set().union(*[binding.get(p_, set()) for p_ in _params_of(fn, la)[0]] or [set()])
                walk(g, nb, depth + 1)
        for c in prog.closures_of(fn):
            walk(c, {}, depth + 1)
    walk(f, {1: {1}, 2: {2}}, 0)
    iters = [(b, t) for fn_, b, t in stats["iters"]]
    len_params = set()
    for b, t in lens:
        ps, _ = _params_of(f, op_local(t["args"][0]))
        len_params |= ps
    own_iters = [(b, t) for fn_, b, t in stats["iters"] if fn_.id == f.id]
    ok_len = len(lens) >= 2 and {1, 2} <= len_params and all(f.dominates(lb, ib) for lb, lt in lens for ib, it in own_iters)
    it_params = stats["it_params"]
    both = {1, 2} <= it_params
    ctx.ob("R19.1", "Object::eq:lengths-first", ok_len or both, f.loc(), "the lengths of both operands are compared before any member" if ok_len else
           ("no length test, but both operands are enumerated" if both else "one operand is enumerated and the member comparison is not preceded by a comparison of both lengths: a subset compares equal in one direction"))
    ctx.ob("R19.1", "Object::eq:quantifies-over-both-operands", both, f.loc(iters[0][1]["ln"]) if iters else f.loc(),
           "the members of both operands are enumerated" if both else
           f"only the members of operand {sorted(it_params)} are enumerated: with a repeated name on that side a name that only the other side has is never looked at, so a == b and b == a differ")
    # each enumeration compares get() of both operands (closure form `iter().all(|..| ..)` or plain loops)
    bodies = prog.with_closures(f)
    gets, looks, cmps = stats["gets"], stats["looks"], stats["cmp_sites"]
    # one enumeration compares get(name) of both operands (two lookups and a comparison); a further enumeration has at
    # least to look its names up in the other operand
    okc = bool(iters) and cmps >= 1 and gets >= 2 and looks >= len(iters) + 1
    ctx.ob("R19.1", "Object::eq:members-compared-by-lookup", okc, f.loc(), f"{len(iters)} enumeration(s), {looks} lookups by name, {cmps} comparison(s) of looked-up values: one enumeration compares get(name) of both operands, the other looks its names up in the first")
    # ... and only one: comparing the values again in the second enumeration doubles the work at every nesting level
    # (2^depth comparisons for nested single-member objects)
    cmp_bodies = stats["cmp_bodies"]
    n_sites = stats["cmp_sites"]
    ctx.ob("R19.1", "Object::eq:values-compared-once", n_sites <= 1, (cmp_bodies[0] if cmp_bodies else f).loc(),
           "the member values are compared in one enumeration only" if n_sites <= 1 else
           f"the member values are compared in {n_sites} enumerations: every nesting level multiplies the work (a == b on objects nested 40 deep does not finish)")


def r19_2(ctx):
    prog = ctx.prog()
    fs = [g for g in prog.fns.values() if g.crate == "sonic_rs" and g.name == "eq" and (g.d.get("impl") or {}).get("trait_ref") == "<value::node::Value as core::cmp::PartialEq>"]
    if len(fs) != 1:
        raise FactError("anchor not found: impl PartialEq for Value")
    f = fs[0]
    gts = [(b, t) for b, t in f.calls() if callee_is(t, "get_type")]
    ps = set()
    for b, t in gts:
        p, _ = _params_of(f, op_local(t["args"][0]))
        ps |= p
    cmp_ = [(b, t) for b, t in f.calls() if callee_is(t, "ne", "eq") and all(op_local(a) is not None for a in t["args"][:2])]
    first = None
    for b, t in cmp_:
        srcs = []
        for a in t["args"][:2]:
            sl, leaves = backward_slice(f, [op_local(a)])
            srcs.append(any(lf[0] == "call" and callee_is(lf[2], "get_type") for lf in leaves))
        if all(srcs):
            first = (b, t)
    ok = {1, 2} <= ps and first is not None
    if ok:
        others = [bb for bb, tt in f.calls() if tt["callee"].rsplit("::", 1)[-1] in ("as_ref2", "as_number", "as_object", "as_value_slice", "as_str", "as_bool")]
        ok = all(f.dominates(first[0], bb) for bb in others)
    pair_form = False
    if not ok:
        # the same decision as one match on the pair of views: both operands are taken apart with as_ref2() and the
        # variants of BOTH are dispatched on before any payload is compared (every arm is a pair of the same kind)
        refs = [(b, t) for b, t in f.calls() if callee_is(t, "as_ref2")]
        rp = set()
        for b, t in refs:
            p_, _ = _params_of(f, op_local(t["args"][0]))
            rp |= p_
        disc = set()
        for b, t in f.terms():
            if t["k"] == "switch" and op_local(t["discr"]) is not None:
                d = f.single_def(op_local(t["discr"]))
                if d and d[0] == "stmt" and d[3]["rv"]["k"] == "discr":
                    sl, leaves = backward_slice(f, [d[3]["rv"]["p"][0]], through_calls=False)
                    for lf in leaves:
                        if lf[0] == "call" and callee_is(lf[2], "as_ref2"):
                            p_, _ = _params_of(f, op_local(lf[2]["args"][0]))
                            disc |= p_
        pair_form = {1, 2} <= rp and {1, 2} <= disc
        ok = pair_form
    ctx.ob("R19.2", "Value::eq:type-tags-first", ok, f.loc(), "the type tags of both operands are compared before any payload" if not pair_form else "the variants of both operands' views are dispatched on before any payload is compared")
    # payloads are compared as values of their kind (Number, str, slices, objects), never as raw words: an integer
    # comparison in Value::eq compares type tags or lengths.  (The bits of 0.0 and -0.0 differ, the numbers are equal;
    # equal bits of two NaN payloads would make NaN == NaN.)
    raw = []
    for b, i, s_ in f.assigns():
        rv = s_["rv"]
        if rv["k"] == "binop" and rv["op"] in ("Eq", "Ne"):
            ls = [op_local(rv["a"]), op_local(rv["b"])]
            if any(l is None for l in ls) or not all(f.locals[l]["ty"] in ("u64", "i64", "u32", "usize", "u8", "u128", "f64") for l in ls):
                continue
            tagged = []
            for l in ls:
                sl, leaves = backward_slice(f, [l], through_calls=False)
                tagged.append(any(lf[0] == "call" and callee_is(lf[2], "get_type", "len", "discriminant_value") for lf in leaves))
            if not all(tagged):
                raw.append(s_.get("ln"))
    ctx.ob("R19.2", "Value::eq:no-raw-word-comparison", not raw, f.loc(raw[0] if raw else None),
           "integer comparisons in Value::eq are between type tags / lengths only" if not raw else
           "Value::eq compares two machine words that are neither type tags nor lengths: payloads compared by their bits disagree with the comparison of the values (0.0 == -0.0, NaN != NaN)")
    if pair_form:
        # every payload comparison (here or in a helper that receives both operands) takes one side from each operand
        cross = []
        for b, t in f.calls():
            if callee_is(t, "eq", "ne") and len(t["args"]) >= 2:
                pa = [_params_of(f, op_local(a))[0] if op_local(a) is not None else set() for a in t["args"][:2]]
                # (parts read out of the matched pair carry both operands in their slice; what is excluded is a comparison
                # of one operand with itself)
                cross.append(not (pa[0] == pa[1] and len(pa[0]) == 1) and (pa[0] | pa[1]) >= {1, 2})
            g = prog.fns.get(t["callee"])
            if g is not None and g.crate == "sonic_rs" and g.output == "bool" and not callee_is(t, "eq", "ne", "is_empty", "is_null") and len(t["args"]) >= 2:
                pa = [_params_of(f, op_local(a))[0] if op_local(a) is not None else set() for a in t["args"][:2]]
                cross.append(pa[0] | pa[1] == {1, 2} and pa[0] != pa[1])
        ctx.ob("R19.2", "Value::eq:payloads-compared-across", bool(cross) and all(cross), f.loc(), f"{len(cross)} payload comparison(s), each between a part of one operand and a part of the other")
        return
    for acc in ("as_number", "as_value_slice", "as_object"):
        cs = [(b, t) for b, t in f.calls() if callee_is(t, acc)]
        pp = set()
        for b, t in cs:
            p, _ = _params_of(f, op_local(t["args"][0]))
            pp |= p
        ctx.ob("R19.2", f"Value::eq:{acc}-on-both", len(cs) >= 2 and {1, 2} <= pp, f.loc(), f"{acc}() is applied to both operands in the same arm ({len(cs)} calls, operands {sorted(pp)})")


def _prim_of(trait_ref):
    m = re.match(r"^<(.+) as core::cmp::PartialEq<(.+)>>$", trait_ref or "")
    if not m:
        return None
    a, b = m.group(1), m.group(2)
    def strip(x):
        return re.sub(r"^&(mut )?", "", x) if x not in ("&str",) else x
    va, vb = strip(a), strip(b)
    if va == "value::node::Value" and b in HELPER:
        return b, "Value==T", a
    if vb == "value::node::Value" and a in HELPER:
        return a, "T==Value", a
    return None


def r19_3(ctx):
    prog = ctx.prog()
    seen = collections.defaultdict(set)
    n = 0
    for f in prog.fns.values():
        if f.crate != "sonic_rs" or f.name != "eq" or "value::partial_eq::" not in f.id:
            continue
        pr = _prim_of((f.d.get("impl") or {}).get("trait_ref"))
        if not pr:
            continue
        prim, direction, lhs = pr
        n += 1
        want = HELPER[prim]
        helpers = [t for b, t in f.calls() if t["callee"].rsplit("::", 1)[-1].startswith("eq_")]
        ok = len(helpers) == 1 and helpers[0]["callee"].rsplit("::", 1)[-1] == want
        detail = f"calls {[t['callee'].rsplit('::', 1)[-1] for t in helpers]}, class helper {want}"
        if ok and want in WIDE:
            # the primitive is widened to exactly the helper's type (or passed as is)
            a = op_local(helpers[0]["args"][1])
            d = f.single_def(a) if a is not None else None
            if d and d[0] == "stmt" and d[3]["rv"]["k"] == "cast":
                ok = d[3]["rv"]["ty"] == WIDE[want]
                detail += f", widened by `as {d[3]['rv']['ty']}`"
            else:
                ok = prim == WIDE[want] or (f.locals[a]["ty"] == WIDE[want] if a is not None else False)
        seen[prim].add(direction)
        ctx.ob("R19.3", f"{(f.d.get('impl') or {}).get('trait_ref')}", ok, f.loc(), detail)
    ctx.floor("R19.3", "PartialEq impls between Value and primitives", n, 60)
    for prim in HELPER:
        if prim == "&str":
            both = seen.get(prim, set()) >= {"Value==T", "T==Value"}
        else:
            both = seen.get(prim, set()) >= {"Value==T", "T==Value"}
        ctx.ob("R19.3", f"both-directions:{prim}", both, "src/value/partial_eq.rs", f"{prim}: impls {sorted(seen.get(prim, set()))}")
    for h, acc in ACCESSOR.items():
        g = prog.find(f"value::partial_eq::{h}")
        cs = [t["callee"].rsplit("::", 1)[-1] for b, t in g.calls() if t["callee"].rsplit("::", 1)[-1].startswith("as_")]
        ctx.ob("R19.3", f"helper:{h}", cs == [acc], g.loc(), f"{h} compares through {cs}")


def r19_4(ctx):
    """sibling agreement of the two map-key deserializers (text route: serde::de::MapKey, DOM route:
    value::de::MapKeyDeserializer): a numeric key is recognised by the same first-byte alphabet, the ten digits and '-',
    evaluated over all 256 byte values"""
    from .c02 import arm_of, _byte_alias, tuple_place
    prog = ctx.prog()
    want = {45} | set(range(48, 58))
    n = 0
    per_route = collections.defaultdict(set)
    for f in prog.fns.values():
        if f.crate != "sonic_rs" or f.kind == "Closure":
            continue
        adt = f.self_adt or ""
        if not adt.endswith(("value::de::MapKeyDeserializer", "serde::de::MapKey")):
            continue
        errb = {b for b, i, s in f.assigns() if s["rv"]["k"] == "agg" and s["rv"].get("adt", "").endswith("error::ErrorCode") and s["rv"].get("variant") == "ExpectedNumericKey"}
        if not errb:
            continue
        n += 1
        # the peeked byte: payload of the Option returned by peek()
        pk = [(b, t) for b, t in f.calls() if callee_is(t, "peek")]
        key = f"{adt.rsplit('::', 1)[-1]}::{f.name}"
        if len(pk) != 1:
            ctx.ob("R19.4", f"numeric-key-alphabet:{key}", False, f.loc(), "the first byte of the key is not obtained by one peek(): alphabet not evaluable (fail closed)")
            continue
        opt = pk[0][1]["dest"][0]
        start = None
        for b, t in f.terms():
            if t["k"] == "switch" and f.dominates(pk[0][0], b):
                d = f.single_def(op_local(t["discr"])) if op_local(t["discr"]) is not None else None
                if d and d[0] == "stmt" and d[3]["rv"]["k"] == "discr" and d[3]["rv"]["p"][0] == opt:
                    some = [x for v, x in t["targets"] if int(v) == 1]
                    start = some[0] if some else t["otherwise"]
                    break
        if start is None:
            ctx.ob("R19.4", f"numeric-key-alphabet:{key}", False, f.loc(), "no Some/None dispatch on the peeked byte: alphabet not evaluable (fail closed)")
            continue
        bplace = (opt, '[["as", "Some"], [".", 0, "0"]]')
        places = set()
        for b, i, s in f.assigns():
            for o in ([s["rv"].get("a"), s["rv"].get("b"), s["rv"].get("op")]):
                if isinstance(o, dict) and o.get("k") in ("copy", "move") and o["p"][0] == opt and o["p"][1]:
                    places.add(tuple_place(o["p"]))
        for b, t in f.terms():
            if t["k"] == "switch" and t["discr"].get("k") in ("copy", "move") and t["discr"]["p"][0] == opt and t["discr"]["p"][1]:
                places.add(tuple_place(t["discr"]["p"]))
        is_byte = _byte_alias(f, places)
        acc = set()
        for v in range(256):
            arm = arm_of(f, start, is_byte, v)
            if not (({arm} | f.reachable_from(arm)) & errb):
                acc.add(v)
        per_route[adt.rsplit("::", 1)[-1]].add(frozenset(acc))
        ctx.ob("R19.4", f"numeric-key-alphabet:{key}", acc == want, f.loc(),
               f"a numeric key starts with {''.join(sorted(chr(v) for v in acc))!r} (evaluated over all 256 first bytes)" if acc == want else
               f"a numeric key is recognised by first byte in {sorted(chr(v) for v in acc)[:14]} instead of the ten digits and '-': " + ("negative keys written by the serializer are rejected" if 45 not in acc else "other texts are taken for numbers"))
    ctx.floor("R19.4", "numeric map-key deserializer methods with a first-byte test", n, 10)
    ctx.ob("R19.4", "numeric-key-alphabet:routes-agree", len(per_route) == 2 and all(len(v) == 1 for v in per_route.values()) and len({next(iter(v)) for v in per_route.values()}) == 1, "",
           f"the text route and the DOM route use one alphabet ({ {k: [''.join(sorted(chr(x) for x in a)) for a in v] for k, v in per_route.items()} })")


def r19_5(ctx):
    """the DOM-route serializer keeps integers exact: every integer cast in its serialize_<int> methods is value
    preserving (the source range lies inside the target range); range reductions go through try_from, whose failure is
    the documented out-of-range error"""
    from ..intervals import ty_range
    prog = ctx.prog()
    n = 0
    for f in prog.fns.values():
        if f.crate != "sonic_rs" or not (f.self_adt or "").endswith("value::ser::Serializer") or not re.match(r"^serialize_[iu](8|16|32|64|128)$", f.name):
            continue
        n += 1
        bad = []
        for b, i, st in f.assigns():
            rv = st["rv"]
            if rv["k"] == "cast" and rv.get("ck") == "IntToInt":
                src_l = op_local(rv["op"])
                sty = f.locals[src_l]["ty"] if src_l is not None else rv["op"].get("ty")
                a, c = ty_range(sty or ""), ty_range(rv["ty"])
                if a and c and not (c[0] <= a[0] and a[1] <= c[1]):
                    # a narrowing cast is fine where the guards in front of it confine the value to the target range
                    # (`0..=U64_MAX => value as u64`): interval analysis of this function
                    from ..intervals import Intervals
                    try:
                        v = Intervals(f).operand_at_stmt(b, i, rv["op"])
                    except Exception:
                        v = None
                    if not (v and c[0] <= v[0] and v[1] <= c[1]):
                        bad.append((sty, rv["ty"], st.get("ln")))
        ctx.ob("R19.5", f"exact-integers:{f.name}", not bad, f.loc(bad[0][2] if bad else None),
               "integer casts are widening only" if not bad else
               f"`as` cast {bad[0][0]} -> {bad[0][1]} is not value preserving: values outside the target range wrap instead of taking the out-of-range error the text route's counterpart is")
    ctx.floor("R19.5", "integer methods of the DOM-route serializer", n, 10)
    # Object equality never compares member sequences positionally
    fs = [g for g in prog.fns.values() if g.crate == "sonic_rs" and g.name == "eq" and (g.d.get("impl") or {}).get("trait_ref") == "<value::object::Object as core::cmp::PartialEq>"]
    if fs:
        f = fs[0]
        pos = [t for g in prog.with_closures(f) for b, t in g.calls() if callee_is(t, "eq", "ne") and "(value::node::Value, value::node::Value)" in " ".join((t.get("rgargs") or []) + (t.get("gargs") or []) + (t.get("argtys") or []))]
        ctx.ob("R19.1", "Object::eq:no-positional-comparison", not pos, f.loc(pos[0]["ln"] if pos else None),
               "members are never compared position by position" if not pos else
               "the pair slices of the two operands are compared position by position: two parsed objects with the same members in a different order compare unequal")


def r19_s(ctx):
    """numeric map keys and numbers of the DOM route are read by the one number parser (shared with C07)"""
    from . import c07
    ctx.include(c07.r07_14, "R19.S")


RULES = [("R19.1", r19_1), ("R19.2", r19_2), ("R19.3", r19_3), ("R19.4", r19_4), ("R19.5", r19_5), ("R19.S", r19_s)]

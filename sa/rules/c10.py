"""C10 — lazy get returns what a full parse followed by lookup finds: structural clauses."""
import collections
from ..facts import callee_is, op_local, op_place, op_int, FactError, norm_path
from ..analysis import backward_slice, bool_switch_edges, switch_edges
from .c01 import short
from .c11 import _store_arith, _error_codes, NONVALIDATING

EXPLANATION = (
    "Equality of the returned span with a reference lookup is a run-time property of the skippers. Decides necessary "
    "structural conditions of the path walkers: (R10.1) in get_from_object and get_from_object_checked the member name is "
    "read by the decoding key reader, followed by parse_object_clo, and compared with the path key by length and bytes "
    "(both operands traced to the decoded key and to the key parameter); the equal edge returns without reading another "
    "member (the first member wins), the unequal edge skips exactly one value; (R10.2) in get_from_array and "
    "get_from_array_checked the countdown is decremented by one only on the ',' edge of the separator test and the walker "
    "returns at zero; (R10.3) get_from_with_iter(_unchecked) dispatches a key to the object walker and an index to the array "
    "walker of its own family and returns the span of the final skip_one unchanged; (R10.4) every public get entry point of "
    "every carrier reaches exactly the walker family of its kind (checked -> *_checked only) and attaches the returned span "
    "to its carrier through JsonInput::from_subset, whose implementations return the sub-slice they were given; (R10.5) DOM "
    "lookup by key returns at the first equal member of the pair slice. Does NOT decide the spans computed by the bitmap "
    "container skipper or the string skippers."
)
ASSUMPTIONS = ["rustc MIR and callee resolution", "class-hierarchy resolution of JsonInput / Index trait calls"]

OBJ = ("Parser::get_from_object", "Parser::get_from_object_checked")
ARR = ("Parser::get_from_array", "Parser::get_from_array_checked")
ADVANCING = ("parse_string_raw", "parse_str", "skip_one", "skip_container", "skip_string_unchecked", "skip_string_unchecked2", "get_next_token", "skip_space", "skip_space_peek", "parse_object_clo", "eat", "next")


def r10_1(ctx):
    prog = ctx.prog()
    for name in OBJ:
        f = prog.find(name)
        k = short(f.id)
        keys = [(b, t) for b, t in f.calls() if callee_is(t, "parse_string_raw", "parse_str")]
        clo = [(b, t) for b, t in f.calls() if callee_is(t, "parse_object_clo")]
        ok = len(keys) == 1 and len(clo) == 1 and f.dominates(keys[0][0], clo[0][0])
        ctx.ob("R10.1", f"{k}:key-then-colon", ok, f.loc(), "the member name is decoded by the key reader and followed by parse_object_clo")
        if not ok:
            continue
        kb, kt = keys[0]
        eqs = [(b, t) for b, t in f.calls() if callee_is(t, "eq") and "[u8]" in " ".join(t.get("rgargs") or t.get("gargs") or [])]
        good = None
        for b, t in eqs:
            sides = []
            for a in t["args"][:2]:
                l = op_local(a)
                sl, leaves = backward_slice(f, [l]) if l is not None else (set(), [])
                from_key = any(lf[0] == "call" and lf[1] == kb for lf in leaves)
                from_param = any(lf[0] == "param" and lf[1] == 2 for lf in leaves)
                sides.append((from_key, from_param))
            if (sides[0][0] and sides[1][1] and not sides[0][1]) or (sides[1][0] and sides[0][1] and not sides[1][1]):
                good = (b, t)
        ctx.ob("R10.1", f"{k}:compares-decoded-key-with-path-key", good is not None, f.loc(), "one byte-slice equality between the decoded member name and the path key" if good else
               "no byte-slice equality with the decoded member name on one side and the path key on the other")
        if good is None:
            continue
        b, t = good
        e = bool_switch_edges(f, t["dest"][0])
        if not e:
            ctx.ob("R10.1", f"{k}:first-member-wins", False, f.loc(t["ln"]), "the result of the comparison is not branched on")
            continue
        t_edge, f_edge = e
        reach = f.reachable_from(t_edge)
        adv = sorted({tt["callee"].rsplit("::", 1)[-1] for bb, tt in f.calls() if bb in reach and tt["callee"].rsplit("::", 1)[-1] in ADVANCING})
        oks = [bb for bb in reach if bb in set(f.return_blocks)]
        ctx.ob("R10.1", f"{k}:first-member-wins", not adv and bool(oks), f.loc(t["ln"]),
               "the equal edge returns with the reader right after the colon of the first matching member" if not adv else f"after a match the walker keeps reading ({adv}): a later member can win")
        # the length test: both lengths compared
        lens = [(bb, tt) for bb, tt in f.calls() if callee_is(tt, "len") and f.dominates(clo[0][0], bb) and f.dominates(bb, b)]
        ctx.ob("R10.1", f"{k}:length-compared", len(lens) >= 2, f.loc(), f"{len(lens)} length reads feed the comparison before the byte equality", nontrivial=False)
        # the unequal edge skips one value
        fr = f.reachable_from(f_edge)
        SK = ("skip_one", "skip_container", "skip_string_unchecked", "skip_string_unchecked2")
        skips = set()
        for bb, tt in f.calls():
            if bb not in fr:
                continue
            nm = tt["callee"].rsplit("::", 1)[-1]
            if nm in SK:
                skips.add(nm)
            elif tt.get("callee") in prog.fns and "Parser" in tt["callee"] and nm not in ADVANCING:
                # a private helper of the walker: look one level down
                g = prog.fns[tt["callee"]]
                skips |= {t2["callee"].rsplit("::", 1)[-1] for b2, t2 in g.calls() if t2["callee"].rsplit("::", 1)[-1] in SK}
        skipn = sorted(skips)
        want_checked = name.endswith("_checked")
        oks_ = (skipn == ["skip_one"]) if want_checked else ("skip_container" in skipn and "skip_one" not in skipn)
        ctx.ob("R10.1", f"{k}:unequal-edge-skips-the-value", oks_, f.loc(), f"on a different name the value is skipped with {skipn}")


def r10_2(ctx):
    prog = ctx.prog()
    for name in ARR:
        f = prog.find(name)
        k = short(f.id)
        cnt = [i for i, l in enumerate(f.locals) if l.get("name") == "count"]
        # the countdown variable: the mutable copy of the index parameter
        cands = set()
        for b, i, s in f.assigns():
            if not s["lhs"][1] and s["rv"]["k"] == "use" and op_local(s["rv"]["op"]) == 2:
                cands.add(s["lhs"][0])
        stores = []
        for b, i, s in f.assigns():
            if s["lhs"][0] in cands and not s["lhs"][1]:
                found, leaves = _store_arith(f, s, "Sub")
                if found:
                    stores.append((b, s, leaves))
        ok = len(cands) == 1 and len(stores) == 1
        if not ok and not stores:
            # the same count written as `for _ in 0..index`: a Range built from 0 and the index parameter, stepped by next()
            rng = [(b, i, s) for b, i, s in f.assigns() if s["rv"]["k"] == "agg" and "ops::range::Range" in (s["rv"].get("adt") or "")]
            nx = [(b, t) for b, t in f.calls() if callee_is(t, "next") and "Range" in " ".join((t.get("rgargs") or []) + (t.get("gargs") or []) + [t["callee"]])]
            okr = False
            for b, i, s in rng:
                lo, hi = s["rv"]["f"][0], s["rv"]["f"][1]
                hl = op_local(hi)
                if op_int(lo) == 0 and hl is not None and f.src(hl) == ("param", 2):
                    okr = True
            # each step of the range is followed by exactly one ',' dispatch before the next step
            comma_sw = [b for b, t in f.terms() if t["k"] == "switch" and t.get("dty") == "u8" and any(int(v) == 44 for v, _ in t["targets"])]
            okr = okr and len(nx) == 1 and len(comma_sw) >= 1 and all(f.dominates(nx[0][0], c) for c in comma_sw)
            how = "the elements are counted by a range iterator over 0..index, one ',' dispatch per step"
            if not okr:
                # counting up: a counter that starts at 0, is incremented by one only on the ',' edge, and is compared
                # with the index parameter to decide between walking on and returning
                for L in range(len(f.locals)):
                    ds = f.defs.get(L, [])
                    inits = [d for d in ds if d[0] == "stmt" and d[3]["rv"]["k"] == "use" and op_int(d[3]["rv"]["op"]) == 0]
                    incs = []
                    for d in ds:
                        if d[0] == "stmt" and d not in inits:
                            found, leaves = _store_arith(f, d[3], "Add")
                            if found and any(lf[0] == "const" and op_int(lf[1]) == 1 for lf in leaves):
                                incs.append(d)
                    if len(inits) != 1 or len(incs) != 1 or len(ds) != 2:
                        continue
                    ib = incs[0][1]
                    on_comma = any(f.dominates(x, ib) and not any(f.dominates(y, ib) for vv, y in t["targets"] if int(vv) != 44)
                                   for bb, t in f.terms() if t["k"] == "switch" and t.get("dty") == "u8" for v, x in t["targets"] if int(v) == 44)
                    cmp_idx = False
                    for bb, ii, ss in f.assigns():
                        rv = ss["rv"]
                        if rv["k"] == "binop" and rv["op"] in ("Lt", "Le", "Gt", "Ge", "Eq", "Ne"):
                            la, lb = op_local(rv["a"]), op_local(rv["b"])
                            srcs = [f.src(x) if x is not None else None for x in (la, lb)]
                            derived = lambda x: x is not None and (x == L or (f.single_def(x) and f.single_def(x)[0] == "stmt" and f.single_def(x)[3]["rv"]["k"] == "use" and op_local(f.single_def(x)[3]["rv"]["op"]) == L))
                            if ("param", 2) in srcs and (derived(la) or derived(lb)):
                                cmp_idx = True
                    if on_comma and cmp_idx:
                        okr, how = True, "the elements are counted up from 0, by one on the ',' edge only, until the counter reaches the index parameter"
            ctx.ob("R10.2", f"{k}:one-countdown-store", okr, f.loc(), how if okr else "no countdown of the index parameter found")
            continue
        ctx.ob("R10.2", f"{k}:one-countdown-store", ok, f.loc(), f"one countdown variable initialised from the index parameter, decremented at {len(stores)} site(s)")
        if not ok:
            continue
        b, s, leaves = stores[0]
        by_one = any(lf[0] == "const" and op_int(lf[1]) == 1 for lf in leaves)
        # control: dominated by the ',' (44) target of a u8 switch
        comma = False
        for bb, t in f.terms():
            if t["k"] == "switch" and t.get("dty") == "u8":
                for v, x in t["targets"]:
                    if int(v) == 44 and f.dominates(x, b) and not any(f.dominates(y, b) for vv, y in t["targets"] if int(vv) != 44):
                        comma = True
        ctx.ob("R10.2", f"{k}:decrement-by-one-on-comma", by_one and comma, f.loc(s.get("ln")), f"count -= 1 (by one: {by_one}) only on the ',' edge of the separator test ({comma})")
        # exit at zero: a comparison of the countdown with 0 decides between looping and returning Ok
        zero = False
        for bb, t in f.terms():
            if t["k"] != "switch":
                continue
            dl = op_local(t["discr"])
            d = f.single_def(dl) if dl is not None else None
            if d and d[0] == "stmt" and d[3]["rv"]["k"] == "binop" and d[3]["rv"]["op"] in ("Gt", "Eq", "Ne", "Lt", "Le", "Ge"):
                rv = d[3]["rv"]
                ls = [op_local(rv["a"]), op_local(rv["b"])]
                cs = [op_int(rv["a"]), op_int(rv["b"])]
                if 0 in cs and any(l is not None and (l in cands or f.src(l) == ("multi", list(cands)[0]) or (f.single_def(l) and f.single_def(l)[0] == "stmt" and op_local(f.single_def(l)[3]["rv"].get("op", {"k": "const"})) in cands)) for l in ls):
                    zero = True
        ctx.ob("R10.2", f"{k}:returns-at-zero", zero, f.loc(), "the loop is controlled by a comparison of the countdown with 0")


def r10_3(ctx):
    prog = ctx.prog()
    for name, suffix in (("Parser::get_from_with_iter", "_checked"), ("Parser::get_from_with_iter_unchecked", "")):
        f = prog.find(name)
        k = short(f.id)
        objs = {t["callee"].rsplit("::", 1)[-1] for b, t in f.calls() if "get_from_object" in t["callee"]}
        arrs = {t["callee"].rsplit("::", 1)[-1] for b, t in f.calls() if "get_from_array" in t["callee"]}
        ok = objs == {"get_from_object" + suffix} and arrs == {"get_from_array" + suffix}
        ctx.ob("R10.3", f"{k}:walker-family", ok, f.loc(), f"uses {sorted(objs | arrs)}")
        # dispatch: the object walker receives the result of as_key, the array walker that of as_index
        for wk, acc in (("get_from_object" + suffix, "as_key"), ("get_from_array" + suffix, "as_index")):
            cs = [(b, t) for b, t in f.calls() if t["callee"].rsplit("::", 1)[-1] == wk]
            okd = bool(cs)
            for b, t in cs:
                a = op_local(t["args"][1])
                sl, leaves = backward_slice(f, [a]) if a is not None else (set(), [])
                if not any(lf[0] == "call" and callee_is(lf[2], acc) for lf in leaves):
                    okd = False
            ctx.ob("R10.3", f"{k}:{wk}<-{acc}", okd, f.loc(), f"{wk} is driven by {acc}() of the path element")
        so = [(b, t) for b, t in f.calls() if callee_is(t, "skip_one")]
        okr = len(so) == 1 and so[0][1]["dest"] == [0, []]
        if len(so) == 1 and not okr:
            # returned through a copy
            sl, leaves = backward_slice(f, [0])
            okr = any(lf[0] == "call" and lf[1] == so[0][0] for lf in leaves) and not any(lf[0] == "call" and callee_is(lf[2], "slice_unchecked", "from_raw_parts") for lf in leaves)
        ctx.ob("R10.3", f"{k}:returns-span-of-final-skip", okr, f.loc(), "the span handed back is the one skip_one measured for the addressed value")


def r10_4(ctx):
    prog = ctx.prog()
    entries = [f for f in prog.fns.values() if f.crate == "sonic_rs" and f.kind != "Closure" and norm_path(f.id).startswith("sonic_rs::lazyvalue::get::")
               and (f.name.startswith("get_from_") or f.name in ("get", "get_unchecked")) and f.d.get("vis", "pub") != "private"]
    ctx.floor("R10.4", "public get entry points", len(entries), 10)
    chk = prog.find("Parser::get_from_with_iter").id
    unc = prog.find("Parser::get_from_with_iter_unchecked").id
    for f in entries:
        reach = prog.reachable_fns([f.id])
        want_unc = f.name.endswith("_unchecked")
        has_c, has_u = chk in reach, unc in reach
        ok = (has_u and not has_c) if want_unc else (has_c and not has_u)
        ctx.ob("R10.4", f"entry:{f.name}", ok, f.loc(), f"reaches the {'non-validating' if has_u else ''}{' and the ' if has_u and has_c else ''}{'validating' if has_c else ''} walker family")
    # carriers: from_subset returns the sub-slice it was given
    ims = [im for im in prog.impls if im["trait"] == "sonic_rs::input::JsonInput"]
    ctx.floor("R10.4", "impl JsonInput", len(ims), 5)
    for im in ims:
        g = prog.fns.get(im["methods"].get("from_subset", ""))
        if not g:
            ctx.ob("R10.4", f"from_subset:{im['self_ty']}", False, "", "from_subset not found")
            continue
        sl, leaves = backward_slice(g, [0])
        from_sub = any(lf[0] == "param" and lf[1] == 2 for lf in leaves)
        ctx.ob("R10.4", f"from_subset:{im['self_ty']}", from_sub, g.loc(), "the re-attached value is built from the sub-slice parameter" if from_sub else "from_subset ignores the sub-slice it is given")
    # the entry attaches the walker's span
    gen = [f for f in prog.fns.values() if f.crate == "sonic_rs" and norm_path(f.id) in ("sonic_rs::lazyvalue::get::get", "sonic_rs::lazyvalue::get::get_unchecked")]
    for f in gen:
        fs = [(b, t) for b, t in f.calls() if callee_is(t, "from_subset")]
        wk = [(b, t) for b, t in f.calls() if callee_is(t, "get_from_with_iter", "get_from_with_iter_unchecked")]
        ok = len(fs) >= 1 and len(wk) == 1
        if ok:
            a = op_local(fs[0][1]["args"][1])
            sl, leaves = backward_slice(f, [a]) if a is not None else (set(), [])
            ok = any(lf[0] == "call" and lf[1] == wk[0][0] for lf in leaves)
        ctx.ob("R10.4", f"attach:{f.name}", ok, f.loc(), "the LazyValue is built over from_subset(span returned by the walker)")


def r10_5(ctx):
    prog = ctx.prog()
    f = prog.find("node::Value::get_key_value")
    eqs = [(b, t) for b, t in f.calls() if callee_is(t, "eq")]
    nx = [(b, t) for b, t in f.calls() if callee_is(t, "next")]
    ok = len(eqs) == 1 and len(nx) >= 1
    msg = f"{len(eqs)} comparison(s), {len(nx)} iterator step(s)"
    if ok:
        b, t = eqs[0]
        e = bool_switch_edges(f, t["dest"][0])
        if e:
            reach = f.reachable_from(e[0])
            again = any(bb in reach for bb, tt in nx)
            ok = not again and bool(reach & set(f.return_blocks))
            msg = "the equal edge returns the member without advancing the iterator again" if ok else "after a match the iteration continues: a later member can win"
        else:
            ok = False
    elif not nx and not eqs:
        # combinator form: a forward first-match search (find / find_map / position) over the members in storage order, the
        # single comparison in its closure; any reversing / last-match / reordering adaptor on the way is rejected
        FWD = {"iter", "into_iter", "map", "find", "find_map", "position", "copied", "cloned", "by_ref"}
        is_it = lambda t: any(x in (t.get("trait") or "") or x in t["callee"] for x in ("iterator::Iterator", "::Iterator::", "DoubleEndedIterator", "IntoIterator")) or callee_is(t, "iter")
        rev = lambda t: "DoubleEnded" in t["callee"] or "DoubleEnded" in (t.get("trait") or "") or "::Rev<" in t["callee"]
        its = [(b, t) for b, t in f.calls() if is_it(t)]
        search = [t for b, t in its if t["callee"].rsplit("::", 1)[-1] in ("find", "find_map", "position") and not rev(t)]
        other = sorted({t["callee"].rsplit("::", 1)[-1] for b, t in its} - FWD | {t["callee"] for b, t in its if rev(t)})
        ceqs = [(g, t) for g in prog.closures_of(f) for b, t in g.calls() if callee_is(t, "eq")]
        ok = len(search) == 1 and not other and len(ceqs) == 1
        msg = f"forward search {[t['callee'].rsplit('::', 1)[-1] for t in search]} with {len(ceqs)} comparison(s) in its closure" + (f"; adaptors that change the order or the winner: {other}" if other else "")
    ctx.ob("R10.5", "Value::get_key_value:first-member-wins", ok, f.loc(), msg)


def r10_s(ctx):
    """the escape carry of the string scanners behind the unchecked walkers and the container skipper (shared with C13)"""
    from . import c13
    ctx.include(c13.r13_6, "R10.S")
    ctx.include(c13.r13_6c, "R10.S")
    ctx.include(c13.r13_11, "R10.S")  # the unchecked skipper behind get_unchecked ends a number where the number ends


RULES = [("R10.1", r10_1), ("R10.2", r10_2), ("R10.3", r10_3), ("R10.4", r10_4), ("R10.5", r10_5), ("R10.S", r10_s)]

"""C14 — validating lazy APIs never hand out malformed fragments: structural clauses."""
from ..facts import callee_is, op_local, op_place, op_int, FactError
from ..analysis import backward_slice, bool_switch_edges, specialised_reach, path_to, return_kinds, result_fate, result_edges
from .c01 import short
from .c02 import sinks, r02_5, r02_10, SINK_NAMES
from .c12 import r12_5

EXPLANATION = (
    "Decides structural necessary conditions of C14: (R14.1) from checked get / get_many / get_by_schema "
    "no non-validating skipper is reachable under flag specialisation, and the non-validating primitives "
    "(get_next_token, skip_container_loop) are called only from the functions of the non-validating "
    "family; (R14.2) in get, get_many and get_by_schema every Ok return on the need_utf8_valid() edge "
    "passes from_utf8 over the input prefix up to the reader index taken after the walk (not over the "
    "returned fragment only), with the error propagated; (R14.3) need_utf8_valid() is true exactly for "
    "byte-typed carriers; (R14.4) the validating skipper decodes \\u digits (= R02.5); (R14.5) raw spans "
    "are taken from the reader indices around the skip (= R12.5); (R14.6) the validating number skipper "
    "keeps the one-fraction discipline (= R02.10); (R14.7) on every backslash edge of the validating string skipper the escape interpreter is passed before the reader moves on. Does NOT decide that the validating skipper accepts "
    "only the grammar."
)
ASSUMPTIONS = ["rustc MIR and callee resolution; class-hierarchy edges for Reader/JsonInput/Index"]

ENTRIES = (("lazyvalue::get::get", "get_from_with_iter"), ("lazyvalue::get::get_many", "get_many"), ("value::get::get_by_schema", "get_by_schema"))


def r14_1(ctx):
    prog = ctx.prog()
    sk = sinks(prog)
    for ename, walk in ENTRIES:
        fn = prog.find(ename)
        reached, via = specialised_reach(prog, [(fn.id, {}, {})])
        hit = sorted(set(reached) & sk)
        ctx.ob("R14.1", f"{short(fn.id)}:avoids-unchecked", not hit, fn.loc(),
               f"{len(reached)} functions reachable from checked {fn.name}; none is a non-validating skipper" if not hit else
               "a non-validating skipper is reachable from the checked API: " + "; ".join(" -> ".join(short(a) for a, l in path_to(via, h)) for h in hit[:2]))
        val = [f for f in reached if prog.fns[f].name == "skip_one"]
        ctx.ob("R14.1", f"{short(fn.id)}:reaches-skip_one", bool(val), fn.loc(), "the checked API reaches the validating skipper")
    # who may call the non-validating primitives
    prims = ("get_next_token", "skip_container_loop")
    callers = prog.callers_of(lambda t: callee_is(t, *prims) and "Parser" in t.get("callee", ""))
    ctx.floor("R14.1", "call sites of the non-validating primitives", len(callers), 4)
    allowed = set(SINK_NAMES) | {"get_from_object", "get_from_array", "skip_space", "skip_space_peek"}
    for f, b, t in callers:
        owner = prog.fns.get(f.parent_fn, f) if f.parent_fn else f
        ok = owner.name in allowed
        ctx.ob("R14.1", f"who-may-call:{t['callee'].rsplit('::', 1)[-1]}<-{short(owner.id)}", ok, f.loc(t["ln"]),
               f"{t['callee'].rsplit('::', 1)[-1]} (jumps over bytes without validating them) is called from the non-validating family" if ok else
               f"{t['callee'].rsplit('::', 1)[-1]} (jumps over bytes without validating them) is called from {short(owner.id)}, which the validating API can reach")


def _success_exits(fn):
    """blocks that give the function's success value: Ok(..) built here, or a callee's Result handed on as it is"""
    return {b for b, k, x in return_kinds(fn) if k in ("Ok", "other") or (k == "call" and not callee_is(x, "from_residual"))}


def _flows_to_return(fn, l):
    from ..analysis import forward_derived
    der = {l}
    for _ in range(4):
        der |= forward_derived(fn, der)
        for b, t in fn.calls():
            if callee_is(t, "map", "map_err", "and_then", "and", "or_else") and t["args"] and op_local(t["args"][0]) in der:
                der.add(t["dest"][0])
    return 0 in der


def _leaves_through(fn, l, call=None):
    """leaves of the backward slice of local l in fn; a leaf that is a parameter of fn is replaced by the leaves of the
    corresponding argument at the call site `call` = (caller, term) (the helper is read in the context of its caller)"""
    sl, leaves = backward_slice(fn, [l]) if l is not None else (set(), [])
    out = []
    for lf in leaves:
        pi = lf[1] if lf[0] == "param" else (fn.src(lf[1][0])[1] if lf[0] == "place" and fn.src(lf[1][0])[0] == "param" else None)
        if pi is not None and call is not None and 1 <= pi <= len(call[1]["args"]):
            a = op_local(call[1]["args"][pi - 1])
            out += [("caller",) + tuple(x) for x in (backward_slice(call[0], [a])[1] if a is not None else [])]
        out.append(lf)
    return out


def r14_2(ctx):
    """the post-walk validation, written in the entry point itself or in a private helper of its module that the entry
    point calls after the walk (the helper is read with its parameters bound to the caller's arguments)"""
    prog = ctx.prog()
    for ename, walk in ENTRIES:
        fn = prog.find(ename)
        key = short(fn.id)
        walks = [(b, t) for b, t in fn.calls() if callee_is(t, walk)]
        oks = [b for b, k, _ in return_kinds(fn) if k == "Ok"]
        # where from_utf8 is called: here, or in a helper called from here
        V, hcall = fn, None
        if not any(callee_is(t, "from_utf8") for b, t in fn.calls()):
            for b, t in fn.calls():
                g = prog.fns.get(t["callee"])
                if g is not None and g.crate == "sonic_rs" and not callee_is(t, walk) and norm_mod(g.id) == norm_mod(fn.id) and any(callee_is(tt, "from_utf8") for bb, tt in g.calls()):
                    V, hcall = g, (b, t)
                    break
        fu = [(b, t) for b, t in V.calls() if callee_is(t, "from_utf8")]
        need_f = [(b, t) for b, t in fn.calls() if callee_is(t, "need_utf8_valid")]
        need_v = [(b, t) for b, t in V.calls() if callee_is(t, "need_utf8_valid")] if V is not fn else []
        idx_f = [(b, t) for b, t in fn.calls() if callee_is(t, "Reader::index")]
        idx_v = [(b, t) for b, t in V.calls() if callee_is(t, "Reader::index")] if V is not fn else []
        if not (walks and (need_f or need_v) and fu and (idx_f or idx_v) and oks):
            ctx.ob("R14.2", f"{key}:shape", False, fn.loc(), f"missing part of the post-walk validation (walk {bool(walks)}, need_utf8_valid {bool(need_f or need_v)}, from_utf8 {bool(fu)}, index {bool(idx_f or idx_v)})")
            continue
        fb = {b for b, t in fu}
        if V is fn:
            e = bool_switch_edges(fn, need_f[0][1]["dest"][0])
            ok_path = bool(e) and not (fn.reachable_from(e[0], avoid=fb) & set(oks))
        else:
            hb, ht = hcall
            # in the entry point: every Ok return passes the helper (on the need_utf8_valid() edge, if the test is made here)
            e = bool_switch_edges(fn, need_f[0][1]["dest"][0]) if need_f else None
            start = e[0] if e else 0
            ok_here = not (fn.reachable_from(start, avoid={hb}) & set(oks))
            # in the helper: on the edge where validation is needed, every success exit passes from_utf8
            vstart = None
            if need_v:
                ev = bool_switch_edges(V, need_v[0][1]["dest"][0])
                vstart = ev[0] if ev else None
            elif e:
                vstart = 0      # the helper is only called when validation is needed
            else:
                # the caller's need_utf8_valid() handed over as a bool parameter
                for i, a in enumerate(ht["args"], start=1):
                    la = op_local(a)
                    if la is not None and i < len(V.locals) and V.locals[i]["ty"] == "bool" and any(lf[0] == "call" and callee_is(lf[2], "need_utf8_valid") for lf in backward_slice(fn, [la])[1]):
                        ev = bool_switch_edges(V, i)
                        vstart = ev[0] if ev else None
            ok_path = ok_here and vstart is not None and not (V.reachable_from(vstart, avoid=fb) & (_success_exits(V) - fb))
        ctx.ob("R14.2", f"{key}:ok-passes-from_utf8", ok_path, V.loc(fu[0][1]["ln"]),
               "on the need_utf8_valid() edge every Ok return passes from_utf8" if ok_path else "an Ok return on the need_utf8_valid() edge bypasses from_utf8")
        # the error is propagated: out of the body that calls from_utf8, and (for a helper) out of the entry point
        def propagated(g, sites, success):
            okp = True
            for b, t in sites:
                if result_fate(g, b, t) != "propagated" and not _flows_to_return(g, t["dest"][0]):
                    okp = False
                if _flows_to_return(g, t["dest"][0]) and not any(callee_is(tt, "branch") and op_local(tt["args"][0]) == t["dest"][0] for bb, tt in g.calls()):
                    continue    # returned as it is
                tb = [(bb, tt) for bb, tt in g.calls() if callee_is(tt, "branch") and op_local(tt["args"][0]) == t["dest"][0]]
                re_ = result_edges(g, tb[0][1]["dest"][0]) if tb else result_edges(g, t["dest"][0])
                if re_ is None or (g.reachable_from(re_[1]) & success):
                    okp = False
            return okp
        okp = propagated(V, fu, {b for b, k, _ in return_kinds(V) if k == "Ok"})
        if V is not fn:
            okp = okp and propagated(fn, [hcall], set(oks))
        ctx.ob("R14.2", f"{key}:error-propagated", okp, V.loc(fu[0][1]["ln"]), "the UTF-8 error is propagated and its edge cannot reach Ok")
        # what is validated: the input prefix up to the reader index after the walk
        a = op_local(fu[0][1]["args"][0])
        leaves = _leaves_through(V, a, (fn, hcall[1]) if hcall else None)
        is_call = lambda lf, *names: (lf[0] == "call" and callee_is(lf[2], *names)) or (lf[0] == "caller" and lf[1] == "call" and callee_is(lf[3], *names))
        has_idx = any(is_call(lf, "Reader::index") for lf in leaves)
        has_in = any(is_call(lf, "to_u8_slice") for lf in leaves)
        from_walk = any(is_call(lf, walk) for lf in leaves)
        after = all(fn.dominates(walks[0][0], b) for b, t in idx_f) and (V is fn or fn.dominates(walks[0][0], hcall[0]))
        okv = has_idx and has_in and not from_walk and after
        ctx.ob("R14.2", f"{key}:validates-prefix", okv, V.loc(fu[0][1]["ln"]),
               "from_utf8 runs over input[..index] with index read after the walk: everything traversed is validated" if okv else
               "from_utf8 does not cover the whole traversed prefix input[..index] (skipped members and keys before the target are not validated)")


def norm_mod(fid):
    from ..facts import norm_path
    return norm_path(fid).rsplit("::", 1)[0]


def r14_3(ctx):
    prog = ctx.prog()
    ims = [im for im in prog.impls if im["trait"] == "sonic_rs::input::JsonInput"]
    ctx.floor("R14.3", "impl JsonInput", len(ims), 5)
    for im in ims:
        fn = prog.fns.get(im["methods"].get("need_utf8_valid", ""))
        ty = im["self_ty"]
        want = None
        if "[u8]" in ty or "Bytes" in ty:
            want = 1
        elif "str" in ty or "String" in ty or "FastStr" in ty:
            want = 0
        got = None
        if fn:
            for b, i, s in fn.assigns():
                if s["lhs"] == [0, []] and s["rv"]["k"] == "use" and s["rv"]["op"]["k"] == "const":
                    got = op_int(s["rv"]["op"])
        ctx.ob("R14.3", f"need_utf8_valid:{ty}", want is not None and got == want, fn.loc() if fn else "", f"carrier {ty}: need_utf8_valid() = {bool(got) if got is not None else got}; byte-typed carriers must be validated, str-typed ones are UTF-8 by type")


def r14_4(ctx):
    r02_5(ctx)
    for o in ctx.obligations:
        if o["rule"] == "R02.5":
            o["rule"] = "R14.4"


def r14_5(ctx):
    r12_5(ctx)
    for o in ctx.obligations:
        if o["rule"] == "R12.5":
            o["rule"] = "R14.5"


def r14_6(ctx):
    r02_10(ctx)
    for o in ctx.obligations:
        if o["rule"] == "R02.10":
            o["rule"] = "R14.6"


def r14_s(ctx):
    """further clauses of the validating skipper behind the checked lazy APIs (shared with C02)"""
    from . import c02
    for fn in (c02.r02_2, c02.r02_4, c02.r02_7, c02.r02_11, c02.r02_12, c02.r02_13):
        ctx.include(fn, 'R14.S')
    from . import c10
    ctx.include(c10.r10_1, 'R14.S')   # the checked walkers decode a member name before they compare it (no raw-byte shortcut past the validating key parser)


def r14_7(ctx):
    """the validating string skipper hands every escape to the escape interpreter: on the backslash edge of each byte dispatch of
    `Parser::skip_string` no reader step (eat / next / peek) and no return is reachable without passing `skip_escaped_chars`
    (a shortcut that steps over the byte behind a backslash accepts `\` + control byte, `\q`, ...)"""
    from ..analysis import switch_edges
    prog = ctx.prog()
    fs = [f for f in prog.fns.values() if f.crate == "sonic_rs" and f.name == "skip_string" and (f.self_adt or "").endswith("Parser")]
    if not fs:
        ctx.fail_closed("R14.7", "Parser::skip_string")
        return
    # the skipper and the Parser helpers it is built from (two levels), not the escape interpreter itself
    cg = prog.callgraph
    cone = {f.id for f in fs}
    for _ in range(2):
        for fid in list(cone):
            for c in cg.get(fid, ()):
                g = prog.fns.get(c)
                if g is not None and g.crate == "sonic_rs" and (g.self_adt or "").endswith("Parser") and g.name not in ("skip_escaped_chars", "error", "fix_position") and "closure" not in g.kind:
                    cone.add(c)
    n = 0
    for f in sorted((prog.fns[i] for i in cone), key=lambda g: g.id):
        esc = {b for b, t in f.calls() if callee_is(t, "skip_escaped_chars")}
        step = {b for b, t in f.calls() if callee_is(t, "eat", "next", "peek", "peek_n", "backward", "set_index")}
        for b, t in f.terms():
            if t["k"] != "switch":
                continue
            tg = dict(switch_edges(f, b))
            # a dispatch that tells the backslash from the closing quote (a classification `matches!(ch, b'"' | b'\\' | ..)` has one target for both)
            if 92 not in tg or 34 not in tg or tg[92] == tg[34]:
                continue
            n += 1
            start = tg[92]
            free = set() if start in esc else f.reachable_from(start, avoid=esc)
            bad = sorted((free & step) | (free & set(f.return_blocks)))
            ctx.ob("R14.7", f"{f.name}:backslash-edge#{n}:escape-interpreted", not bad, f.loc(t.get("ln")),
                   "every path from the backslash edge passes skip_escaped_chars before the reader moves or the function returns" if not bad else
                   "from the backslash edge the reader can move on (or the function return) without skip_escaped_chars: the byte behind the backslash is not validated as an escape")
    ctx.floor("R14.7", "backslash edges in the byte dispatches of skip_string and its helpers", n, 1)


RULES = [("R14.1", r14_1), ("R14.2", r14_2), ("R14.3", r14_3), ("R14.4", r14_4), ("R14.5", r14_5), ("R14.6", r14_6), ("R14.7", r14_7), ("R14.S", r14_s)]

"""C20 — errors locate themselves inside the input and streams end cleanly."""
from ..facts import callee_is, op_local, op_place, op_int, FactError
from ..analysis import (backward_slice, bool_switch_edges, specialised_reach, path_to, return_kinds, error_taint,
                        result_edges, forward_derived)
from .c01 import short, r01_4
from .c12 import _field_switch, _field_store_true

EXPLANATION = (
    "Decides structural necessary conditions of C20: (R20.1) every index handed to Error::syntax is "
    "clamped/constant/validator-made (= R01.4), the index stored in the error is the value passed to "
    "Position::from_index, and from_index clamps to the slice length; (R20.2) in every method of the "
    "serde Deserializer that calls a visitor itself, an Err made by the visitor cannot reach the return "
    "without passing fix_position (error taint on the MIR), except where the visitor is handed the "
    "deserializer itself; (R20.3) the four not-found codes are constructed only in path walkers, and "
    "those are unreachable from non-lookup entries; (R20.4) StreamDeserializer::next tests its latch "
    "first and sets it on the error edge; (R20.5) Display for Error contains no unwrap/expect/indexing; "
    "(R20.6) an Err produced by the in-place parser over its private copy passes Error::rebase(json) "
    "before leaving parse_with_padding, and rebase treats index == len as inside the input. Does NOT "
    "decide that the reported offset is the right one nor the line/column arithmetic itself."
)
ASSUMPTIONS = ["rustc MIR and callee resolution; callback model for serde visitors"]


def r20_1(ctx):
    r01_4(ctx)
    for o in ctx.obligations:
        if o["rule"] == "R01.4":
            o["rule"] = "R20.1"
    prog = ctx.prog()
    es = prog.find("Error::syntax")
    fi = [(b, t) for b, t in es.calls() if callee_is(t, "Position::from_index", "from_index")]
    ok = False
    if fi:
        a = op_local(fi[0][1]["args"][0])
        # the `index` field of the ErrorImpl aggregate
        for b, i, s in es.assigns():
            rv = s["rv"]
            if rv["k"] == "agg" and "ErrorImpl" in rv.get("adt", ""):
                o = rv["f"][rv["fields"].index("index")]
                l = op_local(o)
                if l is not None and a is not None and es.src(l) == es.src(a) == ("param", 3):
                    ok = True
                # line/column come from that Position
                for fld in ("line", "column"):
                    fl = op_local(rv["f"][rv["fields"].index(fld)])
                    sl, leaves = backward_slice(es, [fl]) if fl is not None else (set(), [])
                    if not any(lf[0] == "call" and callee_is(lf[2], "from_index") for lf in leaves):
                        ok = False
    ctx.ob("R20.1", "Error::syntax:index==position-index", ok, es.loc(), "the stored offset is the value whose line/column Position::from_index computed, over the same slice")
    pf = prog.find("Position::from_index")
    mins = [(b, t) for b, t in pf.calls() if callee_is(t, "min")]
    okc = False
    if mins:
        mt = mins[0][1]
        a_leaves = [backward_slice(pf, [op_local(a)])[1] if op_local(a) is not None else [] for a in mt["args"]]
        has_len = any(lf[0] == "call" and callee_is(lf[2], "len") for lv in a_leaves for lf in lv)
        has_i = any(lf == ("param", 1) for lv in a_leaves for lf in lv)
        # the slice that is scanned is data[..clamped]
        idx = [(b, t) for b, t in pf.calls() if callee_is(t, "index") and "slice" in t["callee"]]
        bounded = False
        for b, t in idx:
            l = op_local(t["args"][1])
            if l is not None and mt["dest"][0] in backward_slice(pf, [l])[0]:
                bounded = True
        okc = has_len and has_i and bounded
    if not okc:
        # the clamp written as a comparison: the bound of the scanned prefix is, on the edge where i > len, len itself
        from .c01 import _sym
        from ..intervals import Intervals
        idx = [(b, t) for b, t in pf.calls() if callee_is(t, "index") and "slice" in t["callee"]]
        lens = {b for b, t in pf.calls() if callee_is(t, "len")}
        for b, t in idx:
            l = op_local(t["args"][1])
            sl, leaves = backward_slice(pf, [l]) if l is not None else (set(), [])
            # every definition of the bound is either len() or the parameter under a dominating `i <= len` edge
            ends = [x for x in sl | {l} if len(pf.defs.get(x, [])) >= 2]
            for e_ in ends:
                good = 0
                for d in pf.defs.get(e_, []):
                    if d[0] == "call" and callee_is(d[2], "len"):
                        good += 1
                        continue
                    if d[0] != "stmt" or d[3]["rv"]["k"] != "use":
                        continue
                    v = _sym(pf, d[3]["rv"]["op"])
                    if v and v[0] and v[0][0] == "call" and v[0][1] in lens and v[1] == 0:
                        good += 1
                    elif v and v[0] == ("param", 1) and v[1] == 0:
                        # guarded by a comparison of the parameter with len() on the not-greater edge
                        for bb, ii, ss in pf.assigns():
                            r2 = ss["rv"]
                            if r2["k"] == "binop" and r2["op"] in ("Gt", "Ge", "Lt", "Le") and pf.dominates(bb, d[1]):
                                sa, sb_ = _sym(pf, r2["a"]), _sym(pf, r2["b"])
                                if sa and sb_ and {sa[0], sb_[0]} >= {("param", 1)} and any(x[0] and x[0][0] == "call" and x[0][1] in lens for x in (sa, sb_)):
                                    ee = bool_switch_edges(pf, ss["lhs"][0])
                                    idx_left = sa[0] == ("param", 1)
                                    op = r2["op"] if idx_left else {"Lt": "Gt", "Gt": "Lt", "Le": "Ge", "Ge": "Le"}[r2["op"]]
                                    within = ee[1] if op in ("Gt", "Ge") else ee[0] if ee else None
                                    if ee and within is not None and (d[1] == within or pf.dominates(within, d[1])):
                                        good += 1
                if good >= 2 and good == len(pf.defs.get(e_, [])):
                    okc = True
    ctx.ob("R20.1", "Position::from_index:clamp", okc, pf.loc(), "Position::from_index clamps the index to the slice length before scanning")
    # the scan compares against the newline byte only
    bytes_cmp = set()
    for g in prog.with_closures(pf):     # the predicate of filter / position / rposition is a closure of the function
        for b, t in g.terms():
            if t["k"] == "switch" and t.get("dty") == "u8":
                bytes_cmp |= {int(v) for v, _ in t["targets"]}
        for b, i, st in g.assigns():
            rv = st["rv"]
            if rv["k"] == "binop" and rv["op"] in ("Eq", "Ne") and "u8" in (rv["a"].get("ty"), rv["b"].get("ty")):
                bytes_cmp |= {x for x in (op_int(rv["a"]), op_int(rv["b"])) if x is not None}
    ctx.ob("R20.1", "Position::from_index:newline", bytes_cmp == {10}, pf.loc(), f"line breaks are recognised by byte(s) {sorted(bytes_cmp)}")
    # search form: the column is the number of bytes BEHIND the last newline - a difference `end - p` taken from the
    # position p that a backwards search for the newline returned is `end - p - 1`
    from ..analysis import affine_multi
    k = 0
    for g in prog.with_closures(pf):
        rp = [(b, t) for b, t in g.calls() if callee_is(t, "rposition", "rfind")]
        # the found position: the payload of the search result here, or the argument of a closure applied to it
        found = set()
        for b, t in rp:
            for bb, ii, ss in g.assigns():
                pl = op_place(ss["rv"]["op"]) if ss["rv"]["k"] == "use" else None
                if pl is not None and pl[0] == t["dest"][0] and pl[1]:
                    found.add(("local", ss["lhs"][0]))
                    found.add(("place", pl[0], __import__("json").dumps(pl[1])))
        if g.parent_fn:
            par = prog.fns.get(g.parent_fn)
            if par is not None and any(callee_is(t, "map_or", "map", "map_or_else") and g.id in (t.get("arg_adts") or []) and op_local(t["args"][0]) is not None
                                       and any(lf[0] == "call" and callee_is(lf[2], "rposition", "rfind") for lf in backward_slice(par, [op_local(t["args"][0])])[1]) for b, t in par.calls()):
                found.add(("local", g.argc))
        if not found:
            continue
        for b, i, st in g.assigns():
            rv = st["rv"]
            if rv["k"] == "binop" and rv["op"].startswith("Sub"):
                x, y = affine_multi(g, rv["a"]), affine_multi(g, rv["b"])
                if x is None or y is None:
                    continue
                form = dict(x)
                for kk, v in y.items():
                    form[kk] = form.get(kk, 0) - v
                hit = [kk for kk in form if kk in found and form[kk] != 0]
                # only the outermost difference counts: one whose result is not itself subtracted from again
                if not hit:
                    continue
                used_again = any(ss["rv"]["k"] == "binop" and ss["rv"]["op"].startswith(("Sub", "Add")) and st["lhs"][0] in (backward_slice(g, [x_ for x_ in (op_local(ss["rv"]["a"]), op_local(ss["rv"]["b"])) if x_ is not None], through_calls=False)[0] | {op_local(ss["rv"]["a"]), op_local(ss["rv"]["b"])})
                                 for bb, ii, ss in g.assigns() if ss is not st)
                if used_again:
                    continue
                k += 1
                ok = form.get(hit[0]) == -1 and form.get(1, 0) == -1
                ctx.ob("R20.1", f"Position::from_index:column-behind-newline#{k}", ok, g.loc(st.get("ln")),
                       "the column is end - (position of the last newline) - 1: the bytes behind it" if ok else
                       f"the column is computed as end - p{form.get(1, 0):+d} from the position p of the last newline: it has to be end - p - 1 (the newline itself is not in the next line)")


VISITOR_TRAITS = ("serde_core::de::Visitor", "serde::de::Visitor")


def r20_2(ctx):
    prog = ctx.prog()
    methods = [f for f in prog.fns.values() if f.crate == "sonic_rs" and f.trait and f.trait.endswith("de::Deserializer") and (f.self_adt or "").endswith("serde::de::Deserializer") and f.kind == "AssocFn"]
    ctx.floor("R20.2", "methods of impl de::Deserializer for &mut Deserializer<R>", len(methods), 28)
    n = 0
    for f in methods:
        sources = []
        delegations = 0
        for b, t in f.calls():
            if t.get("st") == "U" and (t.get("trait") in VISITOR_TRAITS):
                # handed the deserializer itself -> the callee re-enters a positioned method
                self_handed = False
                for a in t["args"][1:]:
                    l = op_local(a)
                    if l is not None and f.src(l) == ("param", 1):
                        self_handed = True
                if self_handed:
                    delegations += 1
                    continue
                if t["dest"][1] or t["dest"][0] == 0:
                    sources.append(("direct", b, t))
                else:
                    sources.append((t["dest"][0], b, t))
        if not sources:
            continue
        n += 1
        direct = [x for x in sources if x[0] == "direct"]
        locs = [x[0] for x in sources if x[0] != "direct"]
        def closure_calls(fid, names):      # the positioning may sit in a closure handed to map_err / or_else
            g = prog.fns.get(fid)
            return g is not None and any(callee_is(tt, *names) for bb, tt in g.calls())
        bad, tainted = error_taint(f, locs, sanitizers=("fix_position", "error"), closure_calls=closure_calls)
        ok = not bad and not direct
        where = f.loc((direct[0][2] if direct else (bad[0][1] if bad else sources[0][2])).get("ln"))
        ctx.ob("R20.2", f"{f.name}", ok, where,
               f"{len(sources)} visitor call(s): every error they make passes fix_position before it is returned" if ok else
               "an error made by the visitor is returned without fix_position: line 0, column 0 is reported for a type error at this level")
    ctx.floor("R20.2", "methods calling a visitor themselves", n, 10)
    # the accessors are constructed only inside Deserializer methods (so their errors pass a positioned method)
    for adt in ("SeqAccess", "MapAccess", "VariantAccess", "UnitVariantAccess", "MapKey"):
        full = f"sonic_rs::serde::de::{adt}"
        builders = set()
        for f in prog.fns.values():
            for b, i, s in f.assigns():
                if s["rv"]["k"] == "agg" and s["rv"].get("adt") == full:
                    builders.add(f.id)
        callers = set()
        for bid in builders:
            for cf, cb, ct in prog.callers_of(lambda t, bid=bid: t.get("callee") == bid):
                callers.add(cf.id)
        allc = builders | callers
        okb = all((prog.fns[x].self_adt or "").startswith("sonic_rs::serde::de::") for x in allc) and bool(allc)
        ctx.ob("R20.2", f"who-may-construct:{adt}", okb, "", f"{adt} is constructed only inside the serde deserializer ({len(allc)} functions)")


def r20_3(ctx):
    prog = ctx.prog()
    makers = set()
    for f in prog.fns.values():
        if f.crate != "sonic_rs":
            continue
        for b, i, s in f.assigns():
            rv = s["rv"]
            if rv["k"] == "agg" and rv.get("adt", "").endswith("error::ErrorCode") and rv.get("variant", "").startswith("Get"):
                makers.add(f.id)
    ctx.floor("R20.3", "functions constructing a not-found code", len(makers), 3)
    for m in sorted(makers):
        f = prog.fns[m]
        owner = prog.fns.get(f.parent_fn, f) if f.parent_fn else f
        ok = owner.self_adt == "sonic_rs::parser::Parser" and owner.name.startswith(("get_from", "get_many", "get_by_schema")) or owner.file.endswith("error.rs")
        ctx.ob("R20.3", f"maker:{short(owner.id)}", ok, f.loc(), "not-found code constructed in a path walker" if ok else "a not-found code is constructed outside the path walkers")
    entries = [prog.find("serde::de::from_trait").id]
    for f in prog.fns.values():
        if f.crate == "sonic_rs" and (f.name in ("next_entry_impl", "next_elem_impl") or (f.name == "next" and (f.self_adt or "").endswith("StreamDeserializer")) or (f.kind == "Fn" and f.file.endswith("serde/ser.rs") and f.name.startswith("to_"))):
            entries.append(f.id)
    reached, via = specialised_reach(prog, [(e, {}, {}) for e in entries])
    walkers = {m for m in makers if not prog.fns[m].file.endswith("error.rs")}
    hit = sorted(set(reached) & walkers)
    ctx.ob("R20.3", "non-lookup-entries-avoid-walkers", not hit, "", f"{len(entries)} non-lookup entries reach {len(reached)} functions, none constructs a not-found code" if not hit else
           "a not-found code can arise outside path lookups: " + " -> ".join(short(a) for a, l in path_to(via, hit[0])))


def r20_4(ctx):
    prog = ctx.prog()
    fs = [f for f in prog.fns.values() if f.crate == "sonic_rs" and f.name == "next" and (f.self_adt or "").endswith("StreamDeserializer")]
    if len(fs) != 1:
        ctx.fail_closed("R20.4", "StreamDeserializer::next")
        return
    f = fs[0]
    sw = _field_switch(f, "is_ending")
    ok0 = bool(sw) and len(f.reachable_from(0, avoid={sw[0][0]})) <= 2
    ctx.ob("R20.4", "stream:latch-tested-first", ok0, f.loc(), "StreamDeserializer::next tests is_ending before deserializing")
    if not sw:
        return
    sb, latched_t, open_t = sw[0]
    nones = [b for b, k, _ in return_kinds(f) if k == "None"]
    ctx.ob("R20.4", "stream:latched-yields-None", all(b in f.reachable_from(latched_t) for b in nones) and bool(nones), f.loc(), "on the latched edge None is returned")
    stores = _field_store_true(f, "is_ending")
    # the store is on the error edge of a test on the value that is returned
    ok = False
    des = [(b, t) for b, t in f.calls() if callee_is(t, "deserialize")]
    for b, t in f.calls():
        if callee_is(t, "is_err", "is_ok") and des:
            a = op_local(t["args"][0])
            if a is not None and (f.src(a) == ("refof", des[0][1]["dest"][0]) or des[0][1]["dest"][0] in backward_slice(f, [a])[0]):
                e = bool_switch_edges(f, t["dest"][0])
                if e:
                    err_t = e[0] if callee_is(t, "is_err") else e[1]
                    ok_t = e[1] if callee_is(t, "is_err") else e[0]
                    # every return reachable from the error edge passes a store
                    if not (f.reachable_from(err_t, avoid=stores) & set(f.return_blocks)):
                        ok = True
    if not ok and des:
        re_ = result_edges(f, des[0][1]["dest"][0])
        if re_ and not (f.reachable_from(re_[1], avoid=stores) & set(f.return_blocks)):
            ok = True
    ctx.ob("R20.4", "stream:latch-set-on-error", ok, f.loc(), "when the deserialized item is an error, is_ending is set before it is yielded" if ok else "an error item can be yielded without latching is_ending: the stream reports further items after an error")
    # every fallible step whose Result reaches the yielded item is latched on its error edge (a check added behind the
    # deserialization - `x.map(|()| val)` returned as it is - yields its error with the stream still open)
    sl = backward_slice(f, [0])[0]
    srcs = []
    for b, t in f.calls():
        d = t.get("dest")
        if not d or d[1] or d[0] not in sl or (des and t is des[0][1]):
            continue
        if callee_is(t, "map", "map_err", "and_then", "or_else", "branch", "from_residual", "is_err", "is_ok", "into"):
            continue
        ty = str(f.locals[d[0]].get("ty", "") if isinstance(f.locals[d[0]], dict) else f.locals[d[0]])
        if "Result<" not in ty:
            continue
        srcs.append((b, t))
    for k, (b, t) in enumerate(srcs):
        re_ = result_edges(f, t["dest"][0])
        good = bool(re_) and re_[1] is not None and not (f.reachable_from(re_[1], avoid=stores) & set(f.return_blocks))
        ctx.ob("R20.4", f"stream:latch-set-on-error:{t['callee'].rsplit('::', 1)[-1]}#{k + 1}", good, f.loc(t.get("ln")),
               "the Result of this step reaches the yielded item; its error edge sets is_ending before the item is yielded" if good else
               "the Result of this step reaches the yielded item without a test whose error edge sets is_ending: the stream yields again after this error")


def r20_5(ctx):
    prog = ctx.prog()
    fs = [f for f in prog.fns.values() if f.crate == "sonic_rs" and f.name == "fmt" and (f.trait or "").endswith("fmt::Display") and (f.self_adt or "").endswith(("error::Error", "error::ErrorImpl", "error::ErrorCode"))]
    ctx.floor("R20.5", "Display impls of the error types", len(fs), 2)
    for f in fs:
        bad = []
        for b, t in f.calls():
            nm = t["callee"].rsplit("::", 1)[-1]
            if nm in ("unwrap", "expect", "unwrap_unchecked") or "panic" in t["callee"]:
                bad.append(nm)
        for b, t in f.terms():
            if t["k"] == "assert" and t["msg"] in ("BoundsCheck", "Overflow", "DivisionByZero"):
                bad.append(t["msg"])
        ctx.ob("R20.5", f"display:{f.impl['self_ty']}", not bad, f.loc(), "formatting the error cannot panic (no unwrap/expect/indexing/overflow assert)" if not bad else f"formatting the error can panic: {bad}")


def r20_6(ctx):
    prog = ctx.prog()
    f = prog.find("Value::parse_with_padding")
    srcs = []
    for b, t in f.calls():
        g = t.get("rgargs") or t.get("gargs") or []
        if any("PaddedSliceRead" in x for x in g) and "Result<" in t.get("dty", "") and "error::Error" in t.get("dty", ""):
            if t["dest"][0] == 0 or t["dest"][1]:
                srcs.append(("direct", t))
            else:
                srcs.append((t["dest"][0], t))
    ctx.floor("R20.6", "fallible calls on the in-place parser", len(srcs), 1)
    direct = [x for x in srcs if x[0] == "direct"]
    def closure_calls(fid, names):
        g = prog.fns.get(fid)
        return g is not None and any(callee_is(tt, *names) for bb, tt in g.calls())
    bad, tainted = error_taint(f, [x[0] for x in srcs if x[0] != "direct"], sanitizers=("rebase",), closure_calls=closure_calls)
    ok = not bad and not direct
    ctx.ob("R20.6", "parse_with_padding:errors-rebased", ok, f.loc((bad[0][1] if bad else srcs[0][1]).get("ln")),
           "an error of the in-place parser (rendered over its private, unescaped copy) passes Error::rebase before it is returned" if ok else
           "an error of the in-place parser leaves parse_with_padding without being re-rendered over the caller's text: line/column/snippet come from the mutated private copy")
    # rebase is given the caller's json
    rb = [(b, t) for b, t in f.calls() if callee_is(t, "rebase")]
    okj = bool(rb) and all(op_local(t["args"][1]) is not None and ("param", 2) in backward_slice(f, [op_local(t["args"][1])])[1] for b, t in rb)
    if not rb:
        # rebase inside a closure handed to map_err: its text argument comes from the closure's captures, and the closure
        # captures the json parameter
        for g in prog.with_closures(f):
            if g.id == f.id:
                continue
            grb = [(b, t) for b, t in g.calls() if callee_is(t, "rebase")]
            if grb and all(any(lf[0] == "param" and lf[1] == 1 for lf in backward_slice(g, [op_local(t["args"][1])])[1]) for b, t in grb if op_local(t["args"][1]) is not None):
                mk = [(b, i, st) for b, i, st in f.assigns() if st["rv"]["k"] == "agg" and st["rv"].get("ak") == "closure" or (st["rv"]["k"] == "agg" and g.id in str(st["rv"]))]
                caps = set()
                for b, i, st in mk:
                    for o in st["rv"].get("f", []):
                        lo = op_local(o)
                        if lo is not None:
                            caps |= {lf[1] for lf in backward_slice(f, [lo])[1] if lf[0] == "param"}
                okj = 2 in caps or not mk
    ctx.ob("R20.6", "parse_with_padding:rebase-over-input", okj, f.loc(), "rebase is given the caller's json")
    # rebase itself: index == len is a position inside the input (EOF errors); only index > len is left alone
    r = prog.find("Error::rebase")
    # rebase, the private helpers of Error it delegates to, and the closures of both
    cluster = list(prog.with_closures(r))
    for b, t in r.calls():
        g = prog.fns.get(t["callee"])
        if g is not None and g is not r and (g.impl or {}).get("self_ty") == (r.impl or {}).get("self_ty") and not callee_is(t, "Error::syntax"):
            cluster += [x for x in prog.with_closures(g) if x not in cluster]
    cmps = []
    for h in cluster:
        for b, i, s in h.assigns():
            rv = s["rv"]
            if rv["k"] == "binop" and rv["op"] in ("Gt", "Ge", "Lt", "Le"):
                la, lb = op_local(rv["a"]), op_local(rv["b"])
                if la is None or lb is None:
                    continue
                a_leaves = backward_slice(h, [la])[1]
                b_leaves = backward_slice(h, [lb])[1]
                # the error's index: its field, or (inside a closure of the family) the closure's own argument
                is_idx = lambda lv: any((lf[0] == "place" and "index" in [e[2] for e in lf[1][1] if isinstance(e, list) and e[0] == "."]) or (h.parent_fn and lf[0] == "param" and lf[1] >= 2) for lf in lv)
                is_len = lambda lv: any(lf[0] == "call" and callee_is(lf[2], "len") for lf in lv)
                if is_idx(a_leaves) and is_len(b_leaves) and not is_len(a_leaves):
                    cmps.append(rv["op"])
                elif is_len(a_leaves) and is_idx(b_leaves) and not is_len(b_leaves):
                    cmps.append({"Gt": "Lt", "Ge": "Le", "Lt": "Gt", "Le": "Ge"}[rv["op"]])
    okc = bool(cmps) and all(c in ("Gt", "Le") for c in cmps)
    ctx.ob("R20.6", "rebase:boundary", okc, r.loc(), f"rebase compares index with len using {cmps}: index == len (an EOF error) is re-rendered, only index > len is left alone" if okc else f"rebase compares index with len using {cmps}: an error at index == len keeps the position computed over the private copy")
    sy = [(b, t) for h in cluster for b, t in h.calls() if callee_is(t, "Error::syntax")]
    ctx.ob("R20.6", "rebase:re-renders", bool(sy), r.loc(), "rebase re-renders through Error::syntax over the given text")


def r20_7(ctx):
    """an error of a nested parse over a span of the input is positioned in the input: wherever the parser re-parses a span
    taken with slice_unchecked(start, end) through a from_slice-like entry point, the error edge passes a call that
    receives the whole input text (a re-rendering at start + offset) before it is returned"""
    from ..analysis import result_edges
    prog = ctx.prog()
    n = 0
    for f in prog.fns.values():
        if f.crate != "sonic_rs" or f.kind == "Closure":
            continue
        for b, t in f.calls():
            if not callee_is(t, "from_slice", "from_str", "from_slice_unchecked") or "sonic_rs::serde::de" not in t["callee"]:
                continue
            a = op_local(t["args"][0]) if t["args"] else None
            sl, leaves = backward_slice(f, [a]) if a is not None else (set(), [])
            if not any(lf[0] == "call" and callee_is(lf[2], "slice_unchecked") for lf in leaves):
                continue
            n += 1
            res = t["dest"][0]
            tb = [(bb, tt) for bb, tt in f.calls() if callee_is(tt, "branch") and op_local(tt["args"][0]) == res]
            re_ = result_edges(f, tb[0][1]["dest"][0]) if tb else result_edges(f, res)
            mapped = False
            # the mapping may sit on the error edge or be applied to the Result before `?` (map_err with a closure)
            cands = []
            if re_ is not None:
                cands += [(bb, tt) for bb, tt in f.calls() if bb in (f.reachable_from(re_[1]) | {re_[1]})]
            cands += [(bb, tt) for bb, tt in f.calls() if callee_is(tt, "map_err") and tt["args"] and op_local(tt["args"][0]) is not None and res in (backward_slice(f, [op_local(tt["args"][0])])[0] | {op_local(tt["args"][0])})]
            for bb, tt in cands:
                if tt["callee"].rsplit("::", 1)[-1] in ("from_residual", "branch", "from", "into"):
                    continue
                bodies = [f] + [prog.fns[x] for x in (tt.get("arg_adts") or []) if x in prog.fns]
                for g in bodies:
                    for cb, ct in g.calls():
                        if g is f and (cb, ct) != (bb, tt):
                            continue
                        for a2 in ct["args"]:
                            la = op_local(a2)
                            if la is None:
                                continue
                            dsl, dleaves = backward_slice(g, [la], through_calls=False)
                            if any(x[0] == "call" and callee_is(x[2], "as_u8_slice") for x in dleaves) or (g is not f and any(x[0] == "place" for x in dleaves) and callee_is(ct, "rebase_sub", "syntax")):
                                mapped = True
            if re_ is None and not mapped:
                ctx.ob("R20.7", f"nested-parse:{short(f.id)}", False, f.loc(t["ln"]), "cannot find the error edge of the nested parse (fail closed)")
                continue
            ctx.ob("R20.7", f"nested-parse:{short(f.id)}", mapped, f.loc(t["ln"]),
                   "an error of the nested parse over a span is re-rendered against the whole input" if mapped else
                   "an error of the nested parse over a span of the input is returned as is: its offset, line and column are those inside the span, not in the input")
    ctx.ob("R20.7", "nested-parses-found", True, "", f"{n} nested parse(s) over a span of the reader's text", nontrivial=False)


def r20_s(ctx):
    """error offsets stay inside the input: the over-reading reader's length excludes exactly the padding and a parse cannot end in it (shared with C01)"""
    from . import c01
    ctx.include(c01.r01_2, 'R20.S')
    ctx.include(c01.r01_2b, 'R20.S')
    ctx.include(c01.r01_11, 'R20.S')
    from . import c09
    ctx.include(c09.r09_9, 'R20.S')   # the recorded position of the next invalid byte is absolute: an error built from it lies inside the input  # positions measured over a repaired (lossy) text are mapped back, for results and for errors


RULES = [("R20.1", r20_1), ("R20.2", r20_2), ("R20.3", r20_3), ("R20.4", r20_4), ("R20.5", r20_5), ("R20.6", r20_6), ("R20.7", r20_7), ("R20.S", r20_s)]

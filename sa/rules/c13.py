"""C13 — lazy values are faithful views: typestate of LazyRaw, verbatim channel, escape status."""
import collections
from ..facts import callee_is, op_local, op_place, op_int, op_bytes, const_strings, FactError
from ..analysis import backward_slice, bool_switch_edges, switch_edges, control_deps, return_kinds, forward_derived
from .c01 import short

EXPLANATION = (
    "Decides structural necessary conditions of C13: (R13.1) a LazyRaw (whose get_type is total only on "
    "numbers, strings, arrays and objects) is constructed only from an existing LazyRaw or on the "
    "non-literal edge of a dispatch on the first byte of its raw text — true/false/null can never be "
    "wrapped; (R13.2) Serialize for LazyValue and the raw arms of OwnedLazyValue emit through "
    "serialize_struct(TOKEN)+serialize_field(TOKEN, raw) with the very constant that the text serializer "
    "matches, which leads to RawValueStrEmitter::serialize_str -> write_raw_value with no escaping callee; "
    "(R13.3) ParseStatus -> HasEsc is total, as_str strips quotes only under no_escaped(), the escape "
    "status returned by the string skippers is set on every path that has seen a backslash; (R13.4) the "
    "borrowed-to-owned conversion derives every result from the raw text of its source; (R13.11) every number alphabet of the crate accepts the exponent marker in both cases. Does NOT decide "
    "accessor results or mutation histories."
)
ASSUMPTIONS = ["rustc MIR and callee resolution", "RFC 8259 first-byte alphabet of values"]

LAZYRAW = "sonic_rs::lazyvalue::owned::LazyRaw"


def r13_1(ctx):
    prog = ctx.prog()
    sites = []
    for fn in prog.fns.values():
        if fn.crate != "sonic_rs":
            continue
        for b, i, s in fn.assigns():
            rv = s["rv"]
            if rv["k"] == "agg" and rv.get("adt") == LAZYRAW:
                sites.append((fn, b, s))
    ctx.floor("R13.1", "LazyRaw construction sites", len(sites), 2)
    # get_type's totality domain, read from its own switch
    gt = prog.find("LazyRaw::get_type")
    dom = set()
    for b, t in gt.terms():
        if t["k"] == "switch" and t.get("dty") == "u8":
            dom |= {int(v) for v, _ in t["targets"]}
    for b, i, s in gt.assigns():
        pass
    # range tests 0..=9 are lowered to comparisons; literals are what matters
    lits = {116, 102, 110}
    ctx.ob("R13.1", "get_type:domain", not (dom & lits) and {34, 91, 123} <= dom, gt.loc(), f"LazyRaw::get_type dispatches on first bytes {sorted(chr(x) for x in dom)} (+ digits and '-'); literals are not in its domain")
    k = 0
    for fn, b, s in sites:
        k += 1
        rv = s["rv"]
        idx = rv["fields"].index("raw")
        o = rv["f"][idx]
        l = op_local(o)
        sl, leaves = backward_slice(fn, [l]) if l is not None else (set(), [])
        key = f"{short(fn.id)}#{k}"
        # (a) copy of an existing LazyRaw's text
        from_existing = any(lf[0] == "place" and "LazyRaw" in fn.locals[lf[1][0]]["ty"] and "raw" in [e[2] for e in lf[1][1] if isinstance(e, list) and e[0] == "."] for lf in leaves)
        if from_existing:
            ctx.ob("R13.1", key, True, fn.loc(s["ln"]), "built from the raw text of an existing LazyRaw (same typestate)")
            continue
        # (b) non-literal edge of a dispatch on the first byte of the same raw text
        ok = False
        for sb, t in fn.terms():
            if t["k"] != "switch" or t.get("dty") != "u8":
                continue
            vals = {int(v): tgt for v, tgt in t["targets"]}
            if not lits <= set(vals):
                continue
            dp = op_place(t["discr"])
            dl = dp[0] if dp else None
            dsl, dleaves = backward_slice(fn, [dl]) if dl is not None else (set(), [])
            shares = bool((dsl | {dl}) & (sl | {l})) or (any(lf[0] == "param" for lf in dleaves) and any(lf[0] == "param" for lf in leaves))
            lit_targets = {vals[v] for v in lits}
            others = {tgt for v, tgt in vals.items() if v not in lits} | {t["otherwise"]}
            reach_from_lit = any(b in fn.reachable_from(x, avoid=others - lit_targets) for x in lit_targets)
            # paths that bypass the byte dispatch are allowed only through the "no first byte" edge of
            # an Option test on the same text (an empty text cannot come from a successful skip)
            none_edges = set()
            for ob, ot in fn.terms():
                if ot["k"] == "switch" and ob != sb:
                    odl = op_local(ot["discr"])
                    od = fn.single_def(odl) if odl is not None else None
                    if od and od[0] == "stmt" and od[3]["rv"]["k"] == "discr":
                        src_l = od[3]["rv"]["p"][0]
                        cd = fn.single_def(src_l)
                        if cd and cd[0] == "call" and callee_is(cd[2], "first", "get", "peek"):
                            edges = dict(switch_edges(fn, ob))
                            none_edges.add(edges.get(0, edges.get(None)))
            bypass = b in fn.reachable_from(0, avoid={sb} | none_edges)
            if shares and not reach_from_lit and not bypass:
                ok = True
        ctx.ob("R13.1", key, ok, fn.loc(s["ln"]),
               "constructed only on the non-literal edge of a dispatch on the first byte of its raw text" if ok else
               "a LazyRaw can be constructed for the literals true/false/null: get_type() hits unreachable!, as_bool()/is_null() are wrong")


def _const_str_args(fn, t):
    out = []
    for a in t["args"]:
        bs = op_bytes(a)
        d = a.get("def") if a["k"] == "const" else None
        if bs is None and op_local(a) is not None:
            s = fn.src(op_local(a))
            if s[0] == "const":
                bs = op_bytes(s[1])
                d = s[1].get("def")
        if bs is not None:
            out.append((bs, d))
    return out


def r13_2(ctx):
    prog = ctx.prog()
    tok = prog.const_bytes("lazyvalue::TOKEN")
    num_tok = prog.const_bytes("rawnumber::TOKEN")
    ctx.ob("R13.2", "tokens-distinct", tok != num_tok and len(tok) > 4, "src/lazyvalue/mod.rs", f"raw-value tokens {tok!r} / {num_tok!r}", nontrivial=False)
    emitters = [f for f in prog.fns.values() if f.crate == "sonic_rs" and f.name == "serialize" and f.trait and f.trait.endswith("ser::Serialize") and (f.self_adt or "").endswith(("lazyvalue::value::LazyValue", "lazyvalue::owned::OwnedLazyValue"))]
    ctx.floor("R13.2", "Serialize impls of lazy values", len(emitters), 2)
    for f in emitters:
        ss = [(b, t) for b, t in f.calls() if callee_is(t, "serialize_struct")]
        sf = [(b, t) for b, t in f.calls() if callee_is(t, "serialize_field")]
        ok = bool(ss) and len(ss) == len(sf)
        for b, t in ss + sf:
            args = _const_str_args(f, t)
            if not any(bs == tok for bs, d in args):
                ok = False
        ctx.ob("R13.2", f"{short(f.id)}:token-channel", ok, f.loc(), f"{len(ss)} raw arm(s) emit through serialize_struct(TOKEN) + serialize_field(TOKEN, raw)" if ok else "a raw arm does not use the raw-value token for both serialize_struct and serialize_field")
        # the field value is the raw text: derived from a `.raw` field / as_raw_str
        for b, t in sf:
            l = op_local(t["args"][-1])
            sl, leaves = backward_slice(f, [l]) if l is not None else (set(), [])
            okr = any((lf[0] == "call" and callee_is(lf[2], "as_raw_str", "as_str")) or (lf[0] == "place" and "raw" in [e[2] for e in lf[1][1] if isinstance(e, list) and e[0] == "."]) for lf in leaves)
            ctx.ob("R13.2", f"{short(f.id)}:field-is-raw@{t['ln']}", okr, f.loc(t["ln"]), "the value written through the token channel is the raw text")
    # receiver side: the text serializer
    ssf = [f for f in prog.fns.values() if f.crate == "sonic_rs" and f.name == "serialize_struct" and (f.self_adt or "").endswith("serde::ser::Serializer")]
    if len(ssf) != 1:
        ctx.fail_closed("R13.2", "Serializer::serialize_struct")
    else:
        f = ssf[0]
        defs = {o.get("def") for b, s, o in f.const_operands() if o.get("def")}
        byt = {op_bytes(o) for b, s, o in f.const_operands() if op_bytes(o)}
        for b, s, o in f.const_operands():
            byt |= set(const_strings(o))
        okm = (tok in byt) or any(d and d.endswith("lazyvalue::TOKEN") for d in defs)
        raws = [s for b, i, s in f.assigns() if s["rv"]["k"] == "agg" and s["rv"].get("variant") == "RawValue"]
        ctx.ob("R13.2", "Serializer::serialize_struct:matches-token", okm and bool(raws), f.loc(), "the text serializer matches the lazy-value token and switches to the raw channel")
    cf = [f for f in prog.fns.values() if f.crate == "sonic_rs" and f.name == "serialize_field" and (f.trait or "").endswith("SerializeStruct") and (f.self_adt or "").endswith("serde::ser::Compound")]
    if len(cf) != 1:
        ctx.fail_closed("R13.2", "Compound::serialize_field (SerializeStruct)")
    else:
        f = cf[0]
        byt = {op_bytes(o) for b, s, o in f.const_operands() if op_bytes(o)}
        for b, s, o in f.const_operands():
            byt |= set(const_strings(o))
        defs = {o.get("def") for b, s, o in f.const_operands() if o.get("def")}
        okm = (tok in byt) or any(d and d.endswith("lazyvalue::TOKEN") for d in defs)
        em = [s for b, i, s in f.assigns() if s["rv"]["k"] == "agg" and "RawValueStrEmitter" in s["rv"].get("adt", "")]
        ctx.ob("R13.2", "Compound::serialize_field:raw-emitter", okm and bool(em), f.loc(), "on the raw channel the field is serialized with RawValueStrEmitter")
    es = [f for f in prog.fns.values() if f.crate == "sonic_rs" and f.name == "serialize_str" and (f.self_adt or "").endswith("RawValueStrEmitter")]
    if len(es) != 1:
        ctx.fail_closed("R13.2", "RawValueStrEmitter::serialize_str")
    else:
        f = es[0]
        names = [t["callee"].rsplit("::", 1)[-1] for b, t in f.calls()]
        cg = prog.callgraph
        reach = prog.reachable_fns([f.id], edge_filter=lambda a, b: bool(prog.edge_kind[(a, b)] & {"direct", "cha", "closure"}))
        esc = [x for x in reach if prog.fns[x].name in ("format_string", "write_string_fast", "escape_unchecked", "write_string")]
        ctx.ob("R13.2", "RawValueStrEmitter::serialize_str:verbatim", "write_raw_value" in names and not esc, f.loc(), "the raw emitter writes with write_raw_value and reaches no escaping routine" if not esc else f"the raw emitter reaches an escaping routine {[short(x) for x in esc]}")


BS_EVIDENCE = ("get_escaped_branchless_u32", "get_escaped_branchless_u64", "skip_escaped_chars")


def r13_3(ctx):
    prog = ctx.prog()
    # totality of From<ParseStatus> for HasEsc
    conv = [f for f in prog.fns.values() if f.crate == "sonic_rs" and f.name == "from" and "HasEsc" in (f.impl or {}).get("self_ty", "") and any("ParseStatus" in x for x in f.inputs)]
    if len(conv) != 1:
        ctx.fail_closed("R13.3", "From<ParseStatus> for HasEsc")
    else:
        f = conv[0]
        pairs = {}
        for b, t in f.terms():
            if t["k"] == "switch":
                for v, tgt in switch_edges(f, b):
                    for bb in f.reachable_from(tgt):
                        for s in f.blocks[bb]["stmts"]:
                            if s["k"] == "assign" and s["lhs"] == [0, []] and s["rv"]["k"] == "agg":
                                pairs.setdefault(v, set()).add(s["rv"]["variant"])
        # ParseStatus::None(0) -> HasEsc::None ; HasEscaped(1) -> Yes
        ok = pairs.get(0) == {"None"} and (pairs.get(1) == {"Yes"} or pairs.get(None) == {"Yes"})
        ctx.ob("R13.3", "ParseStatus->HasEsc", ok, f.loc(), f"conversion maps {pairs}: None->None, HasEscaped->Yes")
    # as_str: quote stripping only under no_escaped()
    asr = [f for f in prog.fns.values() if f.crate == "sonic_rs" and f.name == "as_str" and (f.self_adt or "").endswith("lazyvalue::value::LazyValue")]
    if len(asr) != 1:
        ctx.fail_closed("R13.3", "LazyValue::as_str")
    else:
        f = asr[0]
        ne = [(b, t) for b, t in f.calls() if callee_is(t, "no_escaped")]
        unch = [(b, t) for b, t in f.calls() if callee_is(t, "from_utf8_unchecked")]
        pf = [(b, t) for b, t in f.calls() if callee_is(t, "parse_from")]
        ok = False
        if ne and unch and pf:
            e = bool_switch_edges(f, ne[0][1]["dest"][0])
            if e:
                t_t, f_t = e
                ok = all(b in f.reachable_from(t_t) and b not in f.reachable_from(f_t, avoid={t_t}) for b, t in unch) and all(b in f.reachable_from(f_t) for b, t in pf)
        ctx.ob("R13.3", "LazyValue::as_str:fast-path", ok, f.loc(), "the quote-stripping fast path is taken only under no_escaped(); otherwise the text is decoded" if ok else "LazyValue::as_str strips quotes without decoding although the status may report escapes")
    # the string skippers report HasEscaped on every path that has seen a backslash
    for name in ("skip_string", "skip_string_unchecked"):
        f = prog.find(f"Parser::{name}")
        sets = set()
        for b, i, s in f.assigns():
            rv = s["rv"]
            if rv["k"] == "agg" and rv.get("variant") == "HasEscaped" and not s["lhs"][1]:
                sets.add(b)
        ev = []
        for b, t in f.calls():
            if callee_is(t, *BS_EVIDENCE):
                ev.append((f.succs(b)[0] if f.succs(b) else None, t["ln"], t["callee"].rsplit("::", 1)[-1], b))
        for b, t in f.terms():
            if t["k"] == "switch" and t.get("dty") == "u8":
                for v, tgt in t["targets"]:
                    if int(v) == 92:
                        ev.append((tgt, t["ln"], "byte == '\\\\'", b))
        for b, i, s in f.assigns():
            rv = s["rv"]
            if rv["k"] == "binop" and rv["op"] == "Eq" and (op_int(rv["a"]) == 92 or op_int(rv["b"]) == 92) and (rv["a"].get("ty") == "u8" or rv["b"].get("ty") == "u8"):
                e = bool_switch_edges(f, s["lhs"][0])
                if e:
                    ev.append((e[0], s["ln"], "byte == '\\\\'", b))
        # the per-byte decision may sit in a helper that answers with a small enum: the variant it gives after seeing a
        # backslash is the evidence in the caller, on the arm of the match on that variant
        for hb, ht in f.calls():
            h = prog.fns.get(ht["callee"])
            if h is None or h.self_adt != f.self_adt or h is f:
                continue
            hev = []
            for b, t in h.calls():
                if callee_is(t, *BS_EVIDENCE):
                    hev.append(h.succs(b)[0] if h.succs(b) else None)
            for b, t in h.terms():
                if t["k"] == "switch" and t.get("dty") == "u8":
                    hev += [tgt for v, tgt in t["targets"] if int(v) == 92]
            if not hev:
                continue
            import re as _re
            m = _re.match(r"^core::result::Result<([\w:]+),", h.output or "")
            adts = {"sonic_rs::" + m.group(1)} if m and ("sonic_rs::" + m.group(1)) in prog.adts else set()
            vs = set()
            for e0 in hev:
                if e0 is None:
                    continue
                for b, i, s_ in h.assigns():
                    if b in h.reachable_from(e0) and s_["rv"]["k"] == "agg" and s_["rv"].get("adt") in adts and not s_["rv"]["f"]:
                        vs.add((s_["rv"]["adt"], int(s_["rv"]["vidx"])))
            if len(vs) != 1:
                continue
            adt, vidx = list(vs)[0]
            for b, t in f.terms():
                if t["k"] != "switch" or op_local(t["discr"]) is None:
                    continue
                d = f.single_def(op_local(t["discr"]))
                if d and d[0] == "stmt" and d[3]["rv"]["k"] == "discr" and adt.split("::", 1)[1] in f.locals[d[3]["rv"]["p"][0]]["ty"]:
                    tg = [x for v, x in t["targets"] if int(v) == vidx] or [t["otherwise"]]
                    ev.append((tg[0], t["ln"], f"{h.name} answered {adt.rsplit('::', 1)[-1]} variant {vidx} (backslash seen)", b))
        oks = [b for b, k, _ in return_kinds(f) if k == "Ok"]
        ctx.ob("R13.3", f"{name}:evidence-sites", len(ev) >= 1, f.loc(), f"{len(ev)} places where a backslash is known to have been seen", nontrivial=False)
        k = 0
        for start, ln, what, eb in ev:
            if start is None:
                continue
            k += 1
            # a block that both holds the evidence call and the store is fine
            if eb in sets:
                leak = set()
            else:
                leak = f.reachable_from(start, avoid=sets) & set(oks)
            ctx.ob("R13.3", f"{name}:status#{k}", not leak, f.loc(ln),
                   f"after {what} every path to Ok(status) stores HasEscaped" if not leak else
                   f"after {what} a path returns Ok(status) without recording HasEscaped: the value is then treated as escape-free and as_str() returns the raw escape text")


def r13_9(ctx):
    """a lookup in a still-raw owned lazy value is answered by its one-level parse: LazyRaw::get reads the raw text only
    through the type's own accessors (first-byte kind, load / parse).  A textual pre-check on the raw bytes (contains,
    find, starts_with with the wanted key) answers `absent` for members whose name is spelled with escapes"""
    prog = ctx.prog()
    fs = [g for g in prog.fns.values() if g.crate == "sonic_rs" and (g.self_adt or "").endswith("lazyvalue::owned::LazyRaw") and g.name in ("get", "get_mut")]
    ctx.floor("R13.9", "LazyRaw lookup methods", len(fs), 1)
    for f in fs:
        bad = []
        for g in prog.with_closures(f):
            for b, t in g.calls():
                callee = prog.fns.get(t["callee"])
                if callee is not None and (callee.self_adt or "").endswith("lazyvalue::owned::LazyRaw"):
                    continue
                for a in t["args"]:
                    l = op_local(a)
                    if l is None:
                        continue
                    sl, leaves = backward_slice(g, [l], through_calls=False)
                    if any(lf[0] == "place" and "raw" in [e[2] for e in lf[1][1] if isinstance(e, list) and e[0] == "."] and "LazyRaw" in g.locals[lf[1][0]]["ty"] for lf in leaves):
                        bad.append((t["callee"].rsplit("::", 1)[-1], t["ln"]))
        ctx.ob("R13.9", f"LazyRaw::{f.name}:raw-only-through-the-parse", not bad, f.loc(bad[0][1] if bad else None),
               "the raw text is read only by the type's own accessors (kind, load)" if not bad else
               f"the raw text is handed to {[x[0] for x in bad]}: the answer no longer comes from the parsed members (a key spelled with escapes in the source is reported absent)")


def r13_10(ctx):
    """the numeric view of a lazy value is produced by the one number parser (shared with C07)"""
    from . import c07
    ctx.include(c07.r07_14, "R13.10")


def r13_4(ctx):
    prog = ctx.prog()
    conv = [f for f in prog.fns.values() if f.crate == "sonic_rs" and f.name == "from" and (f.self_adt or "").endswith("OwnedLazyValue") and any("LazyValue<" in x for x in f.inputs)]
    if len(conv) != 1:
        ctx.fail_closed("R13.4", "From<LazyValue> for OwnedLazyValue")
        return
    f = conv[0]
    k = 0
    for d in f.defs.get(0, []):
        k += 1
        if d[0] == "call":
            ls = [op_local(a) for a in d[2]["args"]]
            ln = d[2]["ln"]
        else:
            ls = [p[0] for p in [op_place(o) for o in d[3]["rv"].get("f", [])] if p]
            ln = d[3]["ln"]
        sl, leaves = backward_slice(f, [l for l in ls if l is not None])
        ok = any(lf[0] == "place" and "raw" in [e[2] for e in lf[1][1] if isinstance(e, list) and e[0] == "."] and f.src(lf[1][0])[0] in ("param", "refof") for lf in leaves) or \
             any(lf[0] == "place" and lf[1][0] == 1 and "raw" in [e[2] for e in lf[1][1] if isinstance(e, list) and e[0] == "."] for lf in leaves)
        ctx.ob("R13.4", f"From<LazyValue>:result#{k}", ok, f.loc(ln), "the owned value is built from the raw text of the borrowed one" if ok else
               "a result of the borrowed-to-owned conversion is not derived from the source's raw text (it would no longer serialize verbatim)")
    ctx.ob("R13.4", "From<LazyValue>:results", k >= 1, f.loc(), f"{k} result constructions analysed", nontrivial=False)
    # NonEscStrRaw only under no_escaped() && first byte is a quote
    ne = [(b, t) for b, t in f.calls() if callee_is(t, "no_escaped")]
    sites = [(b, s) for b, i, s in f.assigns() if s["rv"]["k"] == "agg" and s["rv"].get("variant") == "NonEscStrRaw"]
    ok = bool(ne)
    for b, s in sites:
        e = bool_switch_edges(f, ne[0][1]["dest"][0]) if ne else None
        if not e or b in f.reachable_from(e[1], avoid={e[0]}):
            ok = False
        # the quote test
        qt = [ss for bb, ii, ss in f.assigns() if ss["rv"]["k"] == "binop" and ss["rv"]["op"] in ("Eq", "Ne") and (op_int(ss["rv"]["a"]) == 34 or op_int(ss["rv"]["b"]) == 34) and f.dominates(bb, b)]
        if not qt:
            ok = False
    ctx.ob("R13.4", "From<LazyValue>:NonEscStrRaw-guard", ok and bool(sites), f.loc(), "the escape-free string representation is chosen only under no_escaped() and a leading quote")


def r13_5(ctx):
    """the array/object facades handed out by as_array(&self)/as_object(&self) must be usable for every
    representation they are handed out for: as_* keeps a shared value raw (its parse is cached), so the
    facade's Deref has to serve the Raw representation as well as the Parsed one"""
    prog = ctx.prog()
    lp = prog.adts.get("sonic_rs::lazyvalue::owned::LazyPacked")
    if not lp:
        ctx.fail_closed("R13.5", "enum LazyPacked")
        return
    variants = {int(v["discr"]): v["name"] for v in lp["variants"]}
    for acc, facade in (("as_array", "LazyArray"), ("as_object", "LazyObject")):
        a = [f for f in prog.fns.values() if f.crate == "sonic_rs" and f.name == acc and (f.self_adt or "").endswith("owned::OwnedLazyValue") and (f.trait or "").endswith("JsonContainerTrait")]
        d = [f for f in prog.fns.values() if f.crate == "sonic_rs" and f.name == "deref" and (f.trait or "").endswith("deref::Deref") and (f.self_adt or "").endswith(f"owned::{facade}")]
        if len(a) != 1 or len(d) != 1:
            ctx.fail_closed("R13.5", f"{acc} / Deref for {facade}")
            continue
        a, d = a[0], d[0]
        def arms(fn):
            out = {}
            for b, t in fn.terms():
                if t["k"] != "switch":
                    continue
                dl = op_local(t["discr"])
                dd = fn.single_def(dl) if dl is not None else None
                if not (dd and dd[0] == "stmt" and dd[3]["rv"]["k"] == "discr"):
                    continue
                pl = dd[3]["rv"]["p"]
                # discriminant of the LazyPacked inside self
                names = [e[2] for e in pl[1] if isinstance(e, list) and e[0] == "."]
                ty_ok = "OwnedLazyValue" in fn.locals[pl[0]]["ty"] or facade in fn.locals[pl[0]]["ty"] or "LazyPacked" in fn.locals[pl[0]]["ty"]
                if not ty_ok or (names and names[-1] != "0"):
                    continue
                if "Parsed" in fn.locals[pl[0]]["ty"] and not names:
                    continue
                edges = switch_edges(fn, b)
                if not ({v for v, _ in edges if v is not None} <= set(variants)):
                    continue
                for dv, name in variants.items():
                    tg = dict(edges).get(dv, dict(edges).get(None))
                    if tg is not None and name not in out:
                        out[name] = tg
                break
            return out
        aa, da = arms(a), arms(d)
        somes = [b for b, k, _ in return_kinds(a) if k == "Some"]
        handed = sorted(v for v, tg in aa.items() if set(somes) & a.reachable_from(tg))
        served = sorted(v for v, tg in da.items() if set(d.return_blocks) & d.reachable_from(tg))
        ok = bool(handed) and set(handed) <= set(served)
        ctx.ob("R13.5", f"{facade}:deref-serves-what-{acc}-hands-out", ok, d.loc(),
               f"{acc}() hands out the facade for representations {handed}; Deref serves {served}" if ok else
               f"{acc}() hands out the facade for representations {handed} but Deref only serves {served}: len()/iteration on a freshly deserialized value panics (unreachable!)")


def r13_6(ctx):
    """escape carry across blocks: in the bitmap string scanners (functions calling
    get_escaped_branchless_*), the carry of a trailing backslash from the previous block is consulted on
    every path of a block iteration before the quote bits are used: either it is handed to
    get_escaped_branchless_* or its value is read (tested against 0 / copied into the escape mask)"""
    prog = ctx.prog()
    users = [f for f in prog.fns.values() if f.crate == "sonic_rs" and any(callee_is(t, "get_escaped_branchless_u32", "get_escaped_branchless_u64") for b, t in f.calls())]
    ctx.floor("R13.6", "bitmap string scanners with an escape carry", len(users), 2)
    for f in users:
        gc = [(b, t) for b, t in f.calls() if callee_is(t, "get_escaped_branchless_u32", "get_escaped_branchless_u64")]
        # the carry variable
        a0 = op_local(gc[0][1]["args"][0])
        sc = f.src(a0) if a0 is not None else ("multi",)
        carry_param = sc[1] if sc[0] == "param" else None
        carry_local = sc[1] if sc[0] == "refof" else None
        if carry_param is None and carry_local is None:
            ctx.ob("R13.6", f"{short(f.id)}:carry", False, f.loc(), "cannot identify the escape carry variable (fail closed)")
            continue
        consult = {b for b, t in gc}
        for b, i, s_ in f.assigns():
            for p in rv_places_local(s_["rv"]):
                if carry_param is not None and p[0] == carry_param and p[1] == ["*"]:
                    consult.add(b)
                if carry_local is not None and p[0] == carry_local and not p[1] and s_["rv"]["k"] in ("use", "binop"):
                    consult.add(b)
        bms = [(b, t) for b, t in f.calls() if callee_is(t, "bitmask")]
        if len(bms) < 2:
            ctx.ob("R13.6", f"{short(f.id)}:bitmasks", False, f.loc(), "expected the backslash and the quote bitmask (fail closed)")
            continue
        last = [x for x in bms if all(f.dominates(x[0], o[0]) for o in bms)]  # the first one: start of a block iteration
        if len(last) != 1:
            ctx.ob("R13.6", f"{short(f.id)}:bitmasks", False, f.loc(), "cannot order the bitmask computations (fail closed)")
            continue
        S = last[0][0]
        goals = set(f.return_blocks) | {S}
        leak = set()
        for s0 in f.succs(S):
            if s0 in consult:
                continue
            leak |= f.reachable_from(s0, avoid=consult) & goals
        ctx.ob("R13.6", f"{short(f.id)}:carry-consulted", not leak, f.loc(last[0][1]["ln"]),
               "on every path of a block iteration the escape carry of the previous block is consulted before the quote bits are used" if not leak else
               "a path of the block iteration uses the quote bits without consulting the escape carry: a quote escaped by a backslash at the end of the previous block ends the string (wrong span / lost escape status)")
        # hand-over to a scalar tail: when the carry is a local of this function and bytes are still examined after the
        # vector loop, the carry is read between the loop and the first such read
        if carry_local is not None:
            loop = {b for b in range(len(f.d["blocks"])) if not f.d["blocks"][b].get("cleanup") and any(b in f.reachable_from(x) for x in f.succs(b))}
            vec = {b for b in loop if S in f.reachable_from(b) and b in f.reachable_from(S)} | {S}
            after = set()
            for b in vec:
                for x in f.succs(b):
                    if x not in vec and not f.d["blocks"][x].get("cleanup"):
                        after |= f.reachable_from(x) | {x}
            after -= vec
            reads = [(b, t) for b, t in f.calls() if b in after and callee_is(t, "Reader::peek", "Reader::next", "Reader::at", "Reader::next_n", "Reader::peek_n")]
            uses = {b for b in consult if b in after}
            if reads:
                ok_tail = all(any(f.dominates(u, rb) for u in uses) for rb, rt in reads)
                ctx.ob("R13.6", f"{short(f.id)}:carry-handed-to-scalar-tail", ok_tail, f.loc(reads[0][1]["ln"]),
                       "the scalar tail after the vector loop starts from the carry of the last block" if ok_tail else
                       "the scalar tail after the vector loop examines bytes without having read the escape carry of the last block: its first byte may be the second half of an escape pair")


def r13_6c(ctx):
    """the escape step of a block may be skipped only when it cannot matter: in the scanner whose escape step is guarded by a
    test of the quote and backslash masks, the decision DAG is evaluated for every (quote mask, backslash mask, carry)
    at 8 bits; the escape step must be reached whenever the carry is set or a backslash lies below the first quote of
    the block (or anywhere, when the block has no quote) - otherwise the escape status and the carry into the next block
    are lost"""
    from ..bitdag import run
    prog = ctx.prog()
    n = 0
    for f in prog.fns.values():
        if f.crate != "sonic_rs":
            continue
        gc = [(b, t) for b, t in f.calls() if callee_is(t, "get_escaped_branchless_u32", "get_escaped_branchless_u64")]
        if len(gc) != 1:
            continue
        a0 = op_local(gc[0][1]["args"][0])
        sc = f.src(a0) if a0 is not None else ("multi",)
        if sc[0] != "refof":
            continue  # the carry is a parameter: the caller's block loop is analysed instead
        carry = sc[1]
        bms = [(b, t) for b, t in f.calls() if callee_is(t, "bitmask")]
        if len(bms) != 2:
            continue
        # which mask is which: the one handed to the escape step is the backslash mask
        bs_arg = op_local(gc[0][1]["args"][1])
        sl, leaves = backward_slice(f, [bs_arg])
        bs_call = [x for x in bms if any(lf[0] == "call" and lf[1] == x[0] for lf in leaves)]
        q_call = [x for x in bms if x not in bs_call]
        if len(bs_call) != 1 or len(q_call) != 1:
            continue
        n += 1
        bs_l, q_l = bs_call[0][1]["dest"][0], q_call[0][1]["dest"][0]
        # start right after the later of the two masks is available
        later = q_call[0] if f.dominates(bs_call[0][0], q_call[0][0]) else bs_call[0]
        start = later[1]["t"]
        call_b = gc[0][0]
        # the walk ends at the escape step or where the quote mask is finally used
        uses = {b for b, t in f.calls() if callee_is(t, "trailing_zeros", "eat", "peek_n")} | set(f.return_blocks)
        bad = None
        total = 0
        unmodelled = 0
        W = 10 if ctx.tier == "thorough" and ctx.default_config == "native" else 8
        for q in range(1 << W):
            for bs in range(1 << W):
                for prev in (0, 1):
                    env = {bs_l: bs, q_l: q, carry: prev}
                    # the quote mask may be copied into a named variable first
                    stop, _ = run(f, start, env, {call_b} | uses, width=W)
                    total += 1
                    if stop is None:
                        unmodelled += 1
                        continue
                    low = (q & -q) - 1 if q else (1 << W) - 1
                    must = prev != 0 or (bs & low) != 0
                    if must and stop != call_b and bad is None:
                        bad = (q, bs, prev)
        ctx.ob("R13.6", f"{short(f.id)}:escape-step-guard", bad is None and unmodelled == 0, f.loc(gc[0][1]["ln"]),
               f"{total} (quote mask, backslash mask, carry) combinations: the escape step is reached whenever a backslash lies below the first quote or the carry is set" if bad is None and unmodelled == 0 else
               (f"quote mask {bad[0]:#b}, backslash mask {bad[1]:#b}, carry {bad[2]}: the escape step is skipped although a backslash precedes the first quote (or the block has no quote): escape status and carry are lost" if bad else f"{unmodelled} combinations could not be evaluated (fail closed)"))
    ctx.floor("R13.6", "scanners with a guarded escape step", n, 1)


def r13_7(ctx):
    """a failing mutable-view accessor leaves the value untouched: the Raw -> Parsed conversion through `&mut self`
    happens only under a test that the raw value has the wanted kind"""
    prog = ctx.prog()
    n = 0
    seen = collections.Counter()
    for f in prog.fns.values():
        if f.crate != "sonic_rs" or "lazyvalue::owned" not in f.id:
            continue
        for b, i, s in f.assigns():
            lhs = s["lhs"]
            names = [e[2] for e in lhs[1] if isinstance(e, list) and e[0] == "."]
            if not ("*" in lhs[1] and names == ["0"] and "OwnedLazyValue" in f.locals[lhs[0]]["ty"] and f.locals[lhs[0]]["ty"].startswith("&mut")):
                continue
            n += 1
            guard = False
            for bb, t in f.calls():
                if not callee_is(t, "get_type") or not f.dominates(bb, b):
                    continue
                # the kind read feeds a comparison whose true edge dominates the store
                def from_kind(o):
                    l = op_local(o)
                    if l is None:
                        return False
                    sl, leaves = backward_slice(f, [l])
                    return any(lf[0] == "call" and lf[1] == bb for lf in leaves)
                for cb, ct in f.calls():
                    if callee_is(ct, "eq", "ne") and any(from_kind(a) for a in ct["args"][:2]):
                        e = bool_switch_edges(f, ct["dest"][0])
                        if e and e[0] != e[1]:
                            edge = e[0] if callee_is(ct, "eq") else e[1]
                            if f.dominates(edge, b):
                                guard = True
                for sb, st in f.terms():
                    if st["k"] == "switch" and f.dominates(sb, b) and sb != b and from_kind(st["discr"]) and st.get("dty") != "bool":
                        guard = True
            if not guard:
                # the kind test as a predicate of the raw value (`raw.accepts(&index)`): a bool method of the crate that reads
                # get_type(), whose true edge dominates the store
                for cb, ct in f.calls():
                    g = prog.fns.get(ct["callee"])
                    if g is None or g.crate != "sonic_rs" or g.output != "bool" or not f.dominates(cb, b) or not any(callee_is(tt, "get_type") for bb, tt in g.calls()):
                        continue
                    e = bool_switch_edges(f, ct["dest"][0])
                    if e and e[0] != e[1] and (f.dominates(e[0], b) and b not in f.reachable_from(e[1], avoid={e[0]})):
                        guard = True
            owner = prog.fns.get(f.parent_fn, f) if f.parent_fn else f
            seen[short(owner.id)] += 1
            ctx.ob("R13.7", f"convert-under-kind-test:{short(owner.id)}#{seen[short(owner.id)]}", guard, f.loc(s.get("ln")),
                   "the representation of an owned lazy value is replaced through &mut self only on the edge where its kind was tested" if guard else
                   "the representation of an owned lazy value is replaced through &mut self without a dominating test of its kind: a failing as_array_mut / as_object_mut probe on a scalar rewrites it (the raw number / escaped string text is lost)")
    ctx.floor("R13.7", "in-place representation changes of OwnedLazyValue", n, 1)


def r13_8(ctx):
    """cloning keeps the representation: Clone for the packed owned-lazy value builds, on the arm of each variant, a value
    of that same variant (a raw value stays raw: its clone serializes verbatim whatever was read from the original before)"""
    prog = ctx.prog()
    fs = [g for g in prog.fns.values() if g.crate == "sonic_rs" and g.name == "clone" and (g.d.get("impl") or {}).get("trait_ref") == "<lazyvalue::owned::LazyPacked as core::clone::Clone>"]
    if len(fs) != 1:
        ctx.ob("R13.8", "anchor:Clone for LazyPacked", False, "", "impl Clone for LazyPacked not found (fail closed)")
        return
    f = fs[0]
    adt = prog.adts.get("sonic_rs::lazyvalue::owned::LazyPacked")
    names = {int(v["discr"]): v["name"] for v in adt["variants"]} if adt else {}
    sw = None
    for b, t in f.terms():
        if t["k"] == "switch":
            d = f.single_def(op_local(t["discr"])) if op_local(t["discr"]) is not None else None
            if d and d[0] == "stmt" and d[3]["rv"]["k"] == "discr" and f.dominates(b, b) and sw is None:
                sw = (b, t)
    if sw is None or not names:
        ctx.ob("R13.8", "anchor:dispatch", False, f.loc(), "variant dispatch of Clone for LazyPacked not found (fail closed)")
        return
    arms = {}
    for v, x in sw[1]["targets"]:
        arms[names.get(int(v), str(v))] = x
    rest = [n for n in names.values() if n not in arms]
    if len(rest) == 1:
        arms[rest[0]] = sw[1]["otherwise"]
    for name, tgt in sorted(arms.items()):
        built = set()
        for g in [f]:
            for b, i, st in g.assigns():
                rv = st["rv"]
                if rv["k"] == "agg" and (rv.get("adt") or "").endswith("lazyvalue::owned::LazyPacked") and (b == tgt or f.dominates(tgt, b)):
                    built.add(rv.get("variant"))
        ok = built == {name}
        ctx.ob("R13.8", f"clone:{name}", ok, f.loc(), f"the clone of a {name} value is built as {sorted(built)}" + ("" if ok else f": the clone of a raw value whose parse cache was filled by a read becomes a parsed value and no longer serializes its raw text verbatim"))


def rv_places_local(rv):
    from ..analysis import rv_places
    return rv_places(rv)


def r13_w(ctx):
    """type-level witnesses (compile_fail doctests with error codes, each with a compiling twin)"""
    from ..core import witness_obligations
    witness_obligations(ctx, "R13.W", [('W3LazyValueBorrows', 'a borrowed LazyValue cannot outlive its input')])


def r13_11(ctx):
    """the exponent marker of a number is accepted in both cases everywhere: a byte dispatch of sonic_rs / sonic_number that has a
    case for `e` (or `E`) next to another byte of the number alphabet (`.`, `+`, `-`, a digit) sends `E` (`e`) to the same
    target - a number walker that knows only one of them cuts `-2E3` at the `E` (the span of a lazy child is no longer the
    number, the one-level parse of its container fails)"""
    prog = ctx.prog()
    NUMA = {43, 45, 46} | set(range(48, 58))
    n = 0
    for f in sorted(prog.fns.values(), key=lambda g: g.id):
        if f.crate not in ("sonic_rs", "sonic_number"):
            continue
        k = 0
        for b, t in f.terms():
            if t["k"] != "switch":
                continue
            tg = dict(switch_edges(f, b))
            has = [c for c in (101, 69) if c in tg]
            if not has:
                continue
            if len(has) == 1 and not (NUMA & set(x for x in tg if x is not None)):
                continue   # a lone letter test outside a number alphabet (the last byte of `true` / `false`)
            n += 1
            k += 1
            ok = len(has) == 2 and tg[101] == tg[69]
            ctx.ob("R13.11", f"{short(f.id)}:exponent-marker-both-cases#{k}", ok, f.loc(t.get("ln")),
                   "`e` and `E` take the same edge" if ok else
                   "a number alphabet with only one case of the exponent marker (or different edges for `e` and `E`): `1E5` / `1e5` is cut at the marker")
    ctx.floor("R13.11", "byte dispatches on the exponent marker", n, 4)


RULES = [("R13.1", r13_1), ("R13.2", r13_2), ("R13.3", r13_3), ("R13.4", r13_4), ("R13.5", r13_5), ("R13.6", r13_6), ("R13.6c", r13_6c), ("R13.7", r13_7), ("R13.8", r13_8), ("R13.9", r13_9), ("R13.10", r13_10), ("R13.11", r13_11), ("R13.W", r13_w)]

"""C16 — values sharing a parsed arena stay valid in any clone/move/drop order: pairing rules."""
from ..facts import callee_is, op_local, op_place, op_int, FactError, norm_path
from ..analysis import backward_slice, bool_switch_edges, switch_edges, return_kinds, forward_derived, rv_places
from .c01 import short

EXPLANATION = (
    "Decides structural necessary conditions of C16: (R16.1) the arena's strong count is taken only in "
    "Meta::pack_shared and given back only on the ROOT_NODE arm of Drop for Value, with one pointee type; "
    "root values are built only through pack_shared; (R16.2) bitwise materialisation of a Value / "
    "OwnedLazyValue happens only in the four hand-over functions; on the sending side the value is "
    "wrapped in ManuallyDrop immediately before visit_bytes: no return can be reached between the wrap "
    "and the hand-over (no leak on an error path) and the bytes handed over are those of the wrapped "
    "local (no double drop); (R16.3) parse_with_padding assigns *self only after a successful parse and "
    "never forgets/leaks its local Arc; (R16.4) no function reachable from parse_dom/parse_dom2 takes the "
    "thread-local node buffer again or calls into serde; (R16.5) the bump allocator is reached only "
    "through Shared::get_alloc(&mut self); (R16.6) the copying parser (parse_dom2 family), whose input is "
    "not owned by the arena, never calls a borrowing visitor method. Does NOT decide drop orders or "
    "thread interleavings."
)
ASSUMPTIONS = ["rustc MIR and callee resolution", "Rust's drop elaboration releases locals on every exit unless they are wrapped in ManuallyDrop / forgotten / turned into raw pointers"]

SHARED = "value::shared::Shared"


def r16_1(ctx):
    prog = ctx.prog()
    inc = prog.callers_of(lambda t: t.get("callee", "").endswith("Arc::<T>::increment_strong_count") and any(SHARED in g for g in (t.get("rgargs") or [])))
    dec = prog.callers_of(lambda t: (t.get("callee", "").endswith("Arc::<T>::from_raw") or t.get("callee", "").endswith("Arc::<T>::decrement_strong_count")) and any(SHARED in g for g in (t.get("rgargs") or [])))
    ok_inc = len(inc) >= 1 and all(norm_path(f.id).endswith("Meta::pack_shared") for f, b, t in inc)
    ctx.ob("R16.1", "retain:only-pack_shared", ok_inc, inc[0][0].loc(inc[0][2]["ln"]) if inc else "", f"Arc<Shared>::increment_strong_count is called from {sorted({short(f.id) for f, b, t in inc})}")
    ok_dec = len(dec) >= 1 and all(f.trait == "core::ops::drop::Drop" and (f.self_adt or "").endswith("node::Value") for f, b, t in dec)
    ctx.ob("R16.1", "release:only-Drop-for-Value", ok_dec, dec[0][0].loc(dec[0][2]["ln"]) if dec else "", f"Arc<Shared>::from_raw/decrement is called from {sorted({short(f.id) for f, b, t in dec})}")
    # any other raw Arc API on other pointee types near these?  (type agreement)
    tys = {g for f, b, t in inc + dec for g in (t.get("rgargs") or [])[:1]}
    ctx.ob("R16.1", "pointee-type", tys == {SHARED}, "", f"retain and release use pointee type(s) {sorted(tys)}")
    # release sits on the ROOT_NODE arm
    root = prog.const_int("Meta::ROOT_NODE")
    for f, b, t in dec:
        ok = False
        for sb, st in f.terms():
            if st["k"] == "switch" and st.get("dty") == "u64":
                vals = {int(v): tgt for v, tgt in st["targets"]}
                if root in vals and b in f.reachable_from(vals[root]):
                    others = {tgt for v, tgt in vals.items() if v != root} | {st["otherwise"]}
                    if all(b not in f.reachable_from(o, avoid={vals[root]}) for o in others):
                        ok = True
        ctx.ob("R16.1", "release:on-ROOT_NODE-arm", ok, f.loc(t["ln"]), f"the count is given back only when the dropped value's type tag is ROOT_NODE ({root})")
    # pack_shared: who calls it
    ps = prog.find("Meta::pack_shared")
    callers = prog.callers_of(lambda t: t.get("callee") == ps.id)
    okc = bool(callers) and all(f.name == "from" and any("NodeInDom" in x for x in f.inputs) for f, b, t in callers)
    ctx.ob("R16.1", "root-built-only-from-NodeInDom", okc, ps.loc(), f"pack_shared is called from {sorted({short(f.id) for f, b, t in callers})}")
    # the ROOT_NODE tag is OR-ed into a Meta only in pack_shared
    users = []
    for f in prog.fns.values():
        if f.crate != "sonic_rs":
            continue
        for b, i, s in f.assigns():
            rv = s["rv"]
            if rv["k"] == "binop" and rv["op"] == "BitOr":
                for o in (rv["a"], rv["b"]):
                    if o["k"] == "const" and (o.get("def", "").endswith("Meta::ROOT_NODE")):
                        users.append(f)
                    elif op_local(o) is not None:
                        sc = f.src(op_local(o))
                        if sc[0] == "const" and sc[1].get("def", "").endswith("Meta::ROOT_NODE"):
                            users.append(f)
    oku = bool(users) and all(norm_path(f.id).endswith("Meta::pack_shared") for f in users)
    ctx.ob("R16.1", "ROOT_NODE-tagging:only-pack_shared", oku, ps.loc(), f"the ROOT_NODE tag is OR-ed into a meta word in {sorted({short(f.id) for f in users})}")
    # pack_shared retains before building
    ok_dom = bool([1 for b, t in ps.calls() if callee_is(t, "increment_strong_count")])
    ctx.ob("R16.1", "pack_shared:retains", ok_dom, ps.loc(), "pack_shared takes a count on every call (no conditional path without it)" if ok_dom else "pack_shared does not retain")
    if ok_dom:
        ib = [b for b, t in ps.calls() if callee_is(t, "increment_strong_count")][0]
        ctx.ob("R16.1", "pack_shared:retain-dominates-return", all(ps.dominates(ib, r) for r in ps.return_blocks), ps.loc(), "the retain dominates every return of pack_shared")


HANDOVER_OK = ("visit_bytes", "visit_container_end", "push_meta")


def r16_2(ctx):
    prog = ctx.prog()
    # (a) receiving side: who materialises a Value / OwnedLazyValue bitwise
    mats = []
    for f in prog.fns.values():
        if f.crate != "sonic_rs":
            continue
        for b, i, s in f.stmts():
            if s["k"] == "copy_nonoverlapping" and ("node::Value" in s.get("srcty", "") or "OwnedLazyValue" in s.get("srcty", "")):
                mats.append((f, s["ln"], "copy_nonoverlapping"))
            if s["k"] == "assign" and s["rv"]["k"] == "cast" and s["rv"]["ck"] == "Transmute" and s["rv"]["ty"] in ("value::node::Value", "lazyvalue::owned::OwnedLazyValue") and not s.get("mac"):
                mats.append((f, s["ln"], "transmute"))
        for b, t in f.calls():
            nm = t["callee"].rsplit("::", 1)[-1]
            g = (t.get("rgargs") or t.get("gargs") or [""])
            if nm in ("read", "read_unaligned", "copy_nonoverlapping", "copy", "assume_init", "transmute", "transmute_copy", "zeroed") and any(x in ("value::node::Value", "lazyvalue::owned::OwnedLazyValue", "core::mem::manually_drop::ManuallyDrop<value::node::Value>") for x in g) and ("ptr" in t["callee"] or "mem" in t["callee"] or "intrinsics" in t["callee"]):
                mats.append((f, t["ln"], nm))
    ctx.floor("R16.2", "bitwise materialisations of Value/OwnedLazyValue", len(mats), 3)
    seen = {}
    for f, ln, how in mats:
        owner = prog.fns.get(f.parent_fn, f) if f.parent_fn else f
        ok = owner.name in HANDOVER_OK
        if not ok and not owner.vis.startswith("pub"):
            # a private helper that only the hand-over functions call is part of them
            callers = {prog.fns.get(cf.parent_fn, cf).name if cf.parent_fn else cf.name for cf, cb, ct in prog.callers_of(lambda t, oid=owner.id: t.get("callee") == oid)}
            ok = bool(callers) and callers <= set(HANDOVER_OK)
        k = f"{short(owner.id)}:{how}"
        seen[k] = seen.get(k, 0) + 1
        ctx.ob("R16.2", f"materialise:{k}#{seen[k]}", ok, f.loc(ln), f"bitwise {how} of a value in {'a hand-over function' if ok else 'a function outside the hand-over set: a second owner of the same arena count / heap data is created'}")
    # (b) sending side
    n = 0
    for f in prog.fns.values():
        # every function of the crate that hands a value's own bytes to a visitor (the text deserializer's methods; any
        # other Deserializer that answers the private token the same way)
        if f.crate != "sonic_rs":
            continue
        vb = [(b, t) for b, t in f.calls() if callee_is(t, "visit_bytes")]
        # only the hand-overs of an object's own bytes: slice_from_raw_parts(&val as *const u8, size_of::<T>())
        def is_bitwise(t):
            al = op_local(t["args"][1]) if len(t["args"]) > 1 else None
            if al is None:
                return False
            sl, leaves = backward_slice(f, [al])
            return any(lf[0] == "call" and callee_is(lf[2], "size_of") and any(x in g for g in (lf[2].get("rgargs") or []) for x in ("node::Value", "OwnedLazyValue")) for lf in leaves)
        vb = [(b, t) for b, t in vb if is_bitwise(t)]
        if not vb:
            continue
        md = [(b, t) for b, t in f.calls() if callee_is(t, "ManuallyDrop::<T>::new", "ManuallyDrop::new") and any(x in g for g in (t.get("rgargs") or []) for x in ("node::Value", "OwnedLazyValue"))]
        n += 1
        key = short(f.id)
        if not md:
            ctx.ob("R16.2", f"{key}:wrapped", False, f.loc(vb[0][1]["ln"]), "the value handed over through visit_bytes is not wrapped in ManuallyDrop: it is dropped here and again by the receiver")
            continue
        mb, mt = md[0]
        vbb, vt = vb[0]
        dom = f.dominates(mb, vbb)
        ctx.ob("R16.2", f"{key}:wrap-dominates-handover", dom and len(md) == 1, f.loc(mt["ln"]), "ManuallyDrop::new dominates the visit_bytes hand-over")
        # no exit between the wrap and the hand-over
        start = f.succs(mb)
        esc = set()
        for s0 in start:
            esc |= f.reachable_from(s0, avoid={vbb}) & set(f.return_blocks)
        ctx.ob("R16.2", f"{key}:no-exit-between-wrap-and-handover", not esc, f.loc(mt["ln"]),
               "every path from the ManuallyDrop wrap reaches visit_bytes: the wrapped value cannot be leaked on an early return" if not esc else
               "a return is reachable between ManuallyDrop::new and visit_bytes: on that error path the value (arena count / owned text) is never released")
        # the bytes handed over are those of the wrapped local
        al = op_local(vt["args"][1]) if len(vt["args"]) > 1 else None
        sl, leaves = backward_slice(f, [al]) if al is not None else (set(), [])
        ok = mt["dest"][0] in sl or any(lf[0] == "call" and lf[2] is mt for lf in leaves)
        ctx.ob("R16.2", f"{key}:handover-is-wrapped-local", ok, f.loc(vt["ln"]), "visit_bytes receives the bytes of the ManuallyDrop-wrapped local")
        # the wrapped value is the one that was parsed (moved in), not a copy left behind
    ctx.floor("R16.2", "sending sides (Deserializer methods calling visit_bytes)", n, 2)
    # node buffer element type
    c = [l for f in prog.fns.values() if f.name == "nodes" and (f.self_adt or "").endswith("DocumentVisitor") for l in [f.output]]
    ctx.ob("R16.2", "node-buffer-elements-ManuallyDrop", bool(c) and all("ManuallyDrop<value::node::Value>" in x for x in c), "src/value/node.rs", f"the node buffer holds ManuallyDrop<Value> elements ({c})")


def r16_3(ctx):
    prog = ctx.prog()
    f = prog.find("Value::parse_with_padding")
    pd = [(b, t) for b, t in f.calls() if callee_is(t, "parse_dom")]
    if not pd:
        ctx.fail_closed("R16.3", "parse_with_padding: parse_dom call")
        return
    from ..analysis import result_edges
    re_ = result_edges(f, pd[0][1]["dest"][0])
    # writes to *self
    writes = [b for b, i, s in f.assigns() if s["lhs"][0] == 1 and s["lhs"][1] == ["*"]]
    writes += [b for b, t in f.calls() if t["dest"][0] == 1 and t["dest"][1] == ["*"]]
    ok = bool(re_) and bool(writes) and all(w not in f.reachable_from(re_[1]) and w in f.reachable_from(re_[0]) and w not in f.reachable_from(0, avoid={re_[0]}) for w in writes)
    ctx.ob("R16.3", "self-assigned-after-success", ok, f.loc(), "*self is assigned only after parse_dom returned Ok (a failed parse leaves the value untouched)")
    leaks = [t["callee"] for b, t in f.calls() if t["callee"].rsplit("::", 1)[-1] in ("forget", "into_raw", "leak") or "ManuallyDrop" in t["callee"]]
    ctx.ob("R16.3", "no-leak-primitives", not leaks, f.loc(), "the local Arc<Shared> and buffer are ordinary locals (no forget / into_raw / ManuallyDrop), so drop elaboration releases them on every exit" if not leaks else f"leak primitives used: {leaks}")
    # set_json hands the buffer to the arena only on the success path
    sj = [(b, t) for b, t in f.calls() if callee_is(t, "set_json")]
    oks = bool(sj) and bool(re_) and all(b not in f.reachable_from(re_[1]) for b, t in sj)
    ctx.ob("R16.3", "buffer-owned-by-arena-on-success", oks, f.loc(), "the padded copy that the nodes point into is moved into the arena (set_json) on the success path")


def _strict_reach(prog, roots):
    cg = prog.callgraph
    return prog.reachable_fns(roots, edge_filter=lambda a, b: bool(prog.edge_kind[(a, b)] & {"direct", "cha", "closure"}))


def r16_4(ctx):
    prog = ctx.prog()
    roots = [prog.find("Parser::parse_dom").id, prog.find("Parser::parse_dom2").id]
    reach = _strict_reach(prog, roots)
    ctx.floor("R16.4", "functions reachable from parse_dom/parse_dom2", len(reach), 40)
    bad = [x for x in reach if prog.fns[x].name == "with_capacity" and (prog.fns[x].self_adt or "").endswith("TlsBuf")]
    ctx.ob("R16.4", "no-reentry:TlsBuf::with_capacity", not bad, "", "while a DocumentVisitor holds the thread-local node buffer nothing reachable takes it again")
    serde_calls = []
    for x in reach:
        f = prog.fns[x]
        for b, t in f.calls():
            tr = t.get("trait") or ""
            if t.get("st") == "U" and (tr.startswith("serde_core::") or tr.startswith("serde::")):
                serde_calls.append((f, t))
    ctx.ob("R16.4", "no-opaque-callback", not serde_calls, serde_calls[0][0].loc(serde_calls[0][1]["ln"]) if serde_calls else "", f"no call into serde (user code) while the DOM is being built ({len(serde_calls)} found)")
    # positive control: with_capacity is reachable from DocumentVisitor::new
    dv = prog.find("DocumentVisitor::new")
    pc = any(prog.fns[x].name == "with_capacity" for x in _strict_reach(prog, [dv.id]))
    ctx.ob("R16.4", "positive-control", pc, dv.loc(), "the query sees TlsBuf::with_capacity from DocumentVisitor::new", nontrivial=False)


def r16_5(ctx):
    prog = ctx.prog()
    users = set()
    for f in prog.fns.values():
        if f.crate != "sonic_rs":
            continue
        for b, i, s in f.assigns():
            for p in [s["lhs"]] + rv_places(s["rv"]):
                for e in p[1]:
                    if isinstance(e, list) and e[0] == "." and e[2] == "alloc" and "Shared" in f.locals[p[0]]["ty"]:
                        users.add(f.id)
    ok = bool(users) and all(prog.fns[u].name in ("get_alloc", "default", "fmt") for u in users)
    ctx.ob("R16.5", "alloc-field-access", ok, "src/value/shared.rs", f"the bump allocator field is touched only in {sorted(short(u) for u in users)}")
    ga = prog.find("Shared::get_alloc")
    ctx.ob("R16.5", "get_alloc:&mut self", ga.inputs and ga.inputs[0].startswith("&mut"), ga.loc(), f"get_alloc takes {ga.inputs}: allocation needs exclusive access, which `unsafe impl Sync for Shared` relies on")


def r16_6(ctx):
    prog = ctx.prog()
    root2 = prog.find("Parser::parse_dom2").id
    root1 = prog.find("Parser::parse_dom").id
    reach2 = _strict_reach(prog, [root2])
    reach1 = _strict_reach(prog, [root1])
    only2 = reach2 - reach1
    ctx.floor("R16.6", "functions only the copying parser reaches", len(only2), 3)
    bad = []
    for x in reach2:
        f = prog.fns[x]
        if f.self_adt != "sonic_rs::parser::Parser":
            continue
        for b, t in f.calls():
            nm = t["callee"].rsplit("::", 1)[-1]
            if nm.startswith("visit_borrowed") and "JsonVisitor" in (t.get("trait") or t["callee"]):
                # shared helpers are fine if also used by the in-place parser *and* guarded by it; a call in a
                # function that only the copying parser reaches is the violation
                if x in only2:
                    bad.append((f, t))
    ctx.ob("R16.6", "copying-parser:no-borrowing-visit", not bad, bad[0][0].loc(bad[0][1]["ln"]) if bad else "",
           "functions reached only by the copying parser (input not owned by the arena) never call visit_borrowed_*" if not bad else
           f"{short(bad[0][0].id)} (copying parser) calls {bad[0][1]['callee'].rsplit('::', 1)[-1]}: nodes would point into the caller's input, which no arena keeps alive")
    # and the shared helpers: every visit_borrowed_* call site is in a function the in-place parser reaches
    sites = prog.callers_of(lambda t: t["callee"].rsplit("::", 1)[-1].startswith("visit_borrowed") and "JsonVisitor" in (t.get("trait") or t["callee"]))
    sites = [(f, b, t) for f, b, t in sites if f.self_adt == "sonic_rs::parser::Parser"]
    ctx.floor("R16.6", "visit_borrowed_* call sites in the parser", len(sites), 2)
    for f, b, t in sites:
        ok = f.id in reach1 and f.id not in reach2
        ctx.ob("R16.6", f"borrowing-site:{short(f.id)}:{t['callee'].rsplit('::', 1)[-1]}", ok, f.loc(t["ln"]), "borrowing visit is made by a function of the in-place parser only" if ok else "borrowing visit is reachable from the copying parser")


TRANSPARENT = ("from", "deref", "deref_mut", "index", "index_mut", "as_ref", "as_mut", "as_ptr", "as_mut_ptr", "new_unchecked", "cast", "borrow", "borrow_mut", "into")


def _ptr_origin(f, l, depth=0):
    """where does the address held in local l come from?  follows copies, reborrows, field projections and
    address-preserving calls (From::from, Deref, Index, as_ptr ...) to the first call that produces it"""
    if depth > 30 or l is None:
        return None
    d = f.single_def(l)
    if d is None:
        return None
    if d[0] == "call":
        t = d[2]
        nm = t["callee"].rsplit("::", 1)[-1]
        if nm in TRANSPARENT and t["args"]:
            p = op_place(t["args"][0])
            return _ptr_origin(f, p[0], depth + 1) if p else None
        return t
    rv = d[3]["rv"]
    if rv["k"] in ("use", "cast"):
        p = op_place(rv["op"])
        return _ptr_origin(f, p[0], depth + 1) if p else None
    if rv["k"] in ("ref", "rawptr"):
        return _ptr_origin(f, rv["p"][0], depth + 1)
    return None


def r16_7(ctx):
    """(a) the root pointer a document hands out always points into its arena: every store to
    DocumentVisitor.root comes from a bump allocation; (b) the arena only grows while values may point into
    it: Bump::reset / dealloc-like calls do not occur"""
    prog = ctx.prog()
    stores = []
    for f in prog.fns.values():
        if f.crate != "sonic_rs" or not (f.self_adt or "").endswith("DocumentVisitor"):
            continue
        for b, i, s_ in f.assigns():
            lhs = s_["lhs"]
            names = [e[2] for e in lhs[1] if isinstance(e, list) and e[0] == "."]
            if names[-1:] == ["root"] and "DocumentVisitor" in f.locals[lhs[0]]["ty"]:
                stores.append((f, s_))
        for b, t in f.calls():
            d = t.get("dest")
            if d and [e[2] for e in d[1] if isinstance(e, list) and e[0] == "."][-1:] == ["root"]:
                stores.append((f, t))
    ctx.floor("R16.7", "stores to DocumentVisitor.root", len(stores), 1)
    k = 0
    for f, s_ in stores:
        k += 1
        if "rv" in s_:
            ls = [p[0] for p in rv_places(s_["rv"])]
        else:
            ls = [op_local(a) for a in s_["args"] if op_local(a) is not None]
        origin = _ptr_origin(f, ls[0]) if ls else None
        from_alloc = origin is not None and "bumpalo" in origin["callee"] and origin["callee"].rsplit("::", 1)[-1].startswith("alloc")
        init = origin is not None and callee_is(origin, "dangling")
        ctx.ob("R16.7", f"root-store:{short(f.id)}#{k}", from_alloc or init, f.loc(s_.get("ln")),
               "the root pointer is the address of a bump allocation of this document's arena" if from_alloc else ("initial dangling placeholder" if init else
               "the root pointer is set to memory that is not a bump allocation of the arena (e.g. the thread-local scratch buffer): the value dangles once the buffer is reused"))
    resets = prog.callers_of(lambda t: "bumpalo" in t.get("callee", "") and t["callee"].rsplit("::", 1)[-1] in ("reset", "reset_with_limit", "dealloc", "shrink"))
    ctx.ob("R16.7", "arena-never-reset", not resets, resets[0][0].loc(resets[0][2]["ln"]) if resets else "",
           "the shared bump arena is never reset or shrunk (values of earlier parses keep pointing into it)" if not resets else
           f"{short(resets[0][0].id)} resets the shared arena: every value produced earlier by the same deserializer dangles")
    pc = prog.callers_of(lambda t: "bumpalo" in t.get("callee", "") and t["callee"].rsplit("::", 1)[-1].startswith("alloc"))
    ctx.ob("R16.7", "positive-control:bump-calls-seen", len(pc) >= 3, "", f"{len(pc)} bump allocation call sites seen (the query resolves bumpalo calls)", nontrivial=False)


def r16_w(ctx):
    """type-level witnesses (compile_fail doctests with error codes, each with a compiling twin)"""
    from ..core import witness_obligations
    witness_obligations(ctx, "R16.W", [('W4OwnedAreStatic', "Value and OwnedLazyValue are 'static + Send + Sync, LazyValue<'a> is not 'static"), ('W6AllocNeedsMut', 'the bump allocator needs &mut Shared')])


REALLOC = ("shrink_to_fit", "shrink_to", "reserve", "reserve_exact", "try_reserve", "push", "extend", "extend_from_slice", "resize", "resize_with", "append", "insert",
           "into_boxed_slice", "split_off", "drain", "retain", "dedup", "clear", "set_len")


def r16_8(ctx):
    """the text that string / key / raw-number nodes point into stays where it is: after the over-reading reader was built
    on the padded buffer, parse_with_padding only moves the buffer (into the arena); nothing that can reallocate or
    rewrite a Vec<u8> is applied to it there, nor to the `json` field of the arena anywhere in the crate"""
    prog = ctx.prog()
    f = prog.find("Value::parse_with_padding")
    news = [(b, t) for b, t in f.calls() if "PaddedSliceRead" in t.get("callee", "") and t["callee"].endswith("::new")]
    if len(news) != 1:
        ctx.fail_closed("R16.8", "parse_with_padding: PaddedSliceRead::new")
        return
    nb = news[0][0]
    after = f.reachable_from(nb) - {nb}
    bad = []
    for b, t in f.calls():
        nm = t["callee"].rsplit("::", 1)[-1]
        if b in after and nm in REALLOC and "Vec" in t["callee"] and any("u8" in g for g in (t.get("rgargs") or t.get("gargs") or ["u8"])):
            bad.append((nm, t["ln"]))
    ctx.ob("R16.8", "parse_with_padding:buffer-only-moved", not bad, f.loc(bad[0][1] if bad else None),
           "after the reader was built on it the padded buffer is only moved into the arena" if not bad else
           f"the padded buffer is changed by {[x[0] for x in bad]} after the parser stored pointers into it: a reallocation (or a later one it enables) moves the text away from under every string, key and raw-number node")
    bad = []
    n = 0
    for g in prog.fns.values():
        if g.crate != "sonic_rs":
            continue
        for b, t in g.calls():
            nm = t["callee"].rsplit("::", 1)[-1]
            if nm not in REALLOC or "Vec" not in t["callee"] or not t["args"] or op_local(t["args"][0]) is None:
                continue
            sl, leaves = backward_slice(g, [op_local(t["args"][0])], through_calls=False)
            if any(lf[0] == "place" and "json" in [e[2] for e in lf[1][1] if isinstance(e, list) and e[0] == "."] and "Shared" in g.locals[lf[1][0]]["ty"] for lf in leaves):
                bad.append((short(g.id), nm, g.loc(t["ln"])))
        for b, i, s_ in g.assigns():
            names = [e[2] for e in s_["lhs"][1] if isinstance(e, list) and e[0] == "."]
            if names[-1:] == ["json"] and "Shared" in g.locals[s_["lhs"][0]]["ty"]:
                n += 1
                if g.name not in ("set_json", "default", "new"):
                    bad.append((short(g.id), "store", g.loc(s_.get("ln"))))
    ctx.ob("R16.8", "stores-to-Shared.json", True, "src/value/shared.rs", f"{n} store(s) to Shared.json seen", nontrivial=False)
    ctx.ob("R16.8", "Shared.json:never-reallocated", not bad, bad[0][2] if bad else "src/value/shared.rs",
           "the arena's text is stored once (set_json) and no reallocating Vec operation is applied to it" if not bad else
           f"the arena's text is changed after it was stored: {bad[:3]} - nodes keep raw pointers into the old allocation")


RULES = [("R16.1", r16_1), ("R16.2", r16_2), ("R16.3", r16_3), ("R16.4", r16_4), ("R16.5", r16_5), ("R16.6", r16_6), ("R16.7", r16_7), ("R16.8", r16_8), ("R16.W", r16_w)]

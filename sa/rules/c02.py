"""C02 — validating entry points accept exactly the well-formed texts: structural clauses."""
import collections
from ..facts import callee_is, op_local, op_place, op_int, op_bytes, norm_path, FactError
from ..analysis import (backward_slice, forward_derived, bool_switch_edges, result_edges, result_fate, switch_edges,
                        return_kinds, specialised_reach, path_to, control_deps)
from .c01 import short
from . import c07

EXPLANATION = (
    "Decides structural necessary conditions of C02: (R02.1) from_trait cannot return Ok without passing "
    "parse_trailing and check_utf8_final (errors propagated), from_slice builds its reader with UTF-8 "
    "validation on, from_reader goes through from_slice; (R02.2) every whitespace classifier of the "
    "configuration (SPACE_MASK, the x86 shuffle LUT evaluated over all 256 bytes, the portable match) "
    "denotes exactly {0x20,0x09,0x0A,0x0D}; (R02.3) every literal dispatch passes exactly rue/alse/ull "
    "under t/f/n; (R02.5) every escape interpreter (functions indexing ESCAPED_TAB) validates the four hex "
    "digits on its \\u branch before continuing; (R02.6) no non-validating skipper is reachable from the "
    "validating entry points under flag-specialised reachability; (R02.8) in every Deserializer method "
    "that hands out skipped/in-place bytes as str, the reader's UTF-8 verdict is checked on every path "
    "from the skip to the hand-over (lossy mode excepted); (R02.9) a float that can be infinite is "
    "rejected (shared with C07); (R02.10) the validating number skipper records a consumed fraction before "
    "it can test for '.' again. Does NOT decide the number and string grammars byte by byte."
)
ASSUMPTIONS = [
    "rustc MIR and callee resolution; class-hierarchy edges for the sealed Reader trait; callback model for serde",
    "pshufb/pcmpeqb semantics as encoded in this rule (lut[b&15]==b for b<128, never for b>=128 unless lut==0...)",
    "RFC 8259 whitespace and literal definitions",
]
WS = {0x20, 0x09, 0x0A, 0x0D}


def _ok_blocks(fn):
    return [b for b, k, _ in return_kinds(fn) if k == "Ok"]


def _ok_only_after(prog, fn, name, depth=0):
    """(holds, sites): every path of fn to an Ok return passes a call of `name` - made directly, or by a helper of the
    crate for which the same holds - whose result is propagated and whose error edge cannot reach Ok"""
    sites = [(b, t) for b, t in fn.calls() if callee_is(t, name)]
    if depth < 2:
        for b, t in fn.calls():
            g = prog.fns.get(t["callee"])
            if g is not None and g.crate == "sonic_rs" and g is not fn and not callee_is(t, name) and any(callee_is(tt, name) or (depth < 1 and prog.fns.get(tt["callee"]) is not None) for bb, tt in g.calls()):
                okg, sg = _ok_only_after(prog, g, name, depth + 1)
                if okg and sg:
                    sites.append((b, t))
    if not sites:
        return False, []
    # success exits: Ok(..) built here, or a callee's Result returned as it is (not the `?` residual)
    oks = [b for b, k, x in return_kinds(fn) if k in ("Ok", "other") or (k == "call" and not callee_is(x, "from_residual"))]
    blocks = {b for b, t in sites}
    esc = fn.reachable_from(0, avoid=blocks) & set(oks)
    prop = all(result_fate(fn, b, t) in ("propagated", "inspected") or _returned_directly(fn, t) for b, t in sites)
    bad_edge = False
    for b, t in sites:
        if fn.blocks[b]["term"].get("k") == "tailcall" or _returned_directly(fn, t):
            continue
        re_ = result_edges(fn, t["dest"][0])
        if re_ is None:
            tb = [(bb, tt) for bb, tt in fn.calls() if callee_is(tt, "branch") and op_local(tt["args"][0]) == t["dest"][0]]
            re_ = result_edges(fn, tb[0][1]["dest"][0]) if len(tb) == 1 else None
        if re_ is None or (fn.reachable_from(re_[1]) & set(oks)):
            bad_edge = True
    return (not esc and prop and not bad_edge), sites


def _returned_directly(fn, t):
    """the call's Result is the function's own return value (`helper(..)` in tail position)"""
    d = t["dest"]
    if d[0] == 0 and not d[1]:
        return True
    der = forward_derived(fn, {d[0]}) | {d[0]}
    return 0 in der and not any(callee_is(tt, "branch") and op_local(tt["args"][0]) in der for bb, tt in fn.calls())


def r02_1(ctx):
    prog = ctx.prog()
    ft = prog.find("serde::de::from_trait")
    oks = _ok_blocks(ft)
    ctx.floor("R02.1", "Ok returns of from_trait", len(oks), 1)
    for name in ("parse_trailing", "check_utf8_final"):
        ok, sites = _ok_only_after(prog, ft, name)
        if not sites:
            ctx.ob("R02.1", f"from_trait:{name}", False, ft.loc(), f"from_trait never calls {name}")
            continue
        ctx.ob("R02.1", f"from_trait:{name}", ok, ft.loc(sites[0][1]["ln"]),
               f"every path of from_trait to Ok passes {name} and its error edge cannot reach Ok" if ok else f"from_trait can return Ok without a successful {name}")
    # from_slice: validate_utf8 = true
    fs = prog.find("serde::de::from_slice")
    rn = [(b, t) for b, t in fs.calls() if callee_is(t, "Read::new", "Read::<'a>::new", "new") and "reader::Read" in t["callee"]]
    ok = bool(rn) and all(t["args"][1]["k"] == "const" and op_int(t["args"][1]) == 1 for b, t in rn)
    ctx.ob("R02.1", "from_slice:validate_utf8", ok, fs.loc(), "from_slice builds its reader with validate_utf8 = true" if ok else "from_slice does not request UTF-8 validation of the byte input")
    reach = prog.reachable_fns([fs.id])
    ctx.ob("R02.1", "from_slice->from_trait", ft.id in reach, fs.loc(), "from_slice reaches from_trait")
    fr = prog.find("serde::de::from_reader")
    ctx.ob("R02.1", "from_reader->from_slice", fs.id in prog.reachable_fns([fr.id]), fr.loc(), "from_reader parses through from_slice")
    # Read::new_in: the validation is controlled by the flag and its result stored in next_invalid_utf8
    ni = prog.find("Read::new_in")
    bodies = list(prog.with_closures(ni))
    bodies += [prog.fns[t["callee"]] for f in list(bodies) for b, t in f.calls() if t["callee"] in prog.fns and prog.fns[t["callee"]].crate == "sonic_rs" and prog.fns[t["callee"]].file == ni.file]
    uses = [x for f in bodies for b, t in f.calls() if callee_is(t, "from_utf8") for x in [t]]
    ctx.ob("R02.1", "Read::new_in:validates", bool(uses), ni.loc(), "Read::new_in runs the UTF-8 validator over the whole input when asked")


def _lut_ws(lut16):
    return {b for b in range(128) if lut16[b & 15] == b} | ({b for b in range(128, 256) if False})


def r02_2(ctx, config="native"):
    prog = ctx.prog(config)
    m = prog.const_int("is_whitespace::SPACE_MASK")
    got = {i for i in range(64) if (m >> i) & 1}
    ctx.ob("R02.2", "SPACE_MASK", got == WS, "src/parser.rs", f"is_whitespace::SPACE_MASK denotes {sorted(hex(x) for x in got)}")
    # the mask is indexed by the byte through checked_shl (bytes >= 64 are never whitespace)
    iw = prog.find("parser::is_whitespace")
    cs = [t for f in prog.with_closures(iw) for b, t in f.calls() if callee_is(t, "checked_shl")]
    ctx.ob("R02.2", "is_whitespace:checked_shl", bool(cs), iw.loc(), "is_whitespace shifts with checked_shl, so bytes >= 64 cannot alias a mask bit")
    gn = [f for f in prog.fns.values() if f.name == "get_nonspace_bits" and f.crate == "sonic_rs"]
    if len(gn) != 1:
        ctx.fail_closed("R02.2", "get_nonspace_bits")
        return
    gn = gn[0]
    # the classifier body: get_nonspace_bits itself, or a helper of its module that it applies to each half
    top = gn
    helpers = [prog.fns[t["callee"]] for b, t in gn.calls() if t["callee"] in prog.fns and prog.fns[t["callee"]].crate == "sonic_rs"
               and any(callee_is(tt, "_mm256_setr_epi8") for bb, tt in prog.fns[t["callee"]].calls())]
    per_call = 1
    if helpers and not any(callee_is(t, "_mm256_setr_epi8") for b, t in gn.calls()):
        gn = helpers[0]
        per_call = sum(1 for b, t in top.calls() if t["callee"] == gn.id)
    setr = [(b, t) for b, t in gn.calls() if callee_is(t, "_mm256_setr_epi8")]
    if setr:
        vals = []
        for a in setr[0][1]["args"]:
            v = op_int(a)
            if v is None and op_local(a) is not None:
                sc = gn.src(op_local(a))
                if sc[0] == "const":
                    v = op_int(sc[1])
            vals.append(v)
        if None in vals or len(vals) != 32:
            ctx.ob("R02.2", "x86-lut:constants", False, gn.loc(), "shuffle LUT operands are not 32 constants (fail closed)")
        else:
            vals = [v & 0xFF for v in vals]
            for half, lut in (("lo", vals[:16]), ("hi", vals[16:])):
                s = _lut_ws(lut)
                ctx.ob("R02.2", f"x86-lut:{half}", s == WS, gn.loc(setr[0][1]["ln"]), f"pshufb/cmpeq classifier ({half} lane) evaluated over all 256 bytes accepts {sorted(hex(x) for x in s)}")
        # shape: shuffle(lut, data) then cmpeq(data, shuffled), movemask - for both 32-byte halves - and a final negation
        names = [t["callee"].rsplit("::", 1)[-1] for b, t in gn.calls()]
        n = names.count("_mm256_shuffle_epi8")
        ok = n >= 1 and names.count("_mm256_cmpeq_epi8") == n and names.count("_mm256_movemask_epi8") == n and n * per_call == 2
        nots = [s for f_ in {top, gn} for b, i, s in f_.assigns() if s["rv"]["k"] == "unop" and s["rv"]["op"] == "Not"]
        ctx.ob("R02.2", "x86-lut:shape", ok and len(nots) >= 1, gn.loc(), "shuffle -> cmpeq -> movemask for both halves, result negated (non-space bits)")
        k = 0
        for b, t in gn.calls():
            if callee_is(t, "_mm256_shuffle_epi8"):
                # first operand must be the LUT, second the data
                k += 1
                l0 = op_local(t["args"][0])
                ok0 = l0 is not None and setr[0][1]["dest"][0] in (backward_slice(gn, [l0])[0] | {l0})
                ctx.ob("R02.2", f"x86-lut:operand-order#{k}", ok0, gn.loc(t["ln"]), "pshufb(table = LUT, index = data)")
    elif any("vqtbl1q_u8" in t["callee"] for f in [gn] + [x for x in prog.fns.values() if x.id.startswith(gn.id + "::")] for b, t in f.calls()):
        # aarch64 nibble tables: whitespace iff LOW[b & 15] & HIGH[b >> 4] & mask != 0
        helper = [x for x in prog.fns.values() if x.id.startswith(gn.id + "::") and any("vqtbl1q_u8" in t["callee"] for b, t in x.calls())]
        hf = helper[0] if helper else gn
        low = prog.const("chunk_nonspace_bits::LOW_TAB", required=False)
        high = prog.const("chunk_nonspace_bits::HIGH_TAB", required=False)
        if not low or not high or "bytes" not in low or "bytes" not in high:
            ctx.ob("R02.2", "neon-tables", False, hf.loc(), "nibble tables not found / not evaluable (fail closed)")
        else:
            lo_t, hi_t = bytes.fromhex(low["bytes"]), bytes.fromhex(high["bytes"])
            splats = [op_int(t["args"][0]) for b, t in hf.calls() if t["callee"].rsplit("::", 1)[-1] in ("vmovq_n_u8", "vdupq_n_u8")]
            shr = [t for b, t in hf.calls() if "vshrq_n_u8" in t["callee"]]
            shift = None
            for t in shr:
                for g in (t.get("rgargs") or t.get("gargs") or []):
                    if g.isdigit():
                        shift = int(g)
            nibble_mask = 0xF if 0xF in splats else None
            wmask = [v for v in splats if v not in (0xF, None)]
            ok_shape = nibble_mask == 0xF and shift == 4 and len(wmask) == 1 and any("vtstq_u8" in t["callee"] for b, t in hf.calls()) and any("vandq_u8" in t["callee"] for b, t in hf.calls())
            ctx.ob("R02.2", "neon-shape", ok_shape, hf.loc(), f"lo = b & {nibble_mask}, hi = b >> {shift}, test mask {wmask}: two table lookups AND-ed and tested against the whitespace mask")
            if ok_shape and len(lo_t) == 16 and len(hi_t) == 16:
                sset = {b for b in range(256) if lo_t[b & 15] & hi_t[b >> 4] & wmask[0]}
                ctx.ob("R02.2", "neon-tables", sset == WS, hf.loc(), f"nibble-table classifier evaluated over all 256 bytes accepts {sorted(hex(x) for x in sset)}")
        nots = [s for b, i, s in gn.assigns() if s["rv"]["k"] == "unop" and s["rv"]["op"] == "Not"]
        ctx.ob("R02.2", "neon-negated", len(nots) >= 1, gn.loc(), "the whitespace mask is negated into non-space bits")
    else:
        # portable classifier: a switch over the byte with exactly the four whitespace arms
        found = False
        for b, t in gn.terms():
            if t["k"] == "switch" and t.get("dty") == "u8":
                vals = {int(v) for v, _ in t["targets"]}
                found = True
                ctx.ob("R02.2", "portable-match", vals == WS, gn.loc(t["ln"]), f"portable classifier matches {sorted(hex(x) for x in vals)}")
        if not found:
            ctx.fail_closed("R02.2", "portable get_nonspace_bits: byte switch")


LIT = {116: b"rue", 102: b"alse", 110: b"ull"}


def r02_3(ctx):
    prog = ctx.prog()
    n = 0
    seen = collections.Counter()
    for fn in prog.fns.values():
        if fn.crate != "sonic_rs":
            continue
        for b, t in fn.calls():
            if not callee_is(t, "parse_literal", "match_literal"):
                continue
            lit = None
            for a in t["args"][1:]:
                lit = op_bytes(a)
                if lit is None and op_local(a) is not None:
                    s = fn.src(op_local(a))
                    if s[0] == "const":
                        lit = op_bytes(s[1])
            if lit is None:
                continue
            # byte arms dominating the call
            arms = set()
            for sb, st in fn.terms():
                if st["k"] == "switch" and st.get("dty") == "u8":
                    for v, tgt in st["targets"]:
                        if fn.dominates(tgt, b) and len([x for x in st["targets"] if x[1] == tgt]) == 1 and tgt != st["otherwise"]:
                            arms.add(int(v))
            n += 1
            seen[short(fn.id)] += 1
            key = f"{short(fn.id)}#{seen[short(fn.id)]}"
            if arms & set(LIT):
                v = sorted(arms & set(LIT))[-1]
                ok = len(arms & set(LIT)) == 1 and LIT[v] == lit
                ctx.ob("R02.3", key, ok, fn.loc(t["ln"]), f"after first byte {chr(v)!r} the literal tail {lit!r} is required" + ("" if ok else f" (RFC spelling needs {LIT[v]!r})"))
            else:
                ok = lit in LIT.values()
                ctx.ob("R02.3", key, ok, fn.loc(t["ln"]), f"literal tail {lit!r} (dispatch byte not visible in this function)")
    ctx.floor("R02.3", "literal dispatch sites", n, 15)


HEXCALLS = ("hex_to_u32_nocheck", "parse_escaped_utf8", "handle_unicode_codepoint_mut")


def _hex_judged(fn, t):
    """is the value produced by a hex-decoding call judged afterwards?  hex_to_u32_nocheck and
    parse_escaped_utf8 return a number whose high bits are set when a digit was not hexadecimal: it has to
    reach a comparison (with 0xFFFF / a range) or codepoint_to_utf8 (which rejects it); the in-place helper
    returns a bool that has to be tested"""
    d = t["dest"][0]
    start = {d}
    # through `?`
    for b, tt in fn.calls():
        if callee_is(tt, "branch") and op_local(tt["args"][0]) == d:
            br = tt["dest"][0]
            for bb, i, ss in fn.assigns():
                p = op_place(ss["rv"].get("op", {"k": ""})) if ss["rv"]["k"] in ("use", "cast") else None
                if p and p[0] == br and any(isinstance(e, list) and e[0] == "as" and e[1] == "Continue" for e in p[1]) and not ss["lhs"][1]:
                    start.add(ss["lhs"][0])
    der = forward_derived(fn, start)
    for b, i, ss in fn.assigns():
        rv = ss["rv"]
        if rv["k"] == "binop" and rv["op"] in ("Gt", "Ge", "Lt", "Le", "Eq", "Ne") and (op_local(rv["a"]) in der or op_local(rv["b"]) in der):
            return True
    for b, tt in fn.calls():
        if callee_is(tt, "codepoint_to_utf8", "contains") and any(op_local(a) in der or (op_local(a) is not None and fn.src(op_local(a)) == ("refof", x) for x in der) for a in tt["args"]):
            return True
        if callee_is(tt, "codepoint_to_utf8") and any(op_local(a) in der for a in tt["args"]):
            return True
    for b, tt in fn.terms():
        if tt["k"] == "switch" and op_local(tt["discr"]) in der and fn.locals[d]["ty"] == "bool":
            return True
    # a bool result negated then tested
    if fn.locals[d]["ty"] == "bool":
        e = bool_switch_edges(fn, d)
        if e:
            return True
    return False


def r02_5(ctx):
    prog = ctx.prog()
    users = []
    for fn in prog.fns.values():
        if fn.crate != "sonic_rs":
            continue
        if any(o.get("def", "").endswith("string::ESCAPED_TAB") for b, s, o in fn.const_operands()):
            users.append(fn)
    ctx.floor("R02.5", "escape interpreters (functions indexing ESCAPED_TAB)", len(users), 3)
    for fn in users:
        # the 'u' edge: switch value 117 on a u8, or Eq(x, 117)
        u_targets = []
        tests = []
        for b, t in fn.terms():
            if t["k"] == "switch" and t.get("dty") == "u8":
                for v, tgt in t["targets"]:
                    if int(v) == 117:
                        u_targets.append(tgt)
                        tests.append(b)
        for b, i, s in fn.assigns():
            rv = s["rv"]
            if rv["k"] == "binop" and rv["op"] in ("Eq", "Ne") and (op_int(rv["a"]) == 117 or op_int(rv["b"]) == 117):
                e = bool_switch_edges(fn, s["lhs"][0])
                if e:
                    u_targets.append(e[0] if rv["op"] == "Eq" else e[1])
                    tests.append(b)
        if not u_targets:
            ctx.ob("R02.5", f"{short(fn.id)}:u-branch", False, fn.loc(), "escape interpreter without a recognisable \\u branch (fail closed)")
            continue
        hexb = {b for b, t in fn.calls() if callee_is(t, *HEXCALLS)}
        oks = set(_ok_blocks(fn))
        for k, ut in enumerate(u_targets):
            reach = fn.reachable_from(ut, avoid=hexb)
            # returning success, or coming back to the escape dispatch, without having decoded the digits
            leak = (reach & oks) or (reach & set(tests)) or (reach & set(fn.return_blocks) and not oks and "Result" not in fn.output and "bool" not in fn.output)
            used = False
            for hb in hexb:
                t = fn.blocks[hb]["term"]
                used = used or _hex_judged(fn, t)
            ok = bool(hexb) and not leak and used
            ctx.ob("R02.5", f"{short(fn.id)}:u-branch#{k + 1}", ok, fn.loc(),
                   "the \\u branch reaches the hex-digit decoder on every path before continuing, and its verdict is used" if ok else
                   "the \\u branch can continue without decoding/validating the four hex digits (\\uZZZZ accepted)")


SINK_NAMES = ("skip_one_unchecked", "skip_container", "skip_string_unchecked", "skip_string_unchecked2", "skip_number_unsafe",
              "get_next_token", "skip_container_loop", "get_many_keys_unchecked", "get_many_index_unchecked")


def sinks(prog):
    return {f.id for f in prog.fns.values() if f.crate == "sonic_rs" and f.name in SINK_NAMES and f.self_adt == "sonic_rs::parser::Parser"}


def r02_6(ctx):
    prog = ctx.prog()
    sk = sinks(prog)
    ctx.floor("R02.6", "non-validating skippers", len(sk), 6)
    entries = []
    for name in ("serde::de::from_trait",):
        entries.append((prog.find(name).id, {}, {}))
    # Deserializer::deserialize and the stream iterator
    for f in prog.fns.values():
        if f.crate == "sonic_rs" and ((f.name == "deserialize" and (f.self_adt or "").endswith("de::Deserializer") and not f.trait) or (f.name == "next" and (f.self_adt or "").endswith("StreamDeserializer"))):
            entries.append((f.id, {}, {}))
    ctx.floor("R02.6", "validating entry points", len(entries), 3)
    reached, via = specialised_reach(prog, entries)
    ctx.note(f"R02.6: {len(reached)} functions reachable from the validating entries")
    hit = sorted(set(reached) & sk)
    for h in hit:
        ctx.ob("R02.6", f"reach:{short(h)}", False, prog.fns[h].loc(), "non-validating skipper reachable from a validating entry point: " + " -> ".join(f"{short(a)}" for a, l in path_to(via, h)))
    ctx.ob("R02.6", "no-sink-reached", not hit, "", f"{len(reached)} functions reachable from from_trait / Deserializer::deserialize / StreamDeserializer::next under flag specialisation; none is a non-validating skipper")
    # positive control: the sinks are reachable from the unchecked API
    unchecked = [f.id for f in prog.fns.values() if f.crate == "sonic_rs" and f.name in ("get_unchecked", "get_from_str_unchecked", "to_array_iter_unchecked")]
    r2, _ = specialised_reach(prog, [(u, {}, {}) for u in unchecked])
    ctx.ob("R02.6", "positive-control:unchecked-api-reaches-sinks", bool(set(r2) & sk), "", f"the unchecked API reaches {len(set(r2) & sk)} of the sinks (the query sees them)", nontrivial=False)


SPAN_PRODUCERS = ("skip_one", "get_owned_lazyvalue", "parse_with_padding")
VERDICTS = ("check_invalid_utf8", "check_utf8_final", "from_utf8")


def r02_8(ctx):
    prog = ctx.prog()
    n = 0
    for fn in prog.fns.values():
        if fn.crate != "sonic_rs" or not (fn.self_adt or "").endswith("serde::de::Deserializer"):
            continue
        prods = [(b, t) for b, t in fn.calls() if callee_is(t, *SPAN_PRODUCERS) and ("Parser" in t["callee"] or "Value" in t["callee"])]
        if not prods:
            continue
        verd = {b for b, t in fn.calls() if callee_is(t, *VERDICTS) and result_fate(fn, b, t) in ("propagated", "inspected")}
        # lossy mode repairs instead of rejecting: the edge on which cfg.utf8_lossy is true is exempt
        lossy_edges = set()
        for b, t in fn.terms():
            if t["k"] == "switch" and t.get("dty") == "bool":
                l = op_local(t["discr"])
                if l is None:
                    continue
                sl, leaves = backward_slice(fn, [l])
                if any(lf[0] == "place" and "utf8_lossy" in [e[2] for e in lf[1][1] if isinstance(e, list) and e[0] == "."] for lf in leaves):
                    e = bool_switch_edges(fn, l) if fn.src(l)[0] != "multi" else None
                    negs = sum(1 for x in sl | {l} for d in fn.defs.get(x, []) if d[0] == "stmt" and d[3]["rv"]["k"] == "unop" and d[3]["rv"]["op"] == "Not")
                    edges = dict(switch_edges(fn, b))
                    true_t = edges.get(1, edges.get(None))
                    false_t = edges.get(0)
                    lossy_edges.add(false_t if negs % 2 else true_t)
        for b, t in prods:
            n += 1
            re_ = None
            tb = [(bb, tt) for bb, tt in fn.calls() if callee_is(tt, "branch") and op_local(tt["args"][0]) == t["dest"][0]]
            if tb:
                re_ = result_edges(fn, tb[0][1]["dest"][0])
            else:
                re_ = result_edges(fn, t["dest"][0])
            start = re_[0] if re_ else (fn.succs(b)[0] if fn.succs(b) else None)
            if start is None:
                continue
            # hand-over: any later call into a visitor or an Ok return
            goals = set(_ok_blocks(fn)) | {bb for bb, tt in fn.calls() if tt.get("st") == "U" and "Visitor" in (tt.get("trait") or "")}
            reach = fn.reachable_from(start, avoid=verd | lossy_edges)
            leak = reach & goals
            key = f"{short(fn.id)}:{t['callee'].rsplit('::', 1)[-1]}"
            if callee_is(t, "parse_with_padding"):
                # check_invalid_utf8 only reports an invalid sequence that lies before the reader index: the
                # count returned by the in-place parse must have been consumed (eat) before the verdict is asked
                eats = [bb for bb, tt in fn.calls() if callee_is(tt, "Reader::eat")]
                vb = [bb for bb in verd if bb in fn.reachable_from(start)]
                ordered = bool(vb) and all(any(fn.dominates(e, v) and e in fn.reachable_from(start) for e in eats) for v in vb)
                ctx.ob("R02.8", key + ":consumed-before-verdict", ordered, fn.loc(t["ln"]),
                       "the parsed bytes are consumed (eat) before check_invalid_utf8, which only looks behind the reader index" if ordered else
                       "check_invalid_utf8 is asked before the parsed bytes are consumed: it only looks behind the reader index, so it can never report the invalid sequence")
            ctx.ob("R02.8", key, not leak, fn.loc(t["ln"]),
                   "every path from the skip / in-place parse to the hand-over of its bytes passes the reader's UTF-8 verdict (lossy mode excepted)" if not leak else
                   "bytes skipped or parsed in place are handed out as str on a path that never checks the reader's UTF-8 verdict")
    ctx.floor("R02.8", "span-producing calls in Deserializer methods", n, 4)


def r02_10(ctx):
    prog = ctx.prog()
    fn = prog.find("Parser::do_skip_number")
    dot_targets = []
    dot_tests = set()
    for b, t in fn.terms():
        if t["k"] == "switch" and t.get("dty") == "u8":
            for v, tgt in t["targets"]:
                if int(v) == 46:
                    dot_targets.append(tgt)
                    dot_tests.add(b)
    for b, i, s in fn.assigns():
        rv = s["rv"]
        if rv["k"] == "binop" and rv["op"] == "Eq" and (op_int(rv["a"]) == 46 or op_int(rv["b"]) == 46):
            e = bool_switch_edges(fn, s["lhs"][0])
            if e:
                dot_targets.append(e[0])
                dot_tests.add(b)
    # the same test written as a comparison of the peeked Option<u8> with Some(b'.')
    for b, t in fn.calls():
        if not callee_is(t, "eq", "ne") or "Option<u8>" not in " ".join((t.get("rgargs") or []) + (t.get("gargs") or [])):
            continue
        dot = False
        for a in t["args"][:2]:
            l = op_local(a)
            cands = [a] + ([lf[1] for lf in backward_slice(fn, [l])[1] if lf[0] == "const"] if l is not None else [])
            for c in cands:
                bs = c.get("bytes") if isinstance(c, dict) else None
                if bs and "Option<u8>" in c.get("ty", "") and bytes.fromhex(bs)[-1:] == b".":
                    dot = True
        e = bool_switch_edges(fn, t["dest"][0]) if dot else None
        if e:
            dot_targets.append(e[0] if callee_is(t, "eq") else e[1])
            dot_tests.add(b)
    ctx.floor("R02.10", "tests for '.' in the validating number skipper", len(dot_tests), 1)
    # the fraction flag: bool locals assigned `true` somewhere and tested right after a dot edge
    setters = collections.defaultdict(set)
    for b, i, s in fn.assigns():
        rv = s["rv"]
        if not s["lhs"][1] and fn.locals[s["lhs"][0]]["ty"] == "bool" and rv["k"] == "use" and rv["op"]["k"] == "const" and op_int(rv["op"]) == 1:
            setters[s["lhs"][0]].add(b)
    flag = None
    for l, bs in setters.items():
        tested = False
        for d in dot_targets:
            for bb in list(fn.reachable_from(d))[:0] or [d] + fn.succs(d):
                t = fn.blocks[bb]["term"]
                if t["k"] == "switch" and op_local(t["discr"]) is not None and l in (backward_slice(fn, [op_local(t["discr"])])[0] | {op_local(t["discr"])}):
                    tested = True
        if tested:
            flag = l
    if flag is None:
        # no flag: the scanner follows the grammar in a straight line.  The same clause without a flag to set: once a '.'
        # is consumed no test for '.' can be reached again
        setters[None] = set()
    # after the flag test passed (flag == false edge) is where the '.' is really accepted
    accept = []
    for d in dot_targets:
        tgt = d
        for bb in ([d] + fn.succs(d)) if flag is not None else []:
            t = fn.blocks[bb]["term"]
            if t["k"] == "switch" and op_local(t["discr"]) is not None and flag in (backward_slice(fn, [op_local(t["discr"])])[0] | {op_local(t["discr"])}):
                l = op_local(t["discr"])
                sl, _ = backward_slice(fn, [l])
                negs = sum(1 for x in sl | {l} for dd in fn.defs.get(x, []) if dd[0] == "stmt" and dd[3]["rv"]["k"] == "unop" and dd[3]["rv"]["op"] == "Not")
                edges = dict(switch_edges(fn, bb))
                # flag false  <=> (negated discr true) or (plain discr false)
                tgt = edges.get(1, edges.get(None)) if negs % 2 else edges.get(0)
        accept.append(tgt)
    k = 0
    for a in accept:
        k += 1
        reach = fn.reachable_from(a, avoid=setters[flag])
        again = reach & dot_tests
        ctx.ob("R02.10", f"dot-accept#{k}", not again, fn.loc(fn.blocks[a]["term"]["ln"]),
               (f"after a '.' is consumed the fraction flag `{fn.locals[flag].get('name')}` is set on every path that can test for '.' again" if flag is not None else "after a '.' is consumed no test for '.' is reachable again") if not again else
               f"after a '.' is consumed a path reaches another test for '.'" + (f" without setting `{fn.locals[flag].get('name')}`" if flag is not None else "") + ": a second fraction (1.5.5) is skipped as one number")
    # a '.' must be followed by a digit: from the edge on which the dot is accepted, the digit check is passed before the
    # scanner looks at anything else (the next chunk, the exponent, the end of the number)
    digit = {b for b, t in fn.calls() if callee_is(t, "skip_single_digit")}
    goals = {b for b, t in fn.calls() if callee_is(t, "peek_n", "skip_exponent", "Reader::peek", "peek")} | set(fn.return_blocks)
    k = 0
    for a in accept:
        k += 1
        esc = (fn.reachable_from(a, avoid=digit) | ({a} - digit)) & goals
        # reading the byte that is being dispatched does not count: only reads after the accept edge
        ctx.ob("R02.10", f"dot-then-digit#{k}", not esc, fn.loc(fn.blocks[a]["term"]["ln"]),
               "a consumed '.' is followed by the one-digit check before anything else is examined" if not esc else
               "a consumed '.' can be followed by the next block / the exponent / the end of the number without the one-digit check: `1.`, `1.e5` are skipped as numbers")


VALUE_START = {45, 34, 91, 123, 116, 102, 110} | set(range(48, 58))


def _byte_alias(fn, byte_places):
    """predicate: is this operand (a copy of) the dispatched byte?"""
    def is_byte(o):
        p = op_place(o)
        if p is None:
            return False
        if tuple_place(p) in byte_places:
            return True
        if not p[1]:
            sc = fn.src(p[0])
            if sc[0] == "place" and tuple_place(sc[1]) in byte_places:
                return True
            if sc[0] == "param" and ("param", sc[1]) in byte_places:
                return True
        return False
    return is_byte


def tuple_place(p):
    return (p[0], json_key(p[1]))


def json_key(x):
    import json as _j
    return _j.dumps(x)


def arm_of(fn, start, is_byte, v):
    """follow the decision DAG on the dispatched byte for the concrete value v; returns the first block that
    does something else than deciding on the byte"""
    env = {}
    cur = start
    for step in range(64):
        blk = fn.blocks[cur]
        pure = True
        for s in blk["stmts"]:
            if s["k"] != "assign":
                continue
            rv = s["rv"]
            lhs = s["lhs"]
            if rv["k"] == "binop" and rv["op"] in ("Le", "Lt", "Ge", "Gt", "Eq", "Ne") and not lhs[1]:
                a, b = rv["a"], rv["b"]
                av = v if is_byte(a) else op_int(a)
                bv = v if is_byte(b) else op_int(b)
                if av is not None and bv is not None and (is_byte(a) or is_byte(b)):
                    env[lhs[0]] = {"Le": av <= bv, "Lt": av < bv, "Ge": av >= bv, "Gt": av > bv, "Eq": av == bv, "Ne": av != bv}[rv["op"]]
                    continue
            if rv["k"] == "unop" and rv["op"] == "Not" and op_local(rv["a"]) in env and not lhs[1]:
                env[lhs[0]] = not env[op_local(rv["a"])]
                continue
            if rv["k"] == "use" and (is_byte(rv["op"]) or op_local(rv["op"]) in env) and not lhs[1]:
                if op_local(rv["op"]) in env:
                    env[lhs[0]] = env[op_local(rv["op"])]
                continue
            pure = False
        t = blk["term"]
        if not pure and step > 0:
            return cur
        if t["k"] == "goto":
            cur = t["t"]
            continue
        if t["k"] == "switch":
            d = t["discr"]
            if is_byte(d):
                tg = None
                for val, x in t["targets"]:
                    if int(val) == v:
                        tg = x
                cur = tg if tg is not None else t["otherwise"]
                continue
            l = op_local(d)
            if l in env:
                want = 1 if env[l] else 0
                tg = None
                for val, x in t["targets"]:
                    if int(val) == want:
                        tg = x
                cur = tg if tg is not None else t["otherwise"]
                continue
        return cur
    return cur


def r02_3b(ctx):
    """a mis-spelled literal is an error, not a `false`: the helper that consumes the tail of `true` / `false` / `null` for
    the match guards of the owned-lazy loader has already eaten those bytes when it answers; `Ok(false)` sends the caller
    to its generic arm, which steps back one byte only and re-parses from the middle of the literal"""
    prog = ctx.prog()
    f = prog.find("Parser::match_literal", required=False)
    if f is None:
        ctx.ob("R02.3b", "match_literal", True, "", "no match_literal helper in this tree", nontrivial=False)
        return
    bad = []
    for b, i, s_ in f.assigns():
        rv = s_["rv"]
        if rv["k"] == "agg" and rv.get("variant") == "Ok" and rv["f"] and f.locals[s_["lhs"][0]]["ty"].startswith("core::result::Result<bool"):
            if op_int(rv["f"][0]) != 1:
                bad.append(s_.get("ln"))
    ctx.ob("R02.3b", "match_literal:mismatch-is-an-error", not bad, f.loc(bad[0] if bad else None),
           "match_literal answers Ok(true) or an error" if not bad else
           "match_literal can answer Ok(false) after it consumed the bytes: the caller's guard fails, its generic arm steps back one byte and parses from inside the mis-spelled literal (`tru1` is accepted as 1)")


def r02_4(ctx):
    """one value-start alphabet: every value dispatcher (a switch on a byte with arms for '-', '"', '[' and
    '{'), evaluated for all 256 byte values, sends exactly '-' and the ten digits to its number arm, exactly
    one byte each to its string / object / array arms, and every byte outside the JSON value-start alphabet
    to one catch-all arm"""
    prog = ctx.prog()
    n = 0
    for f in prog.fns.values():
        if f.crate != "sonic_rs":
            continue
        start = None
        bplace = None
        for b, t in f.terms():
            if t["k"] == "switch" and t.get("dty") == "u8" and {34, 45, 91, 123} <= {int(v) for v, _ in t["targets"]}:
                start, bplace = b, op_place(t["discr"])
                break
        if start is None or bplace is None:
            continue
        n += 1
        places = {tuple_place(bplace)}
        if not bplace[1]:
            sc = f.src(bplace[0])
            if sc[0] == "param":
                places.add(("param", sc[1]))
            if sc[0] == "place":
                places.add(tuple_place(sc[1]))
        is_byte = _byte_alias(f, places)
        arms = {v: arm_of(f, start, is_byte, v) for v in range(256)}
        num = arms[45]
        catch = arms[0]
        key = short(f.id)
        numset = {v for v, a in arms.items() if a == num}
        ctx.ob("R02.4", f"{key}:number-arm", numset == {45} | set(range(48, 58)) and num != catch, f.loc(), f"number arm is taken for {sorted(chr(v) for v in numset)}" if len(numset) < 20 else f"number arm is taken for {len(numset)} byte values (expected '-' and the ten digits)")
        for ch in (34, 91, 123):
            only = {v for v, a in arms.items() if a == arms[ch]}
            ctx.ob("R02.4", f"{key}:arm:{chr(ch)}", only == {ch} and arms[ch] != catch, f.loc(), f"arm of {chr(ch)!r} is taken for {sorted(chr(v) for v in only)[:6]}")
        outside = {v for v in range(256) if v not in VALUE_START}
        stray = sorted(v for v in outside if arms[v] != catch)
        ctx.ob("R02.4", f"{key}:outside-alphabet", not stray, f.loc(), "all 245 bytes outside the value-start alphabet go to the one catch-all arm" if not stray else f"bytes {[hex(v) for v in stray[:8]]} outside the JSON value-start alphabet are accepted by their own arm")
        # what the catch-all does: error / panic / delegation of the literal bytes
        cb = f.blocks[catch]
        t = cb["term"]
        errs = [s for s in cb["stmts"] if s["k"] == "assign" and s["rv"]["k"] == "agg" and s["rv"].get("adt", "").endswith("ErrorCode")]
        lit_own = all(arms[v] != catch for v in (116, 102, 110))
        kind = None
        if errs or (t["k"] in ("call",) and callee_is(t, "error", "panic_fmt", "panic", "unreachable_display", "from_str_nonconst", "new_const")) or t["k"] == "unreachable":
            kind = "error"
        elif t["k"] in ("call", "tailcall") and t.get("callee") in prog.fns:
            g = prog.fns[t["callee"]]
            sw = [tt for bb, tt in g.terms() if tt["k"] == "switch" and tt.get("dty") == "u8" and {116, 102, 110} <= {int(v) for v, _ in tt["targets"]}]
            byte_arg = any(is_byte(a) for a in t["args"])
            if sw and byte_arg:
                kind = f"delegates the byte to {short(g.id)}, which dispatches t/f/n and rejects the rest"
        okc = kind is not None and (lit_own or (kind or "").startswith("delegates") or f.name in ("load_owned_lazyvalue", "get_type"))
        ctx.ob("R02.4", f"{key}:catch-all", okc, f.loc(t.get("ln")), f"catch-all arm: {kind}; literal bytes t/f/n " + ("have their own arms" if lit_own else "go through the catch-all") if okc else "the catch-all arm of the value dispatcher neither rejects nor delegates to a literal dispatcher")
    ctx.floor("R02.4", "value dispatchers (switch with arms for '-', '\"', '[' and '{')", n, 9)


RAW_PEEK = ("Reader::peek", "Reader::peek_n", "Reader::at")
WS_SRC = ("skip_space", "skip_space_peek")


def r02_7(ctx):
    """separator handling after whitespace: a test for the closing bracket of a container made on a byte that
    was peeked raw (without skipping whitespace) must be repeated on a byte obtained through skip_space before
    the first element is parsed; otherwise `[ ]` is not recognised as empty (sibling parsers all go through
    skip_space)"""
    prog = ctx.prog()
    n = 0
    for f in prog.fns.values():
        if f.crate != "sonic_rs" or f.self_adt != "sonic_rs::parser::Parser":
            continue
        # tests on 93 / 125 with the origin of the tested byte
        tests = []
        for b, t in f.terms():
            if t["k"] == "switch" and t.get("dty") == "u8":
                vals = {int(v): tg for v, tg in t["targets"]}
                for c in (93, 125):
                    if c in vals:
                        p = op_place(t["discr"])
                        src_call = None
                        if p is not None:
                            d = f.single_def(p[0])
                            if d and d[0] == "call":
                                src_call = d[2]
                            elif d and d[0] == "stmt":
                                sl, leaves = backward_slice(f, [p[0]])
                                cs = [lf[2] for lf in leaves if lf[0] == "call"]
                                src_call = cs[0] if len(cs) == 1 else None
                        tests.append((b, c, vals[c], t["otherwise"], src_call, t))
        # the same test written as `read.peek() == Some(b']')`
        for b, t in f.calls():
            if not callee_is(t, "eq", "ne") or "Option<u8>" not in " ".join((t.get("rgargs") or []) + (t.get("gargs") or [])):
                continue
            cval, src_call = None, None
            for a in t["args"][:2]:
                l = op_local(a)
                sl, leaves = backward_slice(f, [l]) if l is not None else (set(), [])
                for lf in leaves:
                    if lf[0] == "const" and isinstance(lf[1], dict) and lf[1].get("bytes") and "Option<u8>" in lf[1].get("ty", ""):
                        cval = bytes.fromhex(lf[1]["bytes"])[-1]
                cs = [lf[2] for lf in leaves if lf[0] == "call"]
                if len(cs) == 1 and cval is None or (len(cs) == 1 and not any(lf[0] == "const" for lf in leaves)):
                    src_call = cs[0]
                if isinstance(a, dict) and a.get("bytes") and "Option<u8>" in a.get("ty", ""):
                    cval = bytes.fromhex(a["bytes"])[-1]
            e = bool_switch_edges(f, t["dest"][0])
            if cval in (93, 125) and e:
                hit, miss = (e[0], e[1]) if callee_is(t, "eq") else (e[1], e[0])
                tests.append((b, cval, hit, miss, src_call, t))
        if not tests:
            continue
        elem_calls = {b for b, t in f.calls() if t["callee"].rsplit("::", 1)[-1] in ("skip_one", "skip_one_unchecked", "parse_value", "parse_value2", "parse_array", "parse_array2", "parse_object", "parse_object2", "parse_number_inplace", "parse_number_visit", "parse_string_inplace", "parse_string_owned", "skip_string", "parse_literal_visit", "get_many_rec", "get_by_schema_rec")}
        for b, c, hit, miss, sc, t in tests:
            if sc is None or not callee_is(sc, *RAW_PEEK):
                if sc is not None and callee_is(sc, *WS_SRC):
                    n += 1
                continue
            n += 1
            # from the miss edge, before any element parse, the same constant must be tested on a whitespace-skipped byte
            region = f.reachable_from(miss, avoid=elem_calls)
            again = [x for x in tests if x[0] in region and x[1] == c and x[4] is not None and callee_is(x[4], *WS_SRC)]
            ctx.ob("R02.7", f"{short(f.id)}:{chr(c)}-after-space", bool(again), f.loc(t["ln"]),
                   f"a raw-peek fast path for {chr(c)!r} is followed by the whitespace-skipping test before the first element" if again else
                   f"{chr(c)!r} is only tested on a raw peeked byte before the first element: an empty container written with whitespace inside (`[ ]`) is not recognised")
    ctx.ob("R02.7", "closing-bracket-tests", n >= 10, "", f"{n} closing-bracket tests on whitespace-skipped or raw-peeked bytes analysed (floor 10)", nontrivial=False)


READERS = ("skip_space", "skip_space_peek", "Reader::next", "Reader::peek", "next", "peek")
PLUMBING = ("eat", "backward", "index", "error", "branch", "from_residual", "into", "from", "fix_position", "eq", "ne", "deref", "as_ref", "is_none", "is_some", "unwrap", "new_display", "new_debug", "panic", "panic_fmt", "from_str", "syntax", "clone", "drop")


def r02_11(ctx):
    """no trailing comma: after a ',' separator the next byte read is never accepted as the closing bracket.  For every
    function with a byte dispatch that has an arm for ',', the blocks reached from that arm before anything else is parsed
    are searched for the next dispatch on a read byte; it may not have an accepting arm for ']' or '}'"""
    prog = ctx.prog()
    n = 0
    seen = collections.Counter()
    for f in prog.fns.values():
        if f.crate != "sonic_rs":
            continue
        sw = [(b, t, [x for v, x in t["targets"] if int(v) == 44][0]) for b, t in f.terms() if t["k"] == "switch" and t.get("dty") == "u8" and any(int(v) == 44 for v, _ in t["targets"]) and any(int(v) in (93, 125) for v, _ in t["targets"])]
        # the same test written as a comparison of the Option<u8> with Some(b','): the edge on which it holds
        for b, t in f.calls():
            if not callee_is(t, "eq", "ne") or "Option<u8>" not in " ".join((t.get("rgargs") or []) + (t.get("gargs") or [])):
                continue
            comma = False
            for a in t["args"][:2]:
                l = op_local(a)
                cands = [a] + ([lf[1] for lf in backward_slice(f, [l])[1] if lf[0] == "const"] if l is not None else [])
                for c in cands:
                    bs = c.get("bytes") if isinstance(c, dict) else None
                    if bs and "Option<u8>" in c.get("ty", "") and bytes.fromhex(bs)[-1:] == b",":
                        comma = True
            if not comma:
                continue
            d = t["dest"][0]
            holders = {d}
            for bb, ii, ss in f.assigns():
                if not ss["lhs"][1] and ss["rv"]["k"] == "use" and op_local(ss["rv"]["op"]) in holders:
                    holders.add(ss["lhs"][0])
            # a holder may also be set to the constant false on the short-circuit edge; true still implies the comparison held
            for bb, tt in f.terms():
                if tt["k"] == "switch" and tt.get("dty") == "bool":
                    dl = op_local(tt["discr"])
                    cur = dl
                    for _ in range(4):
                        if cur in holders:
                            break
                        dd = f.single_def(cur) if cur is not None else None
                        if dd and dd[0] == "stmt" and dd[3]["rv"]["k"] == "use" and op_local(dd[3]["rv"]["op"]) is not None:
                            cur = op_local(dd[3]["rv"]["op"])
                        else:
                            break
                    if cur in holders:
                        defs_ok = all((dd[0] == "stmt" and (op_local(dd[3]["rv"].get("op", {"k": "const"})) in holders or (dd[3]["rv"]["k"] == "use" and op_int(dd[3]["rv"]["op"]) == 0))) for dd in f.defs.get(cur, []))
                        if defs_ok:
                            edges = dict(switch_edges(f, bb))
                            tt_true = edges.get(1, edges.get(None))
                            ff = edges.get(0, edges.get(None))
                            T = tt_true if callee_is(t, "eq") else ff
                            if T is not None:
                                sw.append((bb, tt, T))
        if not sw:
            continue
        own = prog.fns.get(f.parent_fn, f) if f.parent_fn else f
        if own.name.endswith("_unchecked") or own.name in ("get_from_array", "get_from_object") or own.name in SINK_NAMES:
            continue  # the non-validating family promises nothing about malformed input
        kinds = {b: k for b, k, _ in return_kinds(f)}
        def err_only(x):
            reach = f.reachable_from(x) | {x}
            ks = {kinds[b] for b in reach if b in kinds}
            # an arm that only constructs an error and returns
            return bool(ks) and ks <= {"Err", "call"} and any(s["rv"]["k"] == "agg" and s["rv"].get("adt", "").endswith("ErrorCode") for b in reach for s in f.d["blocks"][b]["stmts"] if s["k"] == "assign")
        for b0, t0, T in sw:
            n += 1
            # forward search: stop at value consumers
            seenb = set()
            work = [(T, 0)]
            bad = []
            while work:
                b, reads = work.pop()
                if (b, min(reads, 2)) in seenb or f.d["blocks"][b].get("cleanup"):
                    continue
                seenb.add((b, min(reads, 2)))
                t = f.d["blocks"][b]["term"]
                if t["k"] == "call":
                    nm = t["callee"].rsplit("::", 1)[-1]
                    if callee_is(t, *READERS) and ("Parser" in t["callee"] or "Reader" in t["callee"] or "reader::" in t["callee"]):
                        reads += 1
                    elif nm not in PLUMBING and ("Parser" in t["callee"] or "Deserializer" in t["callee"] or "visit" in nm or "deserialize" in nm):
                        continue  # a value / key is parsed: it rejects a bracket by itself
                if t["k"] == "switch" and t.get("dty") == "u8" and reads >= 1:
                    for v, x in t["targets"]:
                        if int(v) in (93, 125) and not err_only(x):
                            bad.append((b, t, int(v)))
                    continue
                if reads > 1:
                    continue
                for x in f.succs(b):
                    work.append((x, reads))
            owner = prog.fns.get(f.parent_fn, f) if f.parent_fn else f
            seen[short(owner.id)] += 1
            ctx.ob("R02.11", f"no-trailing-comma:{short(owner.id)}#{seen[short(owner.id)]}", not bad, f.loc(bad[0][1]["ln"] if bad else t0["ln"]),
                   "after a ',' the next byte read is not accepted as a closing bracket" if not bad else
                   f"after a ',' the next byte read is accepted as {chr(bad[0][2])!r}: a trailing comma ({'[1,]' if bad[0][2] == 93 else chr(123) + chr(34) + 'a' + chr(34) + ':1,' + chr(125)}) is taken for well-formed")
    ctx.floor("R02.11", "separator dispatches (byte switch with ',' and a closing bracket)", n, 8)


def r02_12(ctx):
    """no leading zeros, for negative numbers too: in the validating number skipper the byte that the leading-zero test
    compares with b'0' is, on the '-' edge, the digit read after the sign (skip_single_digit), not the sign itself"""
    prog = ctx.prog()
    fn = prog.find("Parser::do_skip_number")
    zero_tests = []
    for b, i, s in fn.assigns():
        rv = s["rv"]
        if rv["k"] == "binop" and rv["op"] == "Eq" and 48 in (op_int(rv["a"]), op_int(rv["b"])):
            o = rv["a"] if op_int(rv["b"]) == 48 else rv["b"]
            zero_tests.append((b, s, o))
    ctx.floor("R02.12", "comparisons with b'0' in do_skip_number", len(zero_tests), 1)
    minus = []
    for b, i, s in fn.assigns():
        rv = s["rv"]
        if rv["k"] == "binop" and rv["op"] == "Eq" and 45 in (op_int(rv["a"]), op_int(rv["b"])):
            e = bool_switch_edges(fn, s["lhs"][0])
            if e:
                minus.append(e[0])
    for b, t in fn.terms():
        if t["k"] == "switch" and t.get("dty") == "u8":
            minus += [x for v, x in t["targets"] if int(v) == 45]
    digit_calls = [(b, t) for b, t in fn.calls() if callee_is(t, "skip_single_digit")]
    ok_any = False
    for b, s, o in zero_tests:
        l = op_local(o)
        root = l
        for _ in range(5):
            if root is not None and 1 <= root <= fn.argc:
                break   # the (mutable) parameter itself
            d = fn.single_def(root) if root is not None else None
            if d and d[0] == "stmt" and d[3]["rv"]["k"] == "use" and op_local(d[3]["rv"]["op"]) is not None:
                root = op_local(d[3]["rv"]["op"])
            else:
                break
        defs = fn.defs.get(root, []) if root is not None else []
        from_digit = False
        for d in defs:
            if d[0] == "stmt" and d[3]["rv"]["k"] == "use":
                sl, leaves = backward_slice(fn, [op_local(d[3]["rv"]["op"])]) if op_local(d[3]["rv"]["op"]) is not None else (set(), [])
                if any(lf[0] == "call" and callee_is(lf[2], "skip_single_digit") for lf in leaves) and any(d[1] == m or fn.dominates(m, d[1]) for m in minus):
                    from_digit = True
            if d[0] == "call" and callee_is(d[2], "skip_single_digit"):
                from_digit = True
        if from_digit:
            ok_any = True
    ctx.ob("R02.12", "leading-zero-test-sees-the-digit-after-the-sign", ok_any and bool(minus) and bool(digit_calls), fn.loc(zero_tests[0][1].get("ln") if zero_tests else None),
           "on the '-' edge the byte tested for a leading zero is the digit returned by skip_single_digit" if ok_any else
           "the byte tested for a leading zero is never replaced by the digit after the sign: -01, -007 are skipped as numbers (raw numbers and lazy values then hold invalid JSON)")


def r02_9(ctx):
    c07.r07_4(ctx)
    # relabel
    for o in ctx.obligations:
        if o["rule"] == "R07.4":
            o["rule"] = "R02.9"


def r02_13(ctx):
    """the string scanners never move the reader backwards: where the position is set absolutely (set_index) from a snapshot
    of index(), nothing of variable length was consumed between the snapshot and the set (an escape that straddles the end
    of the block has already taken the reader past it; resetting to `block + LANES` re-reads the escaped byte as text)"""
    prog = ctx.prog()
    n = 0
    ADV = ("eat", "next", "next_n", "skip_escaped_chars", "parse_escaped_char", "parse_escaped_utf8", "skip_string", "skip_one", "skip_number", "backward")
    for name in ("Parser::skip_string", "Parser::parse_string_raw", "Parser::parse_string_escaped", "Parser::skip_string_unchecked"):
        f = prog.find(name, required=False)
        if f is None:
            continue
        sets = [(b, t) for b, t in f.calls() if callee_is(t, "Reader::set_index", "set_index")]
        snaps = [(b, t) for b, t in f.calls() if callee_is(t, "Reader::index") or (callee_is(t, "index") and "Reader" in (t.get("trait") or ""))]
        advs = [(b, t) for b, t in f.calls() if callee_is(t, *ADV) and ("Reader" in (t.get("trait") or t["callee"]) or "Parser" in t["callee"])]
        for k, (sb, st) in enumerate(sets, 1):
            n += 1
            al = op_local(st["args"][1]) if len(st["args"]) > 1 else None
            sl, leaves = backward_slice(f, [al]) if al is not None else (set(), [])
            src = [lf for lf in leaves if lf[0] == "call" and lf[2] in [t for b, t in snaps]]
            bad = []
            for lf in src:
                nb = lf[1]
                between = (f.reachable_from(nb) & {b for b in range(len(f.blocks)) if sb in f.reachable_from(b)}) - {nb, sb}
                for ab, at in advs:
                    if ab in between:
                        bad.append((at["callee"].rsplit("::", 1)[-1], at["ln"]))
            ok = not bad
            ctx.ob("R02.13", f"{short(f.id)}:set_index#{k}", ok, f.loc(st["ln"]),
                   "the absolute position is set from a snapshot with nothing consumed in between" if ok else
                   f"the reader is set to a position computed from an earlier index() although {sorted({x[0] for x in bad})} consumed input in between: it can be moved back into the middle of an escape")
    ctx.ob("R02.13", "absolute-sets-seen", True, "", f"{n} set_index call(s) in the string scanners", nontrivial=False)


def r02_s(ctx):
    """clauses of the \\u / surrogate decoding and of the raw-control-byte rejection that the accept-exactly property needs
    (shared with C09)"""
    from . import c09
    # r09_2: the hex digit planes - an invalid digit of a \\u escape is rejected only if its table entry carries the marker
    for fn in (c09.r09_2, c09.r09_3, c09.r09_4, c09.r09_6, c09.r09_8):
        ctx.include(fn, 'R02.S')
    from . import c14
    ctx.include(c14.r14_7, 'R02.S')  # the validating string skipper interprets every escape
    from . import c07
    ctx.include(c07.r07_8, 'R02.S')  # the float fast path assembles normal doubles only: outside its exponent range it returns inf/NaN bits that the finiteness test never sees (a number beyond f64 is accepted)


RULES = [("R02.1", r02_1), ("R02.2", r02_2), ("R02.3", r02_3), ("R02.3b", r02_3b), ("R02.4", r02_4), ("R02.5", r02_5), ("R02.6", r02_6), ("R02.7", r02_7), ("R02.8", r02_8), ("R02.9", r02_9), ("R02.10", r02_10), ("R02.11", r02_11), ("R02.12", r02_12), ("R02.13", r02_13), ("R02.S", r02_s)]

"""C05 — serialization emits well-formed JSON denoting the value: structural clauses."""
import collections
from ..facts import callee_is, op_local, op_place, op_int, op_bytes, norm_path, FactError
from ..analysis import (reachable_cp, backward_slice, forward_derived, result_edges, bool_switch_edges, discr_switches_on,
                        switch_edges, result_fate, affine_of, control_deps, return_kinds)
from .c01 import short

EXPLANATION = (
    "Decides structural necessary conditions of C05 on the current tree: (R05.1) the three escape tables "
    "equal the RFC 8259 §7 specification for all 256 bytes and every escape decodes back to its byte with "
    "the crate's own decoder tables; the vector escape mask uses exactly <=0x1f, backslash and quote; "
    "(R05.2) the window reserved by write_string_fast and asserted by format_string is the same affine "
    "form a*len+b and covers the worst case of the writer (a >= longest escape, b >= 2 and b >= 1-E+max("
    "LANES,8)), and the count committed by flush_len is format_string's return value; (R05.3) no io/"
    "serialization Result is dropped or swallowed in any serializer/formatter/writer body and no short "
    "io::Write::write count is ignored; (R05.4) float writers are only reached on finite classes; (R05.7) "
    "a WriteExt impl that forwards its window to an inner writer reached through a buffering accessor "
    "flushes first; (R05.9) quote bytes in write_string_fast/format_string are written only under "
    "need_quote. Does not decide that arbitrary Serialize impls drive the compound state machine "
    "correctly, nor full well-formedness of the output."
)
ASSUMPTIONS = [
    "rustc const evaluation gives the table bytes the compiled code uses",
    "RFC 8259 §7 escape set as encoded in the oracle of this rule file",
    "intrinsic/trait method names of sonic_simd (le, eq, splat) mean what their scalar definitions say (checked under C17)",
]

SHORT_ESC = {0x22: b'\\"', 0x5C: b"\\\\", 0x08: b"\\b", 0x0C: b"\\f", 0x0A: b"\\n", 0x0D: b"\\r", 0x09: b"\\t"}


def quote_tab(prog):
    c = prog.const("string::QUOTE_TAB")
    raw = bytes.fromhex(c["bytes"])
    el = c.get("elem")
    if not el or len(el["offsets"]) != 2:
        raise FactError("QUOTE_TAB: element layout not available")
    size = int(el["size"])
    offs = [int(x) for x in el["offsets"]]
    sizes = [int(x) for x in el["sizes"]]
    cnt_i = 0 if sizes[0] == 1 else 1
    out = []
    for i in range(len(raw) // size):
        e = raw[i * size:(i + 1) * size]
        n = e[offs[cnt_i]]
        bs = e[offs[1 - cnt_i]:offs[1 - cnt_i] + sizes[1 - cnt_i]]
        out.append((n, bs))
    return out


def decode_escape(bs, escaped_tab, hexval):
    """decode one escape sequence with the crate's reader tables; returns the byte or None"""
    if len(bs) < 2 or bs[0] != 0x5C:
        return None
    if bs[1] == ord("u"):
        if len(bs) != 6:
            return None
        v = 0
        for ch in bs[2:6]:
            h = hexval(ch)
            if h is None:
                return None
            v = v * 16 + h
        return v
    if len(bs) != 2:
        return None
    d = escaped_tab[bs[1]]
    return d if d != 0 else None


def hex_oracle(prog):
    """hex digit value according to the crate's DIGIT_TO_VAL32 plane 0 (validated under C09)"""
    c = prog.const("unicode::DIGIT_TO_VAL32")
    raw = bytes.fromhex(c["bytes"])
    words = [int.from_bytes(raw[i:i + 4], "little") for i in range(0, len(raw), 4)]

    def hv(ch):
        w = words[ch]
        return w if w < 16 else None
    return hv


def r05_1(ctx):
    prog = ctx.prog()
    qt = quote_tab(prog)
    ctx.ob("R05.1", "QUOTE_TAB:entries", len(qt) == 256, "src/util/string.rs", f"QUOTE_TAB has {len(qt)} entries", nontrivial=False)
    esc = prog.const_bytes("string::ESCAPED_TAB")
    need = prog.const_bytes("string::NEED_ESCAPED")
    hv = hex_oracle(prog)
    bad = []
    for c, (n, bs) in enumerate(qt[:256]):
        must = c < 0x20 or c in (0x22, 0x5C)
        ok = True
        why = ""
        if must != (n > 0):
            ok, why = False, f"byte {c:#04x}: escape length {n} but RFC 8259 {'requires' if must else 'forbids'} escaping"
        elif n > 0:
            seq = bs[:n]
            dec = decode_escape(seq, esc, hv)
            if dec != c:
                ok, why = False, f"byte {c:#04x}: escape {seq!r} does not decode to the byte (decodes to {dec})"
            elif any(x != 0 for x in bs[n:]):
                ok, why = False, f"byte {c:#04x}: bytes after the escape are not zero"
            elif seq[1:2] != b"u" and c in SHORT_ESC and seq != SHORT_ESC[c]:
                ok, why = False, f"byte {c:#04x}: short escape {seq!r} is not the RFC one"
        if (need[c] != 0) != (n > 0):
            ok, why = False, f"byte {c:#04x}: NEED_ESCAPED={need[c]} disagrees with QUOTE_TAB length {n}"
        ctx.ob("R05.1", f"byte:{c:#04x}", ok, "src/util/string.rs", why or (f"escaped as {bs[:n]!r}, decodes back" if n else "written verbatim"), nontrivial=(n > 0))
    # the vector mask: constants splatted in escaped_mask
    ems = [f for f in prog.fns.values() if f.name == "escaped_mask" and f.crate == "sonic_rs"]
    if not ems:
        ctx.fail_closed("R05.1", "format_string::escaped_mask")
        return
    for em in ems:
        consts = {}
        calls = []
        for b, t in em.calls():
            nm = t["callee"].rsplit("::", 1)[-1]
            if nm == "splat":
                v = op_int(t["args"][0])
                consts[t["dest"][0]] = v
            if nm in ("le", "eq", "lt", "gt", "ge", "ne"):
                calls.append((nm, t))
        pairs = set()
        for nm, t in calls:
            # second argument is a reference to a splatted vector
            l = op_local(t["args"][1])
            sl, _ = backward_slice(em, [l]) if l is not None else (set(), [])
            vals = [consts[x] for x in sl if x in consts]
            for v in vals:
                pairs.add((nm, v))
        want = {("le", 0x1F), ("eq", 0x5C), ("eq", 0x22)}
        ctx.ob("R05.1", "escaped_mask:constants", pairs == want, em.loc(), f"vector escape mask compares {sorted(pairs)}; specification {sorted(want)}")


def _longest_escape(prog):
    return max(n for n, _ in quote_tab(prog))


def r05_2(ctx):
    prog = ctx.prog()
    wsf = [f for f in prog.fns.values() if f.name == "write_string_fast" and f.crate == "sonic_rs"]
    if not wsf:
        ctx.fail_closed("R05.2", "Formatter::write_string_fast")
        return
    fs = prog.find("util::string::format_string")
    E = _longest_escape(prog)
    lanes = prog.const_int("format_string::LANES")
    # affine form asserted in format_string: Ge(len(dst), a*len(value)+b)
    asserted = None
    for b, i, s in fs.assigns():
        rv = s["rv"]
        if rv["k"] == "binop" and rv["op"] in ("Ge", "Le", "Gt", "Lt"):
            xa, xb = affine_of(fs, rv["a"]), affine_of(fs, rv["b"])
            if xa and xb and xa[2] is not None and xb[2] is not None and callee_is(xa[2], "len") and callee_is(xb[2], "len"):
                big, small = (xa, xb) if rv["op"] in ("Ge", "Gt") else (xb, xa)
                if big[0] == 1 and big[1] == 0 and small[0] > 1:
                    asserted = (small[0], small[1] + (1 if rv["op"] in ("Gt", "Lt") else 0))
    ctx.ob("R05.2", "format_string:assert-form", asserted is not None, fs.loc(), f"format_string asserts dst.len() >= {asserted[0]}*len+{asserted[1]}" if asserted else "format_string has no assertion relating dst.len() to value.len()")
    for f in wsf:
        res = [(b, t) for b, t in f.calls() if callee_is(t, "WriteExt::reserve_with", "reserve_with")]
        fmt = [(b, t) for b, t in f.calls() if callee_is(t, "format_string")]
        flu = [(b, t) for b, t in f.calls() if callee_is(t, "WriteExt::flush_len", "flush_len")]
        if not (res and fmt and flu):
            ctx.ob("R05.2", f"{short(f.id)}:protocol", False, f.loc(), "reserve_with -> format_string -> flush_len protocol not found")
            continue
        af = affine_of(f, res[0][1]["args"][1])
        ok = af is not None and af[2] is not None and callee_is(af[2], "len")
        if not ok:
            ctx.ob("R05.2", f"{short(f.id)}:reserve-form", False, f.loc(res[0][1]["ln"]), "cannot evaluate the reserved size as a*len+b (fail closed)")
            continue
        a, b0 = af[0], af[1]
        ctx.ob("R05.2", f"{short(f.id)}:reserve==assert", asserted == (a, b0), f.loc(res[0][1]["ln"]), f"reserved {a}*len+{b0}; asserted {asserted}")
        ctx.ob("R05.2", f"{short(f.id)}:a>=E", a >= E, f.loc(res[0][1]["ln"]), f"per-byte factor {a} >= longest escape {E}")
        need_b = max(2, 1 - E + max(lanes, 8))
        ctx.ob("R05.2", f"{short(f.id)}:b>=slack", b0 >= need_b, f.loc(res[0][1]["ln"]), f"constant slack {b0} >= {need_b} (two quotes; a speculative {max(lanes, 8)}-byte store after the last full escape)")
        # committed count is the return value of format_string
        cl = op_local(flu[0][1]["args"][1])
        sl, _ = backward_slice(f, [cl]) if cl is not None else (set(), [])
        okc = fmt[0][1]["dest"][0] in sl | {cl}
        ctx.ob("R05.2", f"{short(f.id)}:commit==written", okc, f.loc(flu[0][1]["ln"]), "flush_len commits exactly the count returned by format_string" if okc else "flush_len commits a count that is not format_string's return value")
        # window passed to format_string is the one returned by reserve_with
        wl = op_local(fmt[0][1]["args"][1])
        sl, leaves = backward_slice(f, [wl]) if wl is not None else (set(), [])
        okw = any(lf[0] == "call" and callee_is(lf[2], "reserve_with") for lf in leaves) or res[0][1]["dest"][0] in sl
        ctx.ob("R05.2", f"{short(f.id)}:window", okw, f.loc(fmt[0][1]["ln"]), "format_string writes into the window returned by reserve_with")


SER_TRAIT_PREFIXES = ("serde_core::ser::", "serde::ser::")


def serializer_bodies(prog):
    out = []
    for fn in prog.fns.values():
        if fn.crate != "sonic_rs":
            continue
        owner = fn
        if fn.parent_fn and fn.parent_fn in prog.fns:
            owner = prog.fns[fn.parent_fn]
        tr = owner.trait or owner.trait_default or ""
        role = None
        if tr.startswith(SER_TRAIT_PREFIXES):
            role = "serde-ser"
        elif tr in ("sonic_rs::format::Formatter", "sonic_rs::writer::WriteExt", "std::io::Write"):
            role = tr.rsplit("::", 1)[-1]
        elif owner.file.endswith("serde/ser.rs") and owner.kind == "Fn":
            role = "to_*"
        if role:
            out.append((fn, role))
    return out


def r05_3(ctx):
    prog = ctx.prog()
    bodies = serializer_bodies(prog)
    ctx.floor("R05.3", "serializer/formatter/writer bodies", len(bodies), 270)
    ncalls = 0
    bad = 0
    for fn, role in bodies:
        for b, t in fn.calls():
            dty = t.get("dty", "")
            if "Result<" not in dty:
                continue
            if t.get("mac") and "format_args" in t.get("mac", ""):
                continue
            ncalls += 1
            fate = result_fate(fn, b, t)
            if fate == "dropped" or fate.startswith("swallowed"):
                bad += 1
                ctx.ob("R05.3", f"{short(fn.id)}:{t['callee'].rsplit('::', 1)[-1]}", False, fn.loc(t["ln"]),
                       f"Result of {t['callee']} is {fate} in a {role} body: a writer error would be lost")
            # short writes: io::Write::write returns the count written; it must be used
            if callee_is(t, "Write::write") and t["callee"].rsplit("::", 1)[-1] == "write" and "usize" in dty:
                okw = _count_used(fn, b, t) or (fn.name == "write" and (fn.trait or "") == "std::io::Write")
                ctx.ob("R05.3", f"short-write:{short(fn.id)}", okw, fn.loc(t["ln"]),
                       "io::Write::write may write fewer bytes than asked: the count is " + ("returned to the caller / used" if okw else "discarded, so the rest of the buffer is silently lost (use write_all)"))
    ctx.ob("R05.3", "all-results-propagated", bad == 0, "", f"{ncalls} Result-returning calls in {len(bodies)} serializer bodies: {bad} dropped or swallowed")


def _count_used(fn, b, t):
    """is the Ok(usize) payload of a write() call used (returned or read)?"""
    d = t["dest"]
    if d[1] or d[0] == 0:
        return True
    # follow through Try::branch: the Continue payload must be used
    for ub, ui, us in fn.uses_of(d[0]):
        if ui == "term" and us["k"] in ("call", "tailcall"):
            nm = us["callee"].rsplit("::", 1)[-1]
            if nm == "branch":
                br = us["dest"][0]
                used = False
                for vb, vi, vs in fn.uses_of(br):
                    if vi != "term" and vs["k"] == "assign":
                        for p in [op_place(o) for o in ([vs["rv"].get("op")] if isinstance(vs["rv"].get("op"), dict) else [])]:
                            if p and any(isinstance(e, list) and e[0] == "as" and e[1] == "Continue" for e in p[1]):
                                # is that local used afterwards?
                                der = forward_derived(fn, {vs["lhs"][0]})
                                for l2 in der:
                                    for x in fn.uses_of(l2):
                                        if x[1] == "term":
                                            if x[2]["k"] != "drop":
                                                used = True
                                        elif x[2]["k"] == "assign" and not x[2]["lhs"][1] and x[2]["lhs"][0] in der and x[2]["rv"]["k"] in ("use", "cast"):
                                            continue
                                        else:
                                            used = True
                return used
            return True
        if ui != "term" and us["k"] == "assign" and us["rv"]["k"] in ("use",):
            return True
    return False


def r05_4(ctx):
    prog = ctx.prog()
    sites = []
    for fn in prog.fns.values():
        if fn.crate != "sonic_rs":
            continue
        for b, t in fn.calls():
            nm = t["callee"].rsplit("::", 1)[-1]
            if nm in ("write_f32", "write_f64") and "Formatter" in (t.get("trait") or t["callee"]):
                sites.append((fn, b, t))
    ctx.floor("R05.4", "float writer call sites", len(sites), 4)
    expanded = []
    for fn, b, t in sites:
        # a writer call inside a closure (`self.quoted(|f, w| f.write_f64(w, value))`) is guarded where the closure is made
        if fn.parent_fn and fn.parent_fn in prog.fns:
            par = prog.fns[fn.parent_fn]
            made = [pb for pb, pi, ps in par.assigns() if ps["rv"]["k"] == "agg" and ps["rv"].get("ak") == "closure" and ps["rv"].get("def") == fn.id]
            if made:
                expanded += [(par, pb, t) for pb in made]
                continue
        expanded.append((fn, b, t))
    for fn, b, t in expanded:
        if fn.name in ("write_f32", "write_f64"):
            ctx.ob("R05.4", f"{short(fn.id)}:forward", True, fn.loc(t["ln"]), "formatter forwarding to another formatter's float writer", nontrivial=False)
            continue
        ok = False
        how = "no finiteness test dominates the float writer: NaN/inf would be formatted as a non-JSON token"
        # is_finite(value) true edge
        for gb, gt in fn.calls():
            nm = gt["callee"].rsplit("::", 1)[-1]
            if nm == "is_finite" and fn.dominates(gb, b):
                e = bool_switch_edges(fn, gt["dest"][0])
                if e and b in fn.reachable_from(e[0]) and b not in fn.reachable_from(e[1], avoid={e[0]}):
                    ok, how = True, "reached only on the true edge of is_finite()"
            if nm == "is_nan" or nm == "is_infinite":
                pass
            if nm == "classify" and fn.dominates(gb, b):
                for sb, st in discr_switches_on(fn, gt["dest"][0]):
                    edges = switch_edges(fn, sb)
                    bad_t = {tgt for v, tgt in edges if v in (0, 1)}  # Nan, Infinite
                    good_t = {tgt for v, tgt in edges if v not in (0, 1)}
                    if len(bad_t) >= 1 and all(b not in fn.reachable_from(x, avoid=good_t - bad_t) for x in bad_t) and any(b in fn.reachable_from(x) for x in good_t) and not (bad_t & good_t):
                        # both Nan and Infinite must be explicit arms
                        vals = {v for v, _ in edges}
                        if 0 in vals and 1 in vals:
                            ok, how = True, "reached only on the finite arms of a match on classify()"
        ctx.ob("R05.4", f"{short(fn.id)}:{t['callee'].rsplit('::', 1)[-1]}", ok, fn.loc(t["ln"]), how)


def r05_7(ctx):
    prog = ctx.prog()
    impls = [im for im in prog.impls if im["trait"] == "sonic_rs::writer::WriteExt"]
    ctx.floor("R05.7", "impl WriteExt", len(impls), 7)
    for im in impls:
        fn = prog.fns.get(im["methods"].get("reserve_with", ""))
        if fn is None:
            ctx.ob("R05.7", f"{im['self_ty']}:reserve_with", False, "", "reserve_with body not found (fail closed)")
            continue
        fwd = [(b, t) for b, t in fn.calls() if callee_is(t, "reserve_with")]
        if not fwd:
            ctx.ob("R05.7", f"{im['self_ty']}:own-window", True, fn.loc(), "hands out a window of its own storage (no forwarding)")
            continue
        for b, t in fwd:
            recv = op_local(t["args"][0])
            sl, leaves = backward_slice(fn, [recv]) if recv is not None else (set(), [])
            via_calls = [lf[2] for lf in leaves if lf[0] == "call"]
            fields = [lf for lf in leaves if lf[0] == "place" and any(isinstance(e, list) and e[0] == "." for e in lf[1][1])
                      and fn.locals[lf[1][0]].get("adt") in prog.adts]
            if not via_calls:
                # plain deref of self, or an own field: same byte stream by construction iff the type's
                # io::Write is the std forwarding impl (&mut W, Box<W>) or the field is this type's own buffer
                ok = True
                why = "forwards to `*self` / an own field by dereference: io::Write of this type writes to the same sink"
                if fields:
                    why = "reserves in its own buffer field; flush_len must push that buffer to the inner writer"
                    fl = prog.fns.get(im["methods"].get("flush_len", ""))
                    wa = [(bb, tt) for bb, tt in fl.calls() if callee_is(tt, "write_all")] if fl else []
                    ok = bool(wa)
                    if not ok:
                        why = "reserves in an own buffer field but flush_len never writes that buffer to the inner writer with write_all"
                ctx.ob("R05.7", f"{im['self_ty']}:forward", ok, fn.loc(t["ln"]), why)
                continue
            # the inner writer is reached through an accessor call (e.g. BufWriter::get_mut): bytes may be
            # pending in the outer object; they must be flushed first and the flush error propagated
            flushed = False
            for gb, gt in fn.calls():
                if gt["callee"].rsplit("::", 1)[-1] == "flush" and fn.dominates(gb, b) and gb != b:
                    fate = result_fate(fn, gb, gt)
                    if fate == "propagated":
                        flushed = True
            ctx.ob("R05.7", f"{im['self_ty']}:forward", flushed, fn.loc(t["ln"]),
                   f"inner writer reached through {[short(c['callee']) for c in via_calls]}: " + ("pending bytes are flushed (error propagated) before the inner window is borrowed" if flushed else "the outer writer may hold pending bytes that the inner window overtakes (output reordered)"))


def r05_9(ctx):
    """quote bytes are written only under need_quote"""
    prog = ctx.prog()
    # by role: format_string(value, dst, quote: bool) and every function that forwards its own bool parameter to it
    fs = prog.find("util::string::format_string")
    def quote_param(f):
        bs = [i for i in range(1, f.argc + 1) if f.locals[i]["ty"] == "bool"]
        return bs[0] if len(bs) == 1 else None
    fns = [fs] if quote_param(fs) else []
    for f in prog.fns.values():
        if f.crate == "sonic_rs" and f.kind != "Closure" and f.id != fs.id and quote_param(f) is not None:
            for b, t in f.calls():
                if t.get("callee") == fs.id and op_local(t["args"][-1]) is not None and f.src(op_local(t["args"][-1])) == ("param", quote_param(f)):
                    fns.append(f)
    ctx.floor("R05.9", "functions with a need_quote parameter", len(fns), 2)
    for f in fns:
        nq = quote_param(f)
        nq_l = forward_derived(f, {nq})
        deps = control_deps(f)
        # switches on need_quote
        sw = {b for b, t in f.terms() if t["k"] == "switch" and op_local(t["discr"]) in nq_l}
        sites = []
        for b, i, s in f.assigns():
            rv = s["rv"]
            if rv["k"] == "use" and rv["op"]["k"] == "const" and op_int(rv["op"]) == 0x22 and rv["op"]["ty"] == "u8" and s["lhs"][1] and "*" in s["lhs"][1]:
                sites.append((b, s["ln"], "store of b'\"'"))
        for b, t in f.calls():
            for a in t["args"]:
                bs = op_bytes(a)
                if bs is None:
                    l = op_local(a)
                    if l is not None:
                        s = f.src(l)
                        if s[0] == "const":
                            bs = op_bytes(s[1])
                if bs is not None and b'"' in bs and t["callee"].rsplit("::", 1)[-1] in ("write_all", "write", "extend_from_slice", "push"):
                    sites.append((b, t["ln"], f"{t['callee'].rsplit('::', 1)[-1]}({bs!r})"))
                elif op_int(a) == 0x22 and a.get("ty") == "u8" and (t["callee"].rsplit("::", 1)[-1] in ("write", "push", "write_volatile", "write_unaligned") or (t["callee"] in prog.fns and prog.fns[t["callee"]].crate == "sonic_rs")):
                    sites.append((b, t["ln"], f"{t['callee'].rsplit('::', 1)[-1]}(b'\"')"))
        if f.name == "format_string":
            ctx.floor("R05.9", "quote stores in format_string", len(sites), 2)
        for b, ln, what in sites:
            ok = any(a in sw for a, _ in deps.get(b, ()))
            ctx.ob("R05.9", f"{short(f.id)}:L{len([x for x in sites if x[1] <= ln])}", ok, f.loc(ln), f"{what} is " + ("control dependent on need_quote" if ok else "not guarded by need_quote: callers that write their own quotes (collect_str) get stray quote characters"))
        # need_quote forwarded unchanged to callees that take it
        for b, t in f.calls():
            if callee_is(t, "format_string", "write_string_fast"):
                last = t["args"][-1]
                okf = op_local(last) in nq_l
                ctx.ob("R05.9", f"{short(f.id)}:forwards-need_quote", okf, f.loc(t["ln"]), "need_quote is forwarded unchanged" if okf else "need_quote is not forwarded to the callee")


def _edges_into_are_guarded(f, D, lanes, ccp, seen=None, depth=0):
    """every control-flow edge into block D is the `enough bytes` edge of a comparison with LANES, the no-crossing edge of
    check_cross_page(ptr, LANES), or comes from a block that merely passes control on (goto / switch on a constant / on a
    value derived from neither test) all of whose own incoming edges are so guarded"""
    seen = seen or set()
    if D in seen or depth > 8:
        return False
    seen = seen | {D}
    preds = [p for p in f.preds.get(D, []) if not f.blocks[p].get("cleanup")]
    if not preds:
        return False
    for p in preds:
        t = f.blocks[p]["term"]
        good = False
        if t["k"] == "switch" and op_local(t["discr"]) is not None:
            dl = op_local(t["discr"])
            # the length test
            for bb, i, s in f.assigns():
                rv = s["rv"]
                if rv["k"] == "binop" and rv["op"] in ("Ge", "Gt", "Lt", "Le") and (op_int(rv["b"]) == lanes or op_int(rv["a"]) == lanes):
                    e = bool_switch_edges(f, s["lhs"][0])
                    if e and _switch_block_of(f, s["lhs"][0]) == p:
                        c_right = op_int(rv["b"]) == lanes
                        enough = e[0] if (rv["op"] == "Ge" and c_right) or (rv["op"] == "Le" and not c_right) else e[1] if (rv["op"] == "Lt" and c_right) or (rv["op"] == "Gt" and not c_right) else None
                        if enough == D:
                            good = True
            # the page test
            for cb, ct in ccp:
                if op_int(ct["args"][1]) == lanes and _switch_block_of(f, ct["dest"][0]) == p:
                    e = bool_switch_edges(f, ct["dest"][0])
                    if e and e[1] == D and e[0] != D:
                        good = True
        if not good:
            # a pass-through block: no call, and reached only over guarded edges
            if t["k"] in ("goto", "switch") and not any(bb == p for bb, tt in f.calls()):
                good = _edges_into_are_guarded(f, p, lanes, ccp, seen, depth + 1)
        if not good:
            return False
    return True


def _switch_block_of(f, bool_local):
    """block whose switch tests (a copy / negation of) bool_local"""
    for b, t in f.terms():
        if t["k"] != "switch":
            continue
        cur = op_local(t["discr"])
        for _ in range(10):
            if cur == bool_local:
                return b
            d = f.single_def(cur) if cur is not None else None
            if d and d[0] == "stmt" and d[3]["rv"]["k"] in ("use", "unop"):
                cur = op_local(d[3]["rv"].get("op", d[3]["rv"].get("a")))
            else:
                break
    return None


def r05_8(ctx):
    """every vector load from the source string in format_string reads LANES bytes: it is either inside
    the `nb >= LANES` loop, or goes through the zero-padded temporary, or lies on the no-page-crossing edge
    of check_cross_page(ptr, LANES) (the over-read stays inside the page that holds the last valid byte)"""
    # the unguarded-by-copy tail load only exists without debug assertions (what a release build ships):
    # the quick tier analyses that configuration too
    cfgs = [ctx.default_config] + (["native-nodebug"] if ctx.default_config == "native" else [])
    for cfg in cfgs:
        _r05_8_cfg(ctx, cfg)


def _r05_8_cfg(ctx, cfg):
    prog = ctx.prog(cfg)
    tag = "" if cfg == "native" else f"{cfg}:"
    f = prog.find("util::string::format_string")
    lanes = prog.const_int("format_string::LANES")
    loads = [(b, t) for b, t in f.calls() if callee_is(t, "load") and "string::load" in t["callee"]]
    ctx.floor("R05.8", f"{tag}vector loads in format_string", len(loads), 1)
    ccp = [(b, t) for b, t in f.calls() if callee_is(t, "check_cross_page")]
    cc = prog.find("util::string::check_cross_page")
    consts = sorted({op_int(o) for b, s, o in cc.const_operands() if op_int(o) is not None and op_int(o) > 1})
    page_ok = bool(consts) and all(c & (c - 1) == 0 and c >= lanes for c in consts)
    k = 0
    for b, t in loads:
        k += 1
        l = op_local(t["args"][0])
        s0 = f.src(l) if l is not None else ("multi",)
        via_temp = s0[0] == "call" and callee_is(s0[2], "as_ptr")
        if via_temp:
            # the temporary is LANES bytes long
            ctx.ob("R05.8", f"{tag}load#{k}:temp", True, f.loc(t["ln"]), "load from the zero-padded LANES-byte temporary")
            continue
        # the pointer is selected beforehand (`let block = if short && crosses { temp } else { src }`): the clause is about the
        # place where the source pointer is chosen - every edge into it is the `>= LANES` edge of the length test or the
        # no-page-crossing edge of the page test (through blocks that only pass control on)
        for _ in range(4):      # the operand is a copy of the selected pointer
            dd = f.single_def(l) if l is not None else None
            if dd and dd[0] == "stmt" and dd[3]["rv"]["k"] == "use" and op_local(dd[3]["rv"]["op"]) is not None:
                l = op_local(dd[3]["rv"]["op"])
            else:
                break
        def temp_ptr(d):    # `temp.as_ptr()` of a local buffer, not of the caller's string
            if d[0] != "call" or not callee_is(d[2], "as_ptr") or not d[2]["args"] or op_local(d[2]["args"][0]) is None:
                return False
            return not any(lf[0] == "param" for lf in backward_slice(f, [op_local(d[2]["args"][0])])[1])
        if l is not None and len(f.defs.get(l, [])) >= 2 and any(temp_ptr(d) for d in f.defs[l]):
            sel_ok = True
            detail = []
            for d in f.defs[l]:
                if d[0] == "call":
                    if not temp_ptr(d):
                        sel_ok = False
                        detail.append(f"pointer from {d[2]['callee'].rsplit('::', 1)[-1]}")
                    continue
                good = _edges_into_are_guarded(f, d[1], lanes, ccp)
                detail.append(f"source pointer chosen at line {d[3].get('ln')}: {'every edge into it is guarded' if good else 'an unguarded edge reaches it'}")
                sel_ok = sel_ok and good
            ctx.ob("R05.8", f"{tag}load#{k}:selected", sel_ok and page_ok, f.loc(t["ln"]),
                   ("the load reads the zero-padded temporary or the source pointer chosen only on the `>= LANES` / no-page-crossing edges: " + "; ".join(detail)) if sel_ok and page_ok else
                   f"a {lanes}-byte vector load reads the source pointer on a path that passed neither the full-block test nor the page-crossing check ({'; '.join(detail)}): it can read past the end of the string into an unmapped page")
            continue
        # direct load from the source pointer
        in_loop = False
        for bb, i, s in f.assigns():
            rv = s["rv"]
            if rv["k"] == "binop" and rv["op"] in ("Ge", "Gt", "Lt", "Le") and (op_int(rv["b"]) == lanes or op_int(rv["a"]) == lanes) and f.dominates(bb, b):
                e = bool_switch_edges(f, s["lhs"][0])
                if not e:
                    continue
                enough = e[0] if (rv["op"] in ("Ge", "Gt") and op_int(rv["b"]) == lanes) or (rv["op"] in ("Le", "Lt") and op_int(rv["a"]) == lanes) else e[1]
                other = e[1] if enough == e[0] else e[0]
                strict_ok = not (rv["op"] == "Gt" and op_int(rv["b"]) == lanes and False)
                if b in f.reachable_from(enough) and b not in f.reachable_from(other, avoid={enough}):
                    in_loop = True
        guarded = False
        for cb, ct in ccp:
            if f.dominates(cb, b) and op_int(ct["args"][1]) == lanes:
                e = bool_switch_edges(f, ct["dest"][0])
                if e and b in f.reachable_from(e[1]) and b not in f.reachable_from(e[0], avoid={e[1]}):
                    guarded = True
        ok = in_loop or (guarded and page_ok)
        ctx.ob("R05.8", f"{tag}load#{k}:direct", ok, f.loc(t["ln"]),
               ("direct load inside the `nb >= LANES` loop" if in_loop else f"direct tail load on the no-page-crossing edge of check_cross_page(ptr, {lanes}) with page size {consts}") if ok else
               f"a {lanes}-byte vector load from the source pointer is neither inside the full-block loop nor guarded by the page-crossing check: it can read past the end of the string into an unmapped page")
    ctx.ob("R05.8", f"{tag}check_cross_page:page-constant", page_ok, cc.loc(), f"page constant(s) {consts}: power of two >= LANES {lanes}")


WRITERS = ("write_bool", "write_i8", "write_i16", "write_i32", "write_i64", "write_i128", "write_u8", "write_u16", "write_u32", "write_u64", "write_u128",
           "write_f32", "write_f64", "write_number_str", "write_char_escape", "write_string_fragment", "write_null", "write_raw_value")


def r05_5(ctx):
    """map keys become strings: every serialize_* of the text MapKeySerializer that writes a scalar does so
    between begin_string and end_string, delegates to the string serializer, or returns an error"""
    prog = ctx.prog()
    ms = [f for f in prog.fns.values() if f.crate == "sonic_rs" and f.kind == "AssocFn" and (f.self_adt or "").endswith("serde::ser::MapKeySerializer") and (f.trait or "").endswith("ser::Serializer") and f.name.startswith("serialize_")]
    ctx.floor("R05.5", "serialize_* methods of the map-key serializer", len(ms), 25)
    for f in ms:
        writes = [(b, t) for b, t in f.calls() if t["callee"].rsplit("::", 1)[-1] in WRITERS and "Formatter" in (t.get("trait") or t["callee"])]
        if not writes:
            # delegation: only to the string serializer of the main serializer, to this key serializer again
            # (value.serialize(self)), or to nothing (an error)
            bad = []
            for b, t in f.calls():
                nm = t["callee"].rsplit("::", 1)[-1]
                if nm.startswith("serialize_") and (t.get("trait") or "").endswith("ser::Serializer"):
                    recv_ty = t["argtys"][0] if t.get("argtys") else ""
                    if "MapKeySerializer" in recv_ty:
                        continue
                    if nm not in ("serialize_str",):
                        bad.append(f"{nm} on {recv_ty[:40]}")
                if nm == "collect_str" and "MapKeySerializer" not in (t["argtys"][0] if t.get("argtys") else ""):
                    # collect_str of the main serializer writes a quoted string
                    continue
            ctx.ob("R05.5", f"{f.name}", not bad, f.loc(),
                   "no scalar is written directly: error, the value's own Serialize with this key serializer, or the main serializer's serialize_str" if not bad else
                   f"the key is handed to the main serializer's {bad}: a non-string key is written without quotes", nontrivial=bool(bad) or any(t["callee"].rsplit("::", 1)[-1].startswith("serialize") for b, t in f.calls()))
            continue
        bs = {b for b, t in f.calls() if t["callee"].rsplit("::", 1)[-1] == "begin_string"}
        es = {b for b, t in f.calls() if t["callee"].rsplit("::", 1)[-1] == "end_string"}
        ok = bool(bs) and bool(es)
        for b, t in writes:
            if not any(f.dominates(x, b) for x in bs):
                ok = False
        oks = [b for b, k, _ in return_kinds(f) if k == "Ok"]
        # every normal completion after the write passes end_string (its result is the return value)
        for b, t in writes:
            re_succ = f.succs(b)
            for s0 in re_succ:
                leak = f.reachable_from(s0, avoid=es) & set(f.return_blocks)
                # error returns (write failed) are fine: only paths that do not go through an Err aggregate count
                errb = {bb for bb, k, _ in return_kinds(f) if k == "Err"}
                bad_leak = {r for r in leak if not (f.reachable_from(s0, avoid=es | errb) & {r}) == set()} if False else leak
                if leak and not all(any(eb in f.reachable_from(s0, avoid=es) for eb in errb) for _ in [0]):
                    ok = False
        ctx.ob("R05.5", f"{f.name}", ok, f.loc(), "the scalar is written between begin_string and end_string (a quoted key)" if ok else "a scalar map key is written without the surrounding quotes: the output is not a JSON object key")


_SKIP = object()


def _lit_of(fn, a, live, bytes_pm):
    """constant bytes an operand holds: a literal, a literal assigned in a live block, or a byte-slice parameter bound by
    the caller; _SKIP for the formatter's own `indent` bytes (whitespace by contract of with_indent); None if unknown"""
    bs = op_bytes(a)
    if bs is not None:
        return bs
    l = op_local(a)
    if l is None:
        return None
    sl, leaves = backward_slice(fn, [l])
    cands = []
    for x in sl | {l}:
        if x in bytes_pm and not fn.defs.get(x):
            cands.append(bytes_pm[x])
        for d in fn.defs.get(x, []):
            if d[0] == "stmt" and d[1] in live and d[3]["rv"]["k"] in ("use", "cast") and d[3]["rv"]["op"]["k"] == "const" and op_bytes(d[3]["rv"]["op"]) is not None:
                cands.append(op_bytes(d[3]["rv"]["op"]))
    if any(c is None for c in cands):
        return None
    if len(cands) == 1:
        return cands[0]
    if cands:
        return b"|".join(sorted(set(cands)))
    if any(lf[0] == "place" and "indent" in [e[2] for e in lf[1][1] if isinstance(e, list) and e[0] == "."] for lf in leaves):
        return _SKIP
    return None


def _written_literals(prog, fn, pm, bytes_pm=None, depth=0):
    """the constant byte strings written (write_all) on the live blocks of fn under the bool-parameter map pm, in block
    order; a private method of the same type that the body delegates to is followed, with its byte-slice and bool
    parameters bound to the caller's constants"""
    from ..analysis import live_blocks
    bytes_pm = bytes_pm or {}
    live = live_blocks(fn, pm, {})
    out = []
    for b in sorted(live):
        t = fn.blocks[b]["term"]
        if t["k"] not in ("call", "tailcall"):
            continue
        if t["callee"].rsplit("::", 1)[-1] == "write_all":
            bs = _lit_of(fn, t["args"][1], live, bytes_pm)
            if bs is not _SKIP:
                out.append(bs)
            continue
        g = prog.fns.get(t["callee"])
        if g is not None and depth < 2 and g.impl and fn.impl and not g.impl.get("trait") and g.impl.get("self_ty") == fn.impl.get("self_ty"):
            gb, gp = {}, {}
            for i, a in enumerate(t["args"], start=1):
                ty = g.locals[i]["ty"] if i < len(g.locals) else ""
                if "[u8" in ty:
                    gb[i] = _lit_of(fn, a, live, bytes_pm)
                    if gb[i] is _SKIP:
                        gb[i] = None
                elif ty == "bool":
                    if a["k"] == "const" and a.get("int") is not None:
                        gp[i] = bool(int(a["int"]))
                    elif op_local(a) in pm:
                        gp[i] = pm[op_local(a)]
            out += _written_literals(prog, g, gp, gb, depth + 1)
    return out


def r05_6(ctx):
    """pretty output = compact output + whitespace: for every Formatter method PrettyFormatter overrides, the
    constant bytes it writes, with whitespace removed, are those of the default (compact) method, for each
    value of the `first` flag"""
    prog = ctx.prog()
    pim = [im for im in prog.impls if im["trait"] == "sonic_rs::format::Formatter" and "PrettyFormatter" in im["self_ty"]]
    if len(pim) != 1:
        ctx.fail_closed("R05.6", "impl Formatter for PrettyFormatter")
        return
    tr = prog.traits.get("sonic_rs::format::Formatter")
    defaults = {m["name"]: m["id"] for m in tr["methods"] if m["has_default"]}
    ctx.floor("R05.6", "Formatter methods overridden by PrettyFormatter", len(pim[0]["methods"]), 4)
    # the line-break flag: an opening bracket clears `has_value`, and it is the END of a value that sets it again - a value
    # that is itself an empty container has cleared it in between, so setting it at the beginning of the value leaves the
    # enclosing container without its closing line break (`{\n  "items": []}`)
    for mname in ("end_array_value", "end_object_value"):
        g = prog.fns.get(pim[0]["methods"].get(mname, ""))
        sets = [] if g is None else [s_ for b, i, s_ in g.assigns() if [e[2] for e in s_["lhs"][1] if isinstance(e, list) and e[0] == "."][-1:] == ["has_value"] and s_["rv"]["k"] == "use" and op_int(s_["rv"]["op"]) == 1]
        ctx.ob("R05.6", f"{mname}:sets-has_value", bool(sets), g.loc() if g else "src/format.rs",
               f"PrettyFormatter::{mname} records that the container now has a value" if sets else
               f"PrettyFormatter::{mname} does not set has_value: after a member that is an empty container the enclosing bracket is closed without its line break and indentation")
    strip = lambda bs: bytes(c for c in bs if c not in b" \n\r\t") if bs is not None else None
    for name, pid_ in sorted(pim[0]["methods"].items()):
        pf = prog.fns.get(pid_)
        df = prog.fns.get(defaults.get(name, ""))
        if pf is None or df is None:
            ctx.ob("R05.6", name, False, "", "method body missing (fail closed)")
            continue
        bools = [i for i in range(1, pf.argc + 1) if pf.locals[i]["ty"] == "bool"]
        ctxs = [{}] if not bools else [{bools[0]: True}, {bools[0]: False}]
        ok = True
        detail = []
        for pm in ctxs:
            pl = _written_literals(prog, pf, pm)
            dl = _written_literals(prog, df, pm)
            if any(x is None for x in pl + dl):
                # a non-constant write: only the indentation helper is allowed to write data-dependent bytes
                ok = False
                detail.append(f"{pm}: non-constant write")
                continue
            ps = b"".join(strip(x) for x in pl)
            ds = b"".join(strip(x) for x in dl)
            if ps != ds:
                ok = False
            detail.append(f"{'first=' + str(list(pm.values())[0]) if pm else 'always'}: pretty {b''.join(pl)!r} vs compact {b''.join(dl)!r}")
        ctx.ob("R05.6", name, ok, pf.loc(), "; ".join(detail))


END_SHAPE = {
    # trait of the `end` method -> (closer that depends on the Empty state, closers of the enclosing variant object written unconditionally)
    "SerializeSeq": ("end_array", 0),
    "SerializeMap": ("end_object", 0),
    "SerializeTupleVariant": ("end_array", 1),
    "SerializeStructVariant": ("end_object", 1),
}


def r05_10(ctx):
    """brackets are balanced: serialize_seq / serialize_map already write the closing bracket of an empty container and
    record State::Empty, so every `end` of the compound serializer writes the container's closing bracket only on the
    non-Empty edge of a test of that state; the closing brace of an enum-variant wrapper is the only unconditional one"""
    prog = ctx.prog()
    n = 0
    for f in prog.fns.values():
        if f.crate != "sonic_rs" or f.name != "end" or not (f.self_adt or "").endswith("serde::ser::Compound"):
            continue
        tr = (f.trait or "").rsplit("::", 1)[-1]
        closers = [(b, t) for b, t in f.calls() if t["callee"].rsplit("::", 1)[-1] in ("end_array", "end_object")]
        if not closers:
            continue  # delegates to a sibling
        n += 1
        if tr not in END_SHAPE:
            ctx.ob("R05.10", f"end:{tr}", False, f.loc(), f"{tr}::end writes closing brackets but is not one of the audited shapes")
            continue
        want_kind, want_uncond = END_SHAPE[tr]
        # switches on the State of the compound
        state_sw = []
        for b, t in f.terms():
            if t["k"] != "switch":
                continue
            dl = op_local(t["discr"])
            d = f.single_def(dl) if dl is not None else None
            if d and d[0] == "stmt" and d[3]["rv"]["k"] == "discr":
                pl = d[3]["rv"]["p"]
                names = [e[2] for e in pl[1] if isinstance(e, list) and e[0] == "."]
                tyok = "ser::State" in f.locals[pl[0]]["ty"] or (names and names[-1] == "state")
                if tyok:
                    state_sw.append((b, t))
        # the same test written as a comparison (state != State::Empty): a bool switch fed by eq/ne over State operands
        for b, t in f.calls():
            if callee_is(t, "eq", "ne") and "State" in " ".join((t.get("rgargs") or []) + (t.get("gargs") or []) + [t["callee"]] + (t.get("argtys") or [])):
                e_ = bool_switch_edges(f, t["dest"][0])
                if e_:
                    for bb, tt in f.terms():
                        if tt["k"] == "switch" and set([x for v, x in tt["targets"]] + [tt["otherwise"]]) == set(e_):
                            state_sw.append((bb, tt))
        guarded, uncond = [], []
        for cb, ct in closers:
            g = False
            for sb, st in state_sw:
                tg = [x for v, x in st["targets"]] + [st["otherwise"]]
                # (`matches!(state, State::Empty)` materialises the test as a bool: followed by constant propagation)
                can = [x for x in tg if x == cb or cb in reachable_cp(f, x)]
                if f.dominates(sb, cb) and 0 < len(set(can)) < len(set(tg)):
                    g = True
            (guarded if g else uncond).append(ct["callee"].rsplit("::", 1)[-1])
        ok = guarded.count(want_kind) == 1 and len(guarded) == 1 and len(uncond) == want_uncond and all(x == "end_object" for x in uncond)
        ctx.ob("R05.10", f"end:{tr}", ok, f.loc(),
               f"{tr}::end writes {guarded} only when the container was not already closed as empty and {uncond or 'nothing'} unconditionally" if ok else
               f"{tr}::end writes {guarded} under the Empty-state test and {uncond} unconditionally (expected: {want_kind} under the test, {want_uncond} unconditional end_object): an empty container is closed twice")
    ctx.floor("R05.10", "`end` methods of the compound serializer that write closing brackets", n, 4)


def r05_11(ctx):
    """caller-supplied text reaches the output only through the escaper: in the text serializer and its map-key serializer
    no `&str` / `&[u8]` parameter is handed to a raw write (write_all / write_str / extend_from_slice); the raw-value
    emitter, whose contract is to copy verbatim, is a different type and is not concerned"""
    prog = ctx.prog()
    n = 0
    seen = collections.Counter()
    for f in prog.fns.values():
        if f.crate != "sonic_rs" or f.kind == "Closure":
            continue
        adt = f.self_adt or ""
        if not adt.endswith(("serde::ser::Serializer", "serde::ser::MapKeySerializer", "serde::ser::Compound")):
            continue
        sparams = [i for i in range(1, f.argc + 1) if f.locals[i]["ty"].replace("'static ", "") in ("&str", "&[u8]")]
        if not sparams:
            continue
        n += 1
        bad = []
        for g in prog.with_closures(f):
            for b, t in g.calls():
                nm = t["callee"].rsplit("::", 1)[-1]
                if nm not in ("write_all", "write_str", "extend_from_slice", "write", "push_str", "write_raw", "write_raw_value", "write_string_fragment") or len(t["args"]) < 2:
                    continue
                if g.id != f.id:
                    continue
                for a in t["args"][1:]:
                    l = op_local(a)
                    sl, leaves = backward_slice(f, [l]) if l is not None else (set(), [])
                    if any(lf[0] == "param" and lf[1] in sparams for lf in leaves):
                        bad.append(t)
                        break
        key = f"{adt.rsplit('::', 1)[-1]}::{f.name}"
        seen[key] += 1
        ctx.ob("R05.11", f"{key}#{seen[key]}", not bad, f.loc(bad[0]["ln"] if bad else None),
               "the text parameter is only handed to the escaping writer" if not bad else
               f"the text parameter is written with {bad[0]['callee'].rsplit('::', 1)[-1]} without passing the escaper: a quote, backslash or control character in it goes out raw")
    ctx.floor("R05.11", "serializer methods taking caller text", n, 8)


def r05_s(ctx):
    """the text denotes the value: every number writer formats its own parameter at its own width (shared with C08)"""
    from . import c08
    ctx.include(c08.r08_1, "R05.S")


RULES = [("R05.1", r05_1), ("R05.2", r05_2), ("R05.3", r05_3), ("R05.4", r05_4), ("R05.5", r05_5), ("R05.6", r05_6), ("R05.7", r05_7), ("R05.8", r05_8), ("R05.9", r05_9), ("R05.10", r05_10), ("R05.11", r05_11), ("R05.S", r05_s)]

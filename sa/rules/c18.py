"""C18 — lazily cached decodings: static obligations of the publish-once protocol."""
import collections
from ..facts import callee_is, op_local, op_place, fmt_place, FactError
from ..analysis import (result_edges, rv_places, backward_slice, forward_derived, enum_variant_of_operand, discr_switches_on,
                        switch_edges)

EXPLANATION = (
    "Decides protocol obligations of the publish-once caches (LazyValue's Inner.unescaped and "
    "OwnedLazyValue's LazyRaw.parsed), each a necessary condition of C18 that is visible in the MIR "
    "of the resolved program: (R18.1) a weak compare-exchange is retried in a loop or its Err value "
    "is null-tested before use; (R18.2) every Arc/Box raw hand-over touching one AtomicPtr field uses "
    "one pointee type; (R18.3) on the losing edge of the publishing CAS the loser's own allocation is "
    "released on every path to the return and the value returned is derived from the CAS's Err "
    "payload (the winner), on the winning edge the loser release is not executed; (R18.4) clone/drop "
    "of the owners take/release a count exactly on the non-null edge; (R18.5) loads whose result is "
    "dereferenced are >= Acquire, the publishing CAS is >= Release on success and >= Acquire on "
    "failure; (R18.8) a cached decoding re-owned under &mut self outside Drop leaves the pointer null on every path to a return. Does NOT decide behaviour under interleavings; the orderings rule trusts the C++11 "
    "model's meaning of the constants."
)
ASSUMPTIONS = [
    "rustc MIR (mir-opt-level=0) of the current working tree is a faithful rendering of the source",
    "AtomicPtr fields of crate ADTs are the only publish-once caches (they are discovered from the ADT table, not listed)",
    "memory-ordering constants mean what the C++11/Rust memory model says",
]

ATOMIC_LOAD = ("core::sync::atomic::Atomic::<*mut T>::load", "core::sync::atomic::AtomicPtr::<T>::load")
CAS_STRONG = ("core::sync::atomic::Atomic::<*mut T>::compare_exchange", "core::sync::atomic::AtomicPtr::<T>::compare_exchange")
CAS_WEAK = ("core::sync::atomic::Atomic::<*mut T>::compare_exchange_weak", "core::sync::atomic::AtomicPtr::<T>::compare_exchange_weak")
RAW_API = {
    "alloc::sync::Arc::<T>::into_raw": ("Arc", "produce"),
    "alloc::sync::Arc::<T, A>::into_raw": ("Arc", "produce"),
    "alloc::sync::Arc::<T>::from_raw": ("Arc", "consume"),
    "alloc::sync::Arc::<T>::increment_strong_count": ("Arc", "retain"),
    "alloc::sync::Arc::<T>::decrement_strong_count": ("Arc", "consume"),
    "alloc::boxed::Box::<T>::into_raw": ("Box", "produce"),
    "alloc::boxed::Box::<T, A>::into_raw": ("Box", "produce"),
    "alloc::boxed::Box::<T>::from_raw": ("Box", "consume"),
}
ORD_RANK_LOAD_OK = {"Acquire", "SeqCst", "AcqRel"}
ORD_SUCCESS_OK = {"Release", "AcqRel", "SeqCst"}
ORD_FAIL_OK = {"Acquire", "SeqCst"}


def atomic_fields(prog):
    """(adt id, field name) of every crate ADT field of type AtomicPtr<_>"""
    out = []
    for a in prog.adts.values():
        for v in a["variants"]:
            for f in v["fields"]:
                if "AtomicPtr<" in f["ty"] or "Atomic<*mut" in f["ty"]:
                    out.append((a["id"], f["name"], f["ty"]))
    return out


def touches_field(fn, adt, field):
    """does the body mention place `.field` on a local whose type is (a ref to) the ADT?"""
    short = adt.split("::", 1)[1] if "::" in adt else adt
    for b, i, s in fn.stmts():
        if s["k"] != "assign":
            continue
        places = [s["lhs"]] + rv_places(s["rv"])
        for p in places:
            for e in p[1]:
                if isinstance(e, list) and e[0] == "." and e[2] == field:
                    base_ty = fn.locals[p[0]]["ty"]
                    if short.split("::")[-1] in base_ty:
                        return True
    # aggregates building the ADT also touch the field
    for b, i, s in fn.assigns():
        rv = s["rv"]
        if rv["k"] == "agg" and rv.get("adt") == adt:
            return True
    return False


def cas_sites(prog):
    out = []
    for fn in prog.fns.values():
        if fn.crate != "sonic_rs":
            continue
        for b, t in fn.calls():
            if callee_is(t, *CAS_STRONG):
                out.append((fn, b, t, False))
            elif callee_is(t, *CAS_WEAK):
                out.append((fn, b, t, True))
    return out


def r18_1(ctx):
    prog = ctx.prog()
    sites = cas_sites(prog)
    ctx.floor("R18.1", "compare-exchange sites on AtomicPtr", len(sites), 2)
    for fn, b, t, weak in sites:
        key = f"{fn.id}"
        if not weak:
            ctx.ob("R18.1", key, True, fn.loc(t["ln"]), "strong compare_exchange: cannot fail spuriously")
            continue
        dest = t["dest"][0]
        # Err edge of the switch on the result
        ok = False
        why = "weak compare-exchange outside a retry loop and its Err value is used without a null test"
        sw = discr_switches_on(fn, dest)
        in_loop = any(b in fn.reachable_from(s) for s in fn.succs(b))
        if in_loop:
            ok = True
            why = "weak compare-exchange re-reached from its own successors (retry loop)"
        else:
            # Err payload must be null-tested before any other use
            derived = set()
            for bb, i, s in fn.assigns():
                p = op_place(s["rv"].get("op", {"k": ""})) if s["rv"]["k"] in ("use", "cast") else None
                if p and p[0] == dest and any(isinstance(e, list) and e[0] == "as" and e[1] == "Err" for e in p[1]) and not s["lhs"][1]:
                    derived.add(s["lhs"][0])
            derived = forward_derived(fn, derived) if derived else set()
            tested = False
            for bb, tt in fn.calls():
                if callee_is(tt, "is_null") and op_local(tt["args"][0]) in derived:
                    tested = True
            if derived and tested:
                ok = True
                why = "Err payload of the weak compare-exchange is null-tested"
        ctx.ob("R18.1", key, ok, fn.loc(t["ln"]), why)


def r18_2(ctx):
    prog = ctx.prog()
    fields = atomic_fields(prog)
    ctx.floor("R18.2", "AtomicPtr fields in crate ADTs", len(fields), 2)
    for adt, field, fty in fields:
        uses = []
        for fn in prog.fns.values():
            if fn.crate != "sonic_rs" or not touches_field(fn, adt, field):
                continue
            for b, t in fn.calls():
                for name, (fam, role) in RAW_API.items():
                    if t.get("callee") == name:
                        g = t.get("rgargs") or t.get("gargs") or ["?"]
                        uses.append((fn, t, fam, role, g[0]))
        key = f"{adt}.{field}"
        fams = {u[2] for u in uses}
        tys = {u[4] for u in uses}
        ok = len(fams) <= 1 and len(tys) <= 1 and len(uses) >= 2
        where = "; ".join(sorted({f"{u[0].loc(u[1]['ln'])} {u[2]}<{u[4]}>::{u[3]}" for u in uses}))
        msg = (f"{len(uses)} raw hand-overs around this field use {sorted(fams)} of {sorted(tys)}"
               + ("" if ok else " — producer and consumer disagree on the pointee type (wrong layout / destructor on release)"))
        ctx.ob("R18.2", key, ok, where[:400], msg)


def _err_payload_locals(fn, dest):
    out = set()
    for bb, i, s in fn.assigns():
        rv = s["rv"]
        if rv["k"] in ("use", "cast"):
            p = op_place(rv["op"])
            if p and p[0] == dest and any(isinstance(e, list) and e[0] == "as" and e[1] == "Err" for e in p[1]) and not s["lhs"][1]:
                out.add(s["lhs"][0])
    return out


def r18_3(ctx):
    prog = ctx.prog()
    sites = cas_sites(prog)
    n = 0
    for fn, b, t, weak in sites:
        dest = t["dest"][0]
        new_l = op_local(t["args"][2])
        if new_l is None:
            ctx.ob("R18.3", f"{fn.id}:new-operand", False, fn.loc(t["ln"]), "cannot identify the published pointer operand (fail closed)")
            continue
        # the published pointer: backward slice must contain an into_raw call
        sl, leaves = backward_slice(fn, [new_l])
        producers = [lf for lf in leaves if lf[0] == "call" and any(lf[2].get("callee") == k and v[1] == "produce" for k, v in RAW_API.items())]
        if not producers:
            ctx.ob("R18.3", f"{fn.id}:producer", False, fn.loc(t["ln"]), "the pointer published by the compare-exchange does not come from Arc/Box::into_raw (fail closed)")
            continue
        prod_dest = producers[0][2]["dest"][0]
        same_ptr = forward_derived(fn, {prod_dest})
        re_ = result_edges(fn, dest)
        if re_ is None:
            ctx.ob("R18.3", f"{fn.id}:switch", False, fn.loc(t["ln"]), "cannot find the branch on the compare-exchange result (fail closed)")
            continue
        ok_t, err_t, how = re_
        # release sites of the same pointer
        rel_blocks = []
        for bb, tt in fn.calls():
            for name, (fam, role) in RAW_API.items():
                if tt.get("callee") == name and role == "consume" and op_local(tt["args"][0]) in same_ptr:
                    rel_blocks.append(bb)
        n += 1
        # (a) every path from the Err edge to a return passes a release of the loser's pointer
        esc = fn.reachable_from(err_t, avoid=set(rel_blocks)) & set(fn.return_blocks)
        ctx.ob("R18.3", f"{fn.id}:loser-released", bool(rel_blocks) and not esc, fn.loc(t["ln"]),
               "on the failing edge of the publishing compare-exchange the loser's allocation is released on every path to the return"
               if rel_blocks and not esc else "a path from the failing edge of the publishing compare-exchange reaches the return without releasing the loser's allocation (leak)")
        # (b) the release is not reachable from the Ok edge before return (would free the published value)
        ok_reach = fn.reachable_from(ok_t)
        bad = [r for r in rel_blocks if r in ok_reach]
        ctx.ob("R18.3", f"{fn.id}:winner-kept", not bad, fn.loc(t["ln"]),
               "the published allocation is not released on the winning edge" if not bad else "the published allocation is released on the winning edge (use after free)")
        # (c) value returned on the losing path derives from the Err payload
        err_only = fn.reachable_from(err_t) - fn.reachable_from(ok_t)
        payload = _err_payload_locals(fn, dest)
        ret_defs = [d for d in fn.defs.get(0, []) if d[1] in err_only]
        if not ret_defs and payload:
            # the pointer is selected on the two edges and the reference built after the join
            # (`let published = match cas { Ok(_) => fresh, Err(winner) => winner }; Some(&*published)`): the definition
            # of the selected local on the losing edge is what has to come from the payload
            rsl = set()
            for d in fn.defs.get(0, []):
                ls0 = [op_local(a) for a in d[2]["args"]] if d[0] == "call" else [p[0] for p in [op_place(o) for o in d[3]["rv"].get("f", [])] if p]
                rsl |= backward_slice(fn, [l for l in ls0 if l is not None])[0]
            for x in rsl:
                for d in fn.defs.get(x, []):
                    if d[1] in err_only and len(fn.defs.get(x, [])) >= 2:
                        ret_defs.append(("sel", d[1], d))
        good = bool(ret_defs) and bool(payload)
        detail = []
        for d in ret_defs:
            if d[0] == "sel":
                dd = d[2]
                ls = [op_local(a) for a in dd[2]["args"]] if dd[0] == "call" else [p[0] for p in rv_places(dd[3]["rv"])]
            elif d[0] == "call":
                ls = [op_local(a) for a in d[2]["args"]]
            else:
                ls = [p[0] for p in [op_place(o) for o in d[3]["rv"].get("f", [])] if p]
            sl, _ = backward_slice(fn, [l for l in ls if l is not None])
            if not (sl & payload):
                good = False
                detail.append(f"bb{d[1]}")
        ctx.ob("R18.3", f"{fn.id}:loser-returns-winner", good, fn.loc(t["ln"]),
               "the value returned on the losing path is derived from the Err payload (the winner's pointer)" if good
               else f"the value returned on the losing path does not derive from the compare-exchange's Err payload {detail} (stale / null pointer returned)")
    ctx.floor("R18.3", "publishing compare-exchange sites analysed", n, 2)


def r18_4(ctx):
    """owner pairing: a function that copies the cached pointer into a new owner takes a count on
    the non-null edge; Drop releases on the non-null edge."""
    prog = ctx.prog()
    fields = atomic_fields(prog)
    n = 0
    for adt, field, fty in fields:
        a = prog.adts[adt]
        # Drop impl of the owner must exist and contain a consume call on the non-null edge
        if "drop" not in a:
            ctx.ob("R18.4", f"{adt}:has-drop", False, "", "owner of a cached pointer has no Drop impl: the surviving decoding is never freed")
            continue
        dfn = prog.fns.get(a["drop"])
        if dfn is None:
            ctx.ob("R18.4", f"{adt}:drop-body", False, "", "Drop body not found (fail closed)")
            continue
        n += 1
        cons = [(b, t) for b, t in dfn.calls() if any(t.get("callee") == k and v[1] == "consume" for k, v in RAW_API.items())]
        nulls = [(b, t) for b, t in dfn.calls() if callee_is(t, "is_null")]
        ok = False
        if cons and nulls:
            # the consume must be reachable only through the false edge of an is_null switch
            for nb, nt in nulls:
                res = nt["dest"][0]
                for sb, stt in [(b, t) for b, t in dfn.terms() if t["k"] == "switch"]:
                    dl = op_local(stt["discr"])
                    if dl is None:
                        continue
                    sl, _ = backward_slice(dfn, [dl])
                    if res in sl:
                        negs = sum(1 for l in sl for d in dfn.defs.get(l, []) if d[0] == "stmt" and d[3]["rv"]["k"] == "unop" and d[3]["rv"]["op"] == "Not")
                        edges = dict(switch_edges(dfn, sb))
                        null_edge = edges.get(0) if negs % 2 == 1 else edges.get(None) if 0 in edges else None
                        if null_edge is None:
                            # switch has [0 -> X] otherwise Y ; value 0 means the tested bool is false
                            null_edge = edges.get(None) if negs % 2 == 0 else edges.get(0)
                        nonnull_edge = [tgt for v, tgt in edges.items() if tgt != null_edge]
                        if all(cb in dfn.reachable_from(nonnull_edge[0]) and cb not in dfn.reachable_from(null_edge, avoid={nonnull_edge[0]}) for cb, _ in cons if nonnull_edge):
                            ok = True
        ctx.ob("R18.4", f"{adt}:drop-releases-nonnull", ok, dfn.loc(),
               "Drop releases the cached decoding exactly on the non-null edge" if ok else "Drop of the owner does not release the cached decoding on the non-null edge (leak or free of null)")
        # Clone (if any hand-written) : a function that loads the field and builds a new owner with the same pointer must retain
        for fn in prog.fns.values():
            if fn.crate != "sonic_rs" or fn.trait != "core::clone::Clone" or fn.self_adt != adt:
                continue
            loads = [(b, t) for b, t in fn.calls() if callee_is(t, *ATOMIC_LOAD)]
            if not loads:
                continue
            n += 1
            derived = forward_derived(fn, {t["dest"][0] for b, t in loads})
            copies = [(b, t) for b, t in fn.calls() if callee_is(t, "new") and "Atomic" in t.get("callee", "") and any(op_local(x) in backward_slice(fn, [op_local(x)])[0] & derived for x in t["args"] if op_local(x) is not None)]
            retains = [(b, t) for b, t in fn.calls() if any(t.get("callee") == k and v[1] == "retain" for k, v in RAW_API.items()) and op_local(t["args"][0]) in derived]
            nulls = [(b, t) for b, t in fn.calls() if callee_is(t, "is_null") and op_local(t["args"][0]) in derived]
            ok = bool(retains) and bool(nulls)
            ctx.ob("R18.4", f"{adt}:clone-retains", ok or not copies, fn.loc(),
                   "Clone shares the cached pointer and takes a count after a null test" if ok else "Clone copies the cached pointer into a second owner without taking a count (double free)")
    ctx.floor("R18.4", "owner clone/drop bodies analysed", n, 3)


def r18_5(ctx):
    prog = ctx.prog()
    n = 0
    for fn in prog.fns.values():
        if fn.crate != "sonic_rs":
            continue
        for b, t in fn.calls():
            if callee_is(t, *ATOMIC_LOAD):
                n += 1
                ordv = enum_variant_of_operand(fn, t["args"][1])
                res = t["dest"][0]
                derived = forward_derived(fn, {res})
                # is the loaded pointer used for anything but null tests / CAS `current` / returning the raw pointer?
                deref = False
                for l in derived:
                    for ub, ui, us in fn.uses_of(l):
                        if ui == "term":
                            tt = us
                            if tt["k"] in ("call", "tailcall"):
                                if callee_is(tt, "is_null"):
                                    continue
                                if (callee_is(tt, *CAS_STRONG) or callee_is(tt, *CAS_WEAK)) and len(tt["args"]) > 1 and op_local(tt["args"][1]) == l:
                                    continue
                                deref = True
                            elif tt["k"] == "switch":
                                continue
                        else:
                            if us["k"] == "assign":
                                rv = us["rv"]
                                lhs = us["lhs"]
                                # copies/casts into other derived locals are not uses
                                if not lhs[1] and lhs[0] in derived and rv["k"] in ("use", "cast", "ref", "rawptr"):
                                    p = rv.get("p") or op_place(rv.get("op", {"k": ""}))
                                    if p and "*" in p[1] and rv["k"] in ("ref", "rawptr") and p[1] == ["*"]:
                                        deref = True  # &*ptr : a dereference producing a reference
                                    continue
                                if rv["k"] == "binop" and rv["op"] in ("Eq", "Ne"):
                                    continue
                                if rv["k"] == "cast" and rv["ck"] in ("Transmute", "PtrToPtr") and us.get("ln") and False:
                                    continue
                                # compiler-inserted alignment / null checks cast the pointer to usize
                                if rv["k"] == "cast" and rv["ty"] in ("usize", "*const ()") and _is_ub_check_chain(fn, lhs[0]):
                                    continue
                                deref = True
                            else:
                                deref = True
                ok = (not deref) or (ordv in ORD_RANK_LOAD_OK)
                ctx.ob("R18.5", f"{fn.id}:load", ok and ordv is not None, fn.loc(t["ln"]),
                       f"AtomicPtr::load({ordv}) whose result is {'dereferenced / handed on' if deref else 'only null-tested'}"
                       + ("" if ok else " — a pointer published by another thread is read through without Acquire (data race)"))
            elif callee_is(t, *CAS_STRONG) or callee_is(t, *CAS_WEAK):
                n += 1
                so = enum_variant_of_operand(fn, t["args"][3])
                fo = enum_variant_of_operand(fn, t["args"][4])
                ctx.ob("R18.5", f"{fn.id}:cas-success", so in ORD_SUCCESS_OK, fn.loc(t["ln"]),
                       f"publishing compare-exchange success ordering {so}" + ("" if so in ORD_SUCCESS_OK else " — the pointee's initialisation is not released to readers"))
                ctx.ob("R18.5", f"{fn.id}:cas-failure", fo in ORD_FAIL_OK, fn.loc(t["ln"]),
                       f"publishing compare-exchange failure ordering {fo}" + ("" if fo in ORD_FAIL_OK else " — the winner's pointer is dereferenced without Acquire"))
    ctx.floor("R18.5", "atomic loads / compare-exchanges on AtomicPtr", n, 6)


def _is_ub_check_chain(fn, l):
    """is local l only feeding a compiler-inserted pointer check (Assert MisalignedPointerDereference /
    NullPointerDereference)?"""
    seen = set()
    st = [l]
    hit_assert = False
    while st:
        x = st.pop()
        if x in seen:
            continue
        seen.add(x)
        for ub, ui, us in fn.uses_of(x):
            if ui == "term":
                if us["k"] == "assert" and us["msg"] in ("MisalignedPointerDereference", "NullPointerDereference"):
                    hit_assert = True
                else:
                    return False
            elif us["k"] == "assign" and not us["lhs"][1]:
                st.append(us["lhs"][0])
            else:
                return False
    return hit_assert


def r18_6(ctx):
    """publish-once: with shared access (&self) the cache pointer is written only by compare-exchange; an
    unconditional store/swap overwrites a decoding another thread has just published (lost update: that
    decoding is never freed, or a reader keeps a pointer the owner will not free)"""
    prog = ctx.prog()
    n = 0
    writers = ("store", "swap", "fetch_update")
    for fn in prog.fns.values():
        if fn.crate != "sonic_rs":
            continue
        for b, t in fn.calls():
            nm = t["callee"].rsplit("::", 1)[-1]
            if nm in writers and ("Atomic::<*mut T>" in t["callee"] or "AtomicPtr" in t["callee"]):
                n += 1
                ctx.ob("R18.6", f"{fn.id}:{nm}", False, fn.loc(t["ln"]),
                       f"AtomicPtr::{nm} on a publish-once cache from a function with shared access: a concurrent publication is overwritten (its decoding leaks / is freed twice)")
    cas = len(cas_sites(prog))
    ctx.ob("R18.6", "publication-only-by-compare-exchange", n == 0, "", f"{cas} compare-exchange publication sites, {n} unconditional stores/swaps on AtomicPtr caches")


REFCOUNT_AUDIT = {
    # (function, primitive): sites audited.  Acquire = the cache gains an owner; release = it loses one.
    ("Inner::parse_from", "into_raw"): (1, "acquire", "the winner's Arc becomes the published pointer"),
    ("Inner::parse_from", "decrement_strong_count"): (1, "release", "the loser gives its own Arc back"),
    ("Inner as core::clone::Clone>::clone", "increment_strong_count"): (1, "acquire", "a clone is one more owner of the published decoding"),
    ("Inner as core::ops::drop::Drop>::drop", "decrement_strong_count"): (1, "release", "each owner gives its share back exactly once"),
    ("LazyRaw::load", "into_raw"): (1, "acquire", "the winner's Box becomes the published pointer"),
    ("LazyRaw::load", "from_raw"): (1, "release", "the loser frees its own Box"),
    ("LazyRaw::parse", "from_raw"): (1, "release", "&mut self: the cached Box is taken back and consumed"),
    ("LazyRaw as core::ops::drop::Drop>::drop", "from_raw"): (1, "release", "the owner frees the published Box"),
}
REFCOUNT_PRIMS = ("increment_strong_count", "decrement_strong_count", "from_raw", "into_raw", "forget", "leak")


def _sh(fid):
    from .c01 import short as _s
    return _s(fid)


def r18_7(ctx):
    """reference-count balance of the publish-once caches: owners are gained and lost only at the audited sites (publisher,
    Clone, Drop); an extra acquire leaks the decoding, an extra release frees it under a reader"""
    prog = ctx.prog()
    cnt = collections.Counter()
    where = {}
    for f in prog.fns.values():
        if f.crate != "sonic_rs" or "lazyvalue::" not in f.id:
            continue
        owner = prog.fns.get(f.parent_fn, f) if f.parent_fn else f
        for b, t in f.calls():
            nm = t["callee"].rsplit("::", 1)[-1]
            if nm in REFCOUNT_PRIMS and any(x in t["callee"] for x in ("sync::Arc", "boxed::Box", "mem::forget", "ManuallyDrop")):
                key = (owner.id, nm)
                cnt[key] += 1
                where.setdefault(key, f.loc(t["ln"]))
    ctx.floor("R18.7", "ownership primitives in the lazy caches", sum(cnt.values()), 6)
    # the balance is kept per function and direction, whichever primitive spells it: `decrement_strong_count(p)` and
    # `drop(Arc::from_raw(p))` give one share back alike
    kind_of = lambda nm: "acquire" if nm in ("increment_strong_count", "into_raw", "forget", "leak") else "release"
    per = collections.Counter()
    prims = collections.defaultdict(list)
    for (fid, nm), c in cnt.items():
        per[(fid, kind_of(nm))] += c
        prims[(fid, kind_of(nm))].append(nm)
    for (fid, kind), c in sorted(per.items()):
        hit = [(k, v) for k, v in REFCOUNT_AUDIT.items() if fid.endswith(k[0]) and v[1] == kind]
        allowed = sum(v[0] for k, v in hit)
        nm = "/".join(sorted(set(prims[(fid, kind)])))
        w = where[(fid, prims[(fid, kind)][0])]
        ctx.ob("R18.7", f"{_sh(fid)}:{kind}", c <= allowed, w,
               f"{c} {kind} site(s) ({nm}), audited {allowed}: {hit[0][1][2]}" if hit and c <= allowed else
               f"{c} {kind} site(s) ({nm}) in {_sh(fid)}, {allowed} audited: " + ("the cache gains an owner that no Drop gives back (the decoding is never freed)" if kind == "acquire" else "an owner is given back twice (the decoding is freed under a reader)"))


def r18_8(ctx):
    """a cached decoding taken back under `&mut self` leaves the cache empty: where a function other than `Drop` turns the pointer
    read through `AtomicPtr::get_mut` into its owner again (`Box::from_raw` / `Arc::from_raw`), every path from there to a return
    stores a null pointer through that same reference - otherwise `Drop` frees the decoding a second time (shared with C01)"""
    from ..analysis import backward_slice
    prog = ctx.prog()
    n = 0
    for f in sorted(prog.fns.values(), key=lambda g: g.id):
        if f.crate != "sonic_rs" or (f.trait or "").endswith("Drop"):
            continue
        gm = [t["dest"][0] for b, t in f.calls() if callee_is(t, "get_mut") and "atomic" in t["callee"] and t.get("dest") and not t["dest"][1]]
        if not gm:
            continue
        nulls = {t["dest"][0] for b, t in f.calls() if callee_is(t, "null_mut", "null") and "ptr::" in t["callee"] and t.get("dest")}
        resets = set()
        for bi, blk in enumerate(f.blocks):
            for st in blk["stmts"]:
                if st.get("k") != "assign" or not st["lhs"][1] or st["lhs"][1][0] != "*":
                    continue
                if st["lhs"][0] not in gm and not (set(gm) & backward_slice(f, [st["lhs"][0]])[0]):
                    continue
                o = st["rv"].get("op") if st["rv"].get("k") == "use" else None
                ol = op_local(o) if o else None
                if ol is not None and (ol in nulls or (nulls & backward_slice(f, [ol])[0])):
                    resets.add(bi)
        k = 0
        for b, t in f.calls():
            if not (callee_is(t, "from_raw") and any(x in t["callee"] for x in ("boxed::Box", "sync::Arc")) and t["args"]):
                continue
            a = op_local(t["args"][0])
            if a is None or not (set(gm) & backward_slice(f, [a])[0]):
                continue
            n += 1
            k += 1
            nxt = t.get("t")
            free = f.reachable_from(nxt, avoid=resets) if nxt is not None and nxt not in resets else set()
            bad = free & set(f.return_blocks)
            ctx.ob("R18.8", f"{_sh(f.id)}:take-back-empties-cache#{k}", not bad, f.loc(t.get("ln")),
                   "the cached pointer is set to null on every path from the take-back to a return" if not bad else
                   "the cached Box/Arc is re-owned under &mut self and a return is reached with the pointer still set: Drop frees the decoding again (double free)")
    ctx.floor("R18.8", "take-back sites of a cached decoding under &mut self", n, 1)


RULES = [("R18.1", r18_1), ("R18.2", r18_2), ("R18.3", r18_3), ("R18.4", r18_4), ("R18.5", r18_5), ("R18.6", r18_6), ("R18.7", r18_7), ("R18.8", r18_8)]

"""C07 — numbers are parsed exactly: table oracles and sign/finiteness flow."""
import struct, collections, re
from ..facts import callee_is, op_local, op_place, op_int, op_bytes, norm_path, FactError
from ..analysis import backward_slice, control_deps, bool_switch_edges, forward_derived, rv_places
from .. import oracles
from .c01 import short

EXPLANATION = (
    "Decides that every constant table and constant the float paths depend on equals its mathematical "
    "definition, entry by entry, against independent big-integer generators (powers of ten, exact f64 "
    "powers, the 651-entry Eisel-Lemire 128-bit power-of-five table, the dec2flt left-shift tables, "
    "floor(i*log2 10), RawFloat constants of f32/f64, the x86 simd_str2int multiplier words); that the "
    "sign parameter reaches every float result of parse_number/parse_float (R07.3, sign of zero included); "
    "that a float produced by the Eisel-Lemire / long-mantissa paths is tested for infinity before it is "
    "returned (R07.4); and that the typed number entry points contain no narrowing integer cast or "
    "float-to-int cast (R07.5). Does NOT decide the rounding algorithms that use the tables."
)
ASSUMPTIONS = [
    "rustc const evaluation gives the table bytes the compiled code uses",
    "the published Eisel-Lemire / dec2flt table generators (re-implemented in sa/oracles.py) define the intended contents",
    "Python's int->float conversion is correctly rounded (used for the exact powers of ten up to 1e22)",
]


def words(raw, size):
    return [int.from_bytes(raw[i:i + size], "little") for i in range(0, len(raw), size)]


def cmp_table(ctx, rule, name, got, want, where):
    n = min(len(got), len(want))
    mism = [(i, got[i], want[i]) for i in range(n) if got[i] != want[i]]
    ok = len(got) == len(want) and not mism
    ctx.ob(rule, f"table:{name}", ok, where, f"{name}: {len(got)} entries compared with the oracle ({len(want)}), {len(mism)} mismatches" + (f", first at index {mism[0][0]}: {mism[0][1]:#x} != {mism[0][2]:#x}" if mism else ""), detail={"entries": len(got)})
    ctx.counts[name] = len(got)


def signed(v, bits):
    return v - (1 << bits) if v >= 1 << (bits - 1) else v


def r07_1(ctx):
    prog = ctx.prog()
    where = "sonic-number/src"
    c = prog.const("sonic_number::POW10_UINT")
    cmp_table(ctx, "R07.1", "POW10_UINT", words(bytes.fromhex(c["bytes"]), 8), oracles.pow10_uint(18), c["file"])
    c = prog.const("sonic_number::POW10_FLOAT")
    cmp_table(ctx, "R07.1", "POW10_FLOAT", words(bytes.fromhex(c["bytes"]), 8), oracles.pow10_f64_bits(23), c["file"])
    c = prog.const("table::POWER_OF_FIVE_128")
    raw = bytes.fromhex(c["bytes"])
    el = c["elem"]
    offs = [int(x) for x in el["offsets"]]
    got = []
    for i in range(len(raw) // int(el["size"])):
        e = raw[i * 16:(i + 1) * 16]
        got.append((int.from_bytes(e[offs[0]:offs[0] + 8], "little"), int.from_bytes(e[offs[1]:offs[1] + 8], "little")))
    lo = signed(prog.const_int("table::SMALLEST_POWER_OF_FIVE"), 32)
    hi = signed(prog.const_int("table::LARGEST_POWER_OF_FIVE"), 32)
    n = prog.const_int("table::N_POWERS_OF_FIVE")
    ctx.ob("R07.1", "const:POWER_OF_FIVE range", (lo, hi, n) == (-342, 308, 651), c["file"], f"SMALLEST/LARGEST_POWER_OF_FIVE = {lo}/{hi}, N = {n} (expected -342/308/651 = hi-lo+1)")
    want = oracles.power_of_five_128(-342, 308)
    mism = [i for i in range(min(len(got), len(want))) if got[i] != want[i]]
    ctx.ob("R07.1", "table:POWER_OF_FIVE_128", len(got) == len(want) and not mism, c["file"], f"POWER_OF_FIVE_128: {len(got)} (hi,lo) pairs compared with the Eisel-Lemire generator, {len(mism)} mismatches" + (f", first at q={mism[0] - 342}" if mism else ""))
    # dec2flt left-shift tables
    t = prog.const("number_of_digits_decimal_left_shift::TABLE")
    tp = prog.const("number_of_digits_decimal_left_shift::TABLE_POW5")
    wt, wp, end = oracles.decimal_left_shift_tables(60, 65)
    cmp_table(ctx, "R07.1", "decimal::TABLE", words(bytes.fromhex(t["bytes"]), 2), wt, t["file"])
    gp = list(bytes.fromhex(tp["bytes"]))
    cmp_table(ctx, "R07.1", "decimal::TABLE_POW5", gp, wp + [0] * (len(gp) - len(wp)) if len(gp) >= len(wp) else wp, tp["file"])
    p = prog.const("parse_long_mantissa::POWERS")
    cmp_table(ctx, "R07.1", "slow::POWERS", list(bytes.fromhex(p["bytes"])), oracles.slow_powers(19), p["file"])
    npw = prog.const("parse_long_mantissa::NUM_POWERS", required=False)   # a separate length constant, if there is one, is the table's length
    n_powers = len(bytes.fromhex(p["bytes"]))
    ctx.ob("R07.1", "const:slow::MAX_SHIFT", prog.const_int("parse_long_mantissa::MAX_SHIFT") == 60 and (npw is None or int(npw["int"]) == n_powers), p["file"],
           f"MAX_SHIFT = 60 (largest shift the left-shift table supports), POWERS has {n_powers} entries" + (f", NUM_POWERS = {npw['int']}" if npw else " (no separate length constant)"))
    # pow10 fast path tables of RawFloat
    t64 = prog.const("<f64 as float::RawFloat>::pow10_fast_path::TABLE")
    w = oracles.pow10_f64_bits(23)
    g = words(bytes.fromhex(t64["bytes"]), 8)
    cmp_table(ctx, "R07.1", "f64::pow10_fast_path", g, w + [0] * (len(g) - len(w)), t64["file"])
    t32 = prog.const("<f32 as float::RawFloat>::pow10_fast_path::TABLE")
    g = words(bytes.fromhex(t32["bytes"]), 4)
    w = [oracles.f32_bits(float(10 ** i)) for i in range(11)]
    cmp_table(ctx, "R07.1", "f32::pow10_fast_path", g, w + [0] * (len(g) - len(w)), t32["file"])
    # RawFloat constants
    for ty, mant, expb, bits in (("f64", 52, 11, 64), ("f32", 23, 8, 32)):
        want = oracles.rawfloat_consts(mant, expb)
        for name, wv in want.items():
            c = prog.const(f"<{ty} as float::RawFloat>::{name}")
            cbits = int(c["size"]) * 8
            gv = int(c["int"])
            if c["ty"].startswith("i"):
                gv = signed(gv, cbits)
            ctx.ob("R07.1", f"const:{ty}::{name}", gv == wv, c["file"], f"{ty}::{name} = {gv}, derived value {wv}")
    # lib.rs f64 layout constants
    for name, wv in (("F64_BITS", 64), ("F64_SIG_BITS", 52), ("F64_SIG_FULL_BITS", 53), ("F64_EXP_BIAS", 1023), ("F64_SIG_MASK", (1 << 52) - 1), ("FLOATING_LONGEST_DIGITS", 17)):
        c = prog.const(f"sonic_number::{name}")
        ctx.ob("R07.1", f"const:{name}", int(c["int"]) == wv, c["file"], f"{name} = {c['int']}, IEEE-754 binary64 value {wv}")


def _ctrl_dep_params(fn, blocks, deps):
    out = set()
    # control dependence is taken transitively (a nested `if` depends on the outer tests too)
    todo = list(blocks)
    seen = set()
    while todo:
        b = todo.pop()
        if b in seen:
            continue
        seen.add(b)
        for (sb, succ) in deps.get(b, ()):
            todo.append(sb)
    direct = set(blocks)
    for b in seen:
        for (sb, succ) in deps.get(b, ()):
            if b not in direct:
                succ = ("indirect", succ)
            t = fn.blocks[sb]["term"]
            dl = op_local(t["discr"]) if t["k"] == "switch" else None
            if dl is not None:
                sl, leaves = backward_slice(fn, [dl])
                for lf in leaves:
                    if lf[0] == "param":
                        out.add((lf[1], sb, succ))
    return out


def sign_param(prog, fn):
    """the sign parameter by role: parse_number's only bool parameter; for parse_float the parameter that
    receives it at the call from parse_number"""
    pn = prog.fns.get("sonic_number::parse_number")
    if pn is None:
        return None
    bools = [i for i in range(1, pn.argc + 1) if pn.locals[i]["ty"] == "bool"]
    if len(bools) != 1:
        return None
    if fn.id == pn.id:
        return bools[0]
    for b, t in pn.calls():
        if t.get("callee") == fn.id:
            for i, a in enumerate(t["args"]):
                l = op_local(a)
                if l is not None and pn.src(l) == ("param", bools[0]):
                    return i + 1
    return None


def r07_3(ctx):
    prog = ctx.prog()
    n = 0
    for fname in ("sonic_number::parse_number", "sonic_number::parse_float"):
        fn = prog.fns.get(fname)
        if fn is None:
            ctx.fail_closed("R07.3", fname)
            continue
        neg = sign_param(prog, fn)
        if neg is None:
            ctx.fail_closed("R07.3", f"{fname}: sign parameter")
            continue
        deps = control_deps(fn)
        k = 0
        for b, i, s in fn.assigns():
            rv = s["rv"]
            if not (rv["k"] == "agg" and rv.get("variant") == "Float" and "ParserNumber" in rv.get("adt", "")):
                continue
            n += 1
            k += 1
            o = rv["f"][0]
            key = f"{short(fn.id)}:Float#{k}"
            if o["k"] == "const":
                bits = op_int(o)
                cd = _ctrl_dep_params(fn, [b], deps)
                on_neg = sorted({sb for (p, sb, succ) in cd if p == neg})
                ok = False
                why = f"constant float result {struct.unpack('<d', struct.pack('<Q', bits))[0]!r} does not depend on `negative`: -x and x parse alike"
                for sb in on_neg:
                    t = fn.blocks[sb]["term"]
                    # the edge of the test on `negative` that leads here
                    takes = [(None if v is None else v, tgt) for v, tgt in ([(int(v), tg) for v, tg in t["targets"]] + [(None, t["otherwise"])]) if b in fn.reachable_from(tgt)]
                    if len(takes) != 1:
                        continue
                    is_true_edge = takes[0][0] != 0
                    # a negated test flips the meaning
                    dl = op_local(t["discr"])
                    sl2, _ = backward_slice(fn, [dl])
                    negs = sum(1 for x in sl2 | {dl} for d in fn.defs.get(x, []) if d[0] == "stmt" and d[3]["rv"]["k"] == "unop" and d[3]["rv"]["op"] == "Not")
                    if negs % 2:
                        is_true_edge = not is_true_edge
                    sign = (bits >> 63) & 1
                    if bool(sign) == is_true_edge:
                        ok = True
                        why = f"constant float result with sign bit {sign} on the `negative == {str(is_true_edge).lower()}` edge"
                    else:
                        why = f"constant float result with sign bit {sign} on the `negative == {str(is_true_edge).lower()}` edge: wrong sign"
                ctx.ob("R07.3", key, ok, fn.loc(s["ln"]), why)
                continue
            l = op_local(o)
            sl, leaves = backward_slice(fn, [l]) if l is not None else (set(), [])
            data = ("param", neg) in leaves
            blocks = {b}
            for x in sl:
                for d in fn.defs.get(x, []):
                    blocks.add(d[1])
            ctrl = any(p == neg for (p, sb, succ) in _ctrl_dep_params(fn, blocks, deps))
            ctx.ob("R07.3", key, data or ctrl, fn.loc(s["ln"]),
                   "float result depends on `negative` (" + ("data" if data else "control") + " dependence)" if (data or ctrl) else "float result does not depend on the sign parameter `negative`: the literal and its negation parse alike")
    ctx.floor("R07.3", "ParserNumber::Float constructions in parse_number/parse_float", n, 9)
    # signed integer results: Signed(x) must depend on negative as well
    fn = prog.fns.get("sonic_number::parse_number")
    if fn:
        deps = control_deps(fn)
        neg = sign_param(prog, fn)
        for b, i, s in fn.assigns():
            rv = s["rv"]
            if rv["k"] == "agg" and rv.get("variant") in ("Signed", "Unsigned") and "ParserNumber" in rv.get("adt", ""):
                cd = _ctrl_dep_params(fn, [b], deps)
                ok = any(p == neg for (p, sb, succ) in cd)
                ctx.ob("R07.3", f"parse_number:{rv['variant']}@{'neg' if ok else 'any'}:{len([1 for o in ctx.obligations if o['rule'] == 'R07.3'])}", ok, fn.loc(s["ln"]),
                       f"integer classification {rv['variant']} is chosen under a test of `negative`" if ok else f"{rv['variant']} result is produced without testing `negative`")


def r07_4(ctx):
    prog = ctx.prog()
    fn = prog.fns.get("sonic_number::parse_float")
    if fn is None:
        ctx.fail_closed("R07.4", "sonic_number::parse_float")
        return
    n = 0
    for b, i, s in fn.assigns():
        rv = s["rv"]
        if not (rv["k"] == "agg" and rv.get("variant") == "Float" and "ParserNumber" in rv.get("adt", "")):
            continue
        l = op_local(rv["f"][0])
        if l is None:
            continue
        sl, leaves = backward_slice(fn, [l])
        unbounded = [lf[2] for lf in leaves if lf[0] == "call" and callee_is(lf[2], "compute_float", "parse_long_mantissa", "biased_fp_to_float")]
        if not unbounded:
            ctx.ob("R07.4", f"parse_float:bounded#{n}", True, fn.loc(s["ln"]), "float built by a range-guarded fast path (operands bounded by the guards of that path)", nontrivial=False)
            n += 1
            continue
        n += 1
        ok = False
        for gb, gt in fn.calls():
            nm = gt["callee"].rsplit("::", 1)[-1]
            if nm in ("is_infinite", "is_finite") and fn.dominates(gb, b):
                a = op_local(gt["args"][0])
                if a is None:
                    continue
                sa_, _ = backward_slice(fn, [a])
                if not (sa_ & sl):
                    continue
                e = bool_switch_edges(fn, gt["dest"][0])
                if not e:
                    continue
                inf_edge = e[0] if nm == "is_infinite" else e[1]
                fin_edge = e[1] if nm == "is_infinite" else e[0]
                if b in fn.reachable_from(fin_edge) and b not in fn.reachable_from(inf_edge, avoid={fin_edge}):
                    ok = True
        ctx.ob("R07.4", "parse_float:finite-check", ok, fn.loc(s["ln"]),
               "the float assembled from the Eisel-Lemire / long-mantissa result is returned only on the finite edge of an infinity test" if ok else
               "a float assembled from the Eisel-Lemire / long-mantissa result (which can be infinite) is returned without an infinity test")
    ctx.floor("R07.4", "float returns of parse_float", n, 3)


def r07_5(ctx):
    """no narrowing / float->int casts in the typed number entry points"""
    prog = ctx.prog()
    targets = [f for f in prog.fns.values() if f.crate == "sonic_rs" and (f.name in ("visit_number", "deserialize_number") or (f.name.startswith("deserialize_") and f.name[12:] in ("i8", "i16", "i32", "i64", "u8", "u16", "u32", "u64", "f32", "f64", "i128", "u128") and (f.self_adt or "").endswith("de::Deserializer")))]
    ctx.floor("R07.5", "typed number entry points", len(targets), 10)
    width = {"u8": 8, "i8": 8, "u16": 16, "i16": 16, "u32": 32, "i32": 32, "u64": 64, "i64": 64, "usize": 64, "isize": 64, "u128": 128, "i128": 128}
    for f in targets:
        bad = []
        for b, i, s in f.assigns():
            rv = s["rv"]
            if rv["k"] == "cast" and rv["ck"] in ("FloatToInt", "IntToInt") and not s.get("mac"):
                p = op_place(rv["op"])
                src_ty = f.locals[p[0]]["ty"] if p and not p[1] else None
                if rv["ck"] == "FloatToInt":
                    bad.append(f"float->int cast to {rv['ty']}")
                elif src_ty in width and rv["ty"] in width and width[rv["ty"]] < width[src_ty]:
                    # discriminant reads (isize) and bounds arithmetic are not value conversions
                    if src_ty in ("isize",) or rv["ty"] in ("usize", "isize"):
                        continue
                    bad.append(f"narrowing cast {src_ty} -> {rv['ty']}")
        ctx.ob("R07.5", f"{short(f.id)}", not bad, f.loc(), "no narrowing or float->int cast on the parsed number" if not bad else f"typed number entry point truncates: {bad}")
    # positive control: the cast detector sees the known casts in parse_number
    pn = prog.fns.get("sonic_number::parse_number")
    casts = [s for b, i, s in pn.assigns() if s["rv"]["k"] == "cast" and s["rv"]["ck"] in ("IntToFloat", "IntToInt")] if pn else []
    ctx.ob("R07.5", "positive-control:casts-seen", len(casts) >= 3, pn.loc() if pn else "", f"{len(casts)} integer casts seen in parse_number (detector works)", nontrivial=False)


def r07_6(ctx, config="native"):
    """x86 simd_str2int multiplier words = the decimal weights 10, 100, 10^4 (and 10^8 in the scalar tail)"""
    prog = ctx.prog(config)
    fn = prog.fns.get("sonic_number::arch::simd_str2int")
    if fn is None:
        cands = [f for f in prog.fns.values() if f.name == "simd_str2int"]
        fn = cands[0] if cands else None
    if fn is None:
        ctx.fail_closed("R07.6", "simd_str2int")
        return
    if "x86" not in fn.file:
        ctx.ob("R07.6", "portable", True, fn.loc(), "portable simd_str2int in this configuration (checked under C17)", nontrivial=False)
        return
    set1 = []
    set16 = []
    consts = set()
    for b, t in fn.calls():
        nm = t["callee"].rsplit("::", 1)[-1]
        if nm == "_mm_set1_epi64x":
            set1.append(op_int(t["args"][0]))
        if nm == "_mm_set_epi16":
            set16.append(tuple(op_int(a) for a in t["args"]))
    for b, s, o in fn.const_operands():
        v = op_int(o)
        if v is not None:
            consts.add(v)
    w1 = 0x010A010A010A010A  # maddubs: pairs (d0*10 + d1*1)
    w2 = 0x0001006400010064  # madd: (x0*100 + x1*1)
    ctx.ob("R07.6", "packadd_1", set1.count(w1) >= 1 and all(v in (w1, w2) for v in set1), fn.loc(), f"_mm_set1_epi64x words {sorted({hex(v) for v in set1 if v is not None})}: byte weights (10,1) and word weights (100,1)")
    ctx.ob("R07.6", "packadd_2", set1.count(w2) >= 1, fn.loc(), "word weights (100,1) present")
    ok4 = bool(set16) and all(t == (0, 0, 0, 0, 1, 10000, 1, 10000) for t in set16)
    ctx.ob("R07.6", "packadd_4", ok4, fn.loc(), f"_mm_set_epi16 weights {sorted(set(set16))}: (10000,1) pairs in the low half")
    ctx.ob("R07.6", "tail-weights", 100000000 in consts and 10000 in consts, fn.loc(), "scalar recombination uses 10^8 and 10^4")


def _cval(prog, fn, o, ty="f64"):
    """signed value of a constant operand; generic RawFloat constants are taken for `ty`"""
    if o["k"] != "const":
        l = op_local(o)
        if l is None:
            return None
        sc = fn.src(l)
        if sc[0] != "const":
            return None
        o = sc[1]
    if "int" in o:
        bits = int(o.get("size", 4)) * 8
        v = int(o["int"])
        return signed(v, bits) if o.get("ty", "").startswith("i") else v
    d = o.get("def", "")
    if "RawFloat::" in d:
        name = d.rsplit("::", 1)[-1]
        c = prog.const(f"<{ty} as float::RawFloat>::{name}", required=False)
        if c and "int" in c:
            bits = int(c["size"]) * 8
            return signed(int(c["int"]), bits) if c["ty"].startswith("i") else int(c["int"])
    return None


def _shortcuts(prog, fn, var_pred):
    """comparisons `x op C` (x selected by var_pred) that guard a constant zero / infinity result.
    yields (kind 'zero'|'inf', lower bound or None, upper bound or None, line): the set of x short-cut"""
    out = []
    # which locals hold the zero / infinity result
    kinds = {}
    for b, t in fn.calls():
        if callee_is(t, "zero_pow2"):
            a = t["args"][0]
            v = _cval(prog, fn, a)
            d = a.get("def", "") if a["k"] == "const" else ""
            if v == 0:
                kinds[t["dest"][0]] = "zero"
            elif d.endswith("INFINITE_POWER") or (v is not None and v > 0):
                kinds[t["dest"][0]] = "inf"
    for b, i, s in fn.assigns():
        rv = s["rv"]
        if rv["k"] != "binop" or rv["op"] not in ("Lt", "Le", "Gt", "Ge"):
            continue
        for x, c, flip in ((rv["a"], rv["b"], False), (rv["b"], rv["a"], True)):
            cv = _cval(prog, fn, c)
            if cv is None or not var_pred(fn, x):
                continue
            op = rv["op"]
            if flip:
                op = {"Lt": "Gt", "Le": "Ge", "Gt": "Lt", "Ge": "Le"}[op]
            e = bool_switch_edges(fn, s["lhs"][0])
            if not e:
                continue
            t_t = e[0]
            # what is returned right on the true edge (before any other test)
            ret = None
            for bb in sorted(fn.reachable_from(t_t, avoid={e[1]})):
                for st in fn.blocks[bb]["stmts"]:
                    if st["k"] == "assign" and st["lhs"] == [0, []] and st["rv"]["k"] == "use":
                        l = op_local(st["rv"]["op"])
                        sl = {l} | backward_slice(fn, [l])[0] if l is not None else set()
                        for kl, kk in kinds.items():
                            if kl in sl:
                                ret = kk
                if ret:
                    break
                if len(fn.succs(bb)) > 1:
                    break
            if ret is None:
                continue
            lo = hi = None
            if op == "Lt":
                hi = cv - 1
            elif op == "Le":
                hi = cv
            elif op == "Gt":
                lo = cv + 1
            elif op == "Ge":
                lo = cv
            out.append((ret, lo, hi, s["ln"]))
    return out


def r07_7(ctx):
    """short-circuits to 0 / infinity are taken only where the value really is 0 / infinite as f64:
    a decimal 0.ddd x 10^dp is zero only for dp <= -324 and infinite only for dp >= 310; w x 10^q with
    w < 2^64 is zero only for q <= -343 and infinite only for q >= 309"""
    prog = ctx.prog()
    f = prog.fns.get("sonic_number::slow::parse_long_mantissa")
    g = prog.fns.get("sonic_number::lemire::compute_float")
    if f is None or g is None:
        ctx.fail_closed("R07.7", "parse_long_mantissa / compute_float")
        return
    def is_dp(fn, o):
        p = op_place(o)
        if p is None:
            return False
        names = [e[2] for e in p[1] if isinstance(e, list) and e[0] == "."]
        if names and names[-1] == "decimal_point":
            return True
        if not p[1]:
            sc = fn.src(p[0])
            return sc[0] == "place" and [e[2] for e in sc[1][1] if isinstance(e, list) and e[0] == "."][-1:] == ["decimal_point"]
        return False
    def is_q(fn, o):
        l = op_local(o)
        return l is not None and fn.src(l) == ("param", 1)
    lims = {"slow": (f, is_dp, -324, 310), "lemire": (g, is_q, -343, 309)}
    for name, (fn, pred, zmax, imin) in lims.items():
        sc = _shortcuts(prog, fn, pred)
        zs = [x for x in sc if x[0] == "zero"]
        inf = [x for x in sc if x[0] == "inf"]
        ctx.ob("R07.7", f"{name}:shortcuts-found", bool(zs) and bool(inf), fn.loc(), f"{len(zs)} zero and {len(inf)} infinity short-circuit(s) on the decimal exponent", nontrivial=False)
        for kind, lo, hi, ln in zs:
            ok = hi is not None and hi <= zmax and lo is None
            ctx.ob("R07.7", f"{name}:zero-shortcut@{hi}", ok, fn.loc(ln), f"result 0 is returned for exponent <= {hi}; mathematically safe for <= {zmax}" + ("" if ok else ": subnormal values are flushed to zero"))
        for kind, lo, hi, ln in inf:
            ok = lo is not None and lo >= imin and hi is None
            ctx.ob("R07.7", f"{name}:inf-shortcut@{lo}", ok, fn.loc(ln), f"infinity is returned for exponent >= {lo}; mathematically safe for >= {imin}" + ("" if ok else ": finite values up to f64::MAX are reported as infinite (rejected)"))


def _exp_interval(fn, call_block, exp_param):
    """interval of the decimal exponent parameter on every path to call_block, from the dominating
    comparisons of (a copy of) the parameter with constants and Range::contains(&exp)"""
    lo, hi = None, None
    prog_consts = []
    for b, i, s in fn.assigns():
        rv = s["rv"]
        if rv["k"] != "binop" or rv["op"] not in ("Lt", "Le", "Gt", "Ge") or not fn.dominates(b, call_block):
            continue
        for x, c, flip in ((rv["a"], rv["b"], False), (rv["b"], rv["a"], True)):
            l = op_local(x)
            if l is None or fn.src(l) != ("param", exp_param):
                continue
            cv = _cval(None, fn, c) if c["k"] == "const" and "int" in c else None
            if cv is None and op_local(c) is not None:
                # constant folded through arithmetic on literals: evaluate
                from ..analysis import affine_of
                af = affine_of(fn, c)
                if af and af[0] == 0:
                    cv = af[1]
                    if cv >= 1 << 31:
                        cv -= 1 << 32
            if cv is None:
                continue
            op = rv["op"]
            if flip:
                op = {"Lt": "Gt", "Le": "Ge", "Gt": "Lt", "Ge": "Le"}[op]
            e = bool_switch_edges(fn, s["lhs"][0])
            if not e:
                continue
            on_true = call_block in fn.reachable_from(e[0]) and call_block not in fn.reachable_from(e[1], avoid={e[0]})
            on_false = call_block in fn.reachable_from(e[1]) and call_block not in fn.reachable_from(e[0], avoid={e[1]})
            if on_false:
                op = {"Lt": "Ge", "Le": "Gt", "Gt": "Le", "Ge": "Lt"}[op]
            elif not on_true:
                continue
            if op == "Lt":
                hi = cv - 1 if hi is None else min(hi, cv - 1)
            elif op == "Le":
                hi = cv if hi is None else min(hi, cv)
            elif op == "Gt":
                lo = cv + 1 if lo is None else max(lo, cv + 1)
            elif op == "Ge":
                lo = cv if lo is None else max(lo, cv)
    # RangeInclusive::contains(&range_const, &exp)
    for b, t in fn.calls():
        if callee_is(t, "contains") and fn.dominates(b, call_block) and "Range" in t["callee"]:
            a1 = op_local(t["args"][1]) if len(t["args"]) > 1 else None
            if a1 is None:
                continue
            sl, leaves = backward_slice(fn, [a1])
            if ("param", exp_param) not in leaves:
                continue
            e = bool_switch_edges(fn, t["dest"][0])
            if not e or not (call_block in fn.reachable_from(e[0]) and call_block not in fn.reachable_from(e[1], avoid={e[0]})):
                continue
            r0 = op_local(t["args"][0])
            rsl, rleaves = backward_slice(fn, [r0]) if r0 is not None else (set(), [])
            vals = []
            incl = "RangeInclusive" in t["callee"]
            for lf in rleaves:
                if lf[0] == "const":
                    if "int" in lf[1]:
                        vals.append(_cval(None, fn, lf[1]))
                    elif lf[1].get("bytes"):
                        raw = bytes.fromhex(lf[1]["bytes"])
                        if len(raw) in (8, 12):
                            vals += [int.from_bytes(raw[0:4], "little", signed=True), int.from_bytes(raw[4:8], "little", signed=True)]
            vals = [v for v in vals if v is not None]
            if len(vals) >= 2:
                a, bb_ = min(vals), max(vals)
                lo = a if lo is None else max(lo, a)
                hh = bb_ if incl else bb_ - 1
                hi = hh if hi is None else min(hi, hh)
    return lo, hi


def r07_8(ctx):
    """range guards of the two float fast paths that build a result without a subnormal / overflow step:
    parse_floating_normal_fast(exp, sig) assembles IEEE bits directly and is correct only for a normal,
    finite result: with sig < 2^64 that needs -307 <= exp <= 288; parse_float_fast multiplies or divides by an
    exact power of ten and needs -22 <= exp <= 37 (and sig < 2^53)"""
    prog = ctx.prog()
    f = prog.fns.get("sonic_number::parse_float")
    if f is None:
        ctx.fail_closed("R07.8", "sonic_number::parse_float")
        return
    expp = None
    for i in range(1, f.argc + 1):
        if f.locals[i]["ty"] == "i32":
            expp = i
    if expp is None:
        ctx.fail_closed("R07.8", "parse_float: exponent parameter")
        return
    for callee, lo_min, hi_max, why in (("parse_floating_normal_fast", -307, 288, "sig x 10^exp with sig < 2^64 is a normal finite f64"),
                                          ("parse_float_fast", -22, 37, "10^|exp| (resp. the split 10^(exp-22) x 10^22) is exact in f64")):
        cs = [(b, t) for b, t in f.calls() if callee_is(t, callee)]
        if len(cs) != 1:
            ctx.ob("R07.8", f"{callee}:call", False, f.loc(), f"expected one call of {callee} in parse_float (fail closed)")
            continue
        lo, hi = _exp_interval(f, cs[0][0], expp)
        ok = lo is not None and hi is not None and lo >= lo_min and hi <= hi_max
        ctx.ob("R07.8", f"{callee}:exponent-range", ok, f.loc(cs[0][1]["ln"]),
               f"{callee} is reached only for {lo} <= exp <= {hi}; safe range [{lo_min}, {hi_max}] ({why})" if ok else
               f"{callee} is reached for exp in [{lo}, {hi}], outside the safe range [{lo_min}, {hi_max}] ({why}): infinite / NaN / denormal bit patterns are returned as Ok")


def r07_6b(ctx, config="native"):
    """x86 simd_str2int: the vector expression whose movemask marks the end of the digit run is evaluated
    for all 256 byte values: a lane is marked iff its byte is not an ASCII digit"""
    prog = ctx.prog(config)
    from ..lanes import Lanes, Unsupported, ev
    cands = [f for f in prog.fns.values() if f.name == "simd_str2int"]
    if not cands:
        ctx.fail_closed("R07.6b", "simd_str2int")
        return
    f = cands[0]
    if "x86" not in f.file:
        ctx.ob("R07.6b", "portable", True, f.loc(), "portable simd_str2int in this configuration: digits are recognised with is_ascii_digit", nontrivial=False)
        return
    mm = [(b, t) for b, t in f.calls() if t["callee"].rsplit("::", 1)[-1] == "_mm_movemask_epi8"]
    if len(mm) != 1:
        ctx.ob("R07.6b", "end-mask", False, f.loc(), "expected one movemask marking the end of the digits (fail closed)")
        return
    L = Lanes(prog)
    try:
        e = L._expr_of_operand(f, mm[0][1]["args"][0], 0, set(), mm[0][0])
        bad = []
        for v in range(256):
            got = ev(e, v, 0)
            if bool(got) != (not (48 <= v <= 57)):
                bad.append(v)
        ctx.ob("R07.6b", "end-mask", not bad, f.loc(mm[0][1]["ln"]),
               "the end-of-digits lane mask, evaluated for all 256 byte values, marks exactly the non-digits" if not bad else
               f"the end-of-digits lane mask treats bytes {[hex(v) for v in bad[:6]]} wrongly: e.g. a byte after the digits is consumed as a digit on this backend only")
    except Unsupported as ex:
        ctx.ob("R07.6b", "end-mask", False, f.loc(), f"digit classifier not recognised: {ex} (fail closed)")


def r07_9(ctx):
    """the rounding window of the 64x64-bit fast path (parse_floating_normal_fast, after yyjson): with K = 64 - 53 bits
    dropped at the end, the rounding bit is 1 << (K-1), the single product is accepted as exact only when the K-2 bits below
    the rounding bit of the not-yet-normalised product are neither all zeros nor all ones (mask (1 << (K-2)) - 1, accepted
    range 1 ..= mask - 1), and the carry test after rounding uses the rounding bit again"""
    from ..intervals import Intervals
    prog = ctx.prog()
    f = prog.find("sonic_number::parse_floating_normal_fast")
    iv = Intervals(f)

    def exact(b, i, o):
        v = iv.operand_at_stmt(b, i, o)
        return v[0] if v and v[0] == v[1] else None

    ands = []
    for b, i, s in f.assigns():
        rv = s["rv"]
        if rv["k"] == "binop" and rv["op"] == "BitAnd" and rv["a"]["k"] != "const":
            v = exact(b, i, rv["b"])
            if v is not None:
                ands.append((b, i, s, v))
    # M: the mask whose result decides whether the single product is exact.  Two spellings of the same test:
    #   range trick  bits.wrapping_sub(1) < T          (exact iff 1 <= bits <= T)
    #   explicit     bits == c1 || bits == c2          (ambiguous iff bits is one of the constants)
    M = T = R = K = Rc = None
    AMB = None
    ws = [(b, t) for b, t in f.calls() if callee_is(t, "wrapping_sub") and op_int(t["args"][1]) == 1]
    for b, t in ws:
        a = op_local(t["args"][0])
        sl, leaves = backward_slice(f, [a]) if a is not None else (set(), [])
        for ab, ai, as_, v in ands:
            if as_["lhs"][0] in sl | {a}:
                M = v
        for cb, ci, cs in f.assigns():
            rv = cs["rv"]
            if rv["k"] == "binop" and rv["op"] == "Lt" and op_local(rv["a"]) is not None and f.src(op_local(rv["a"])) == ("call", b, t):
                T = exact(cb, ci, rv["b"])
    if M is None:
        eqs = collections.defaultdict(set)
        for cb, ci, cs in f.assigns():
            rv = cs["rv"]
            if rv["k"] == "binop" and rv["op"] in ("Eq", "Ne"):
                for x, y in ((rv["a"], rv["b"]), (rv["b"], rv["a"])):
                    lx = op_local(x)
                    c = exact(cb, ci, y)
                    if lx is None or c is None:
                        continue
                    chain = {lx}
                    cur = lx
                    for _ in range(6):      # the compared value is the masked word itself (or a copy of it)
                        d = f.single_def(cur)
                        if d and d[0] == "stmt" and d[3]["rv"]["k"] == "use" and op_local(d[3]["rv"]["op"]) is not None:
                            cur = op_local(d[3]["rv"]["op"])
                            chain.add(cur)
                        else:
                            break
                    for ab, ai, as_, v in ands:
                        if as_["lhs"][0] in chain:
                            eqs[v].add(c)
        cands = [v for v, cset in eqs.items() if len(cset) >= 2]
        if len(cands) == 1:
            M, AMB = cands[0], eqs[cands[0]]
    # R: the mask that isolates the rounding bit: its result is compared with 0, or added to the word directly
    for ab, ai, as_, v in ands:
        if v == M or v & (v - 1) != 0:
            continue
        for cb, ci, cs in f.assigns():
            rv = cs["rv"]
            if rv["k"] == "binop" and rv["op"] in ("Gt", "Ne") and op_int(rv["b"]) == 0 and op_local(rv["a"]) is not None:
                sl, leaves = backward_slice(f, [op_local(rv["a"])])
                if as_["lhs"][0] in sl:
                    R = v
        for cb, ct in f.calls():
            if callee_is(ct, "wrapping_add") and any(op_local(a) is not None and as_["lhs"][0] in (backward_slice(f, [op_local(a)], through_calls=False)[0] | {op_local(a)}) for a in ct["args"]):
                R = v
    # K: the final right shift of the product's high word by a computed amount
    shr = [(b, i, s) for b, i, s in f.assigns() if s["rv"]["k"] == "binop" and s["rv"]["op"] == "Shr" and s["rv"]["b"]["k"] != "const"]
    for b, i, s in shr:
        v = exact(b, i, s["rv"]["b"])
        if v is not None:
            K = v
    # Rc: the carry test `hi < 1 << (K-1)` after rounding: an Lt against an exact power of two other than 2^63
    for b, i, s in f.assigns():
        rv = s["rv"]
        if rv["k"] == "binop" and rv["op"] == "Lt" and op_local(rv["a"]) is not None and f.locals[op_local(rv["a"])]["ty"] == "u64":
            v = exact(b, i, rv["b"])
            # the word compared is the product's high word after the rounding addition
            after_round = any(lf[0] == "call" and callee_is(lf[2], "wrapping_add") for lf in backward_slice(f, [op_local(rv["a"])], through_calls=False)[1])
            if v is not None and v & (v - 1) == 0 and v not in (1 << 63,) and v > 2 and v != T and after_round:
                Rc = v
    found = all(x is not None for x in (M, R, K, Rc)) and (T is not None or AMB is not None)
    ctx.ob("R07.9", "window:anchors", found, f.loc(), f"sticky mask {M}, accepted upper bound {T} / ambiguous patterns {sorted(AMB) if AMB else None}, rounding bit {R}, carry test {Rc}, final shift {K}")
    if not found:
        return
    ctx.ob("R07.9", "window:final-shift", K == 64 - 53, f.loc(), f"the final shift drops {K} bits (64 - 53 significand bits)")
    ctx.ob("R07.9", "window:rounding-bit", R == 1 << (K - 1) and Rc == R, f.loc(), f"rounding bit {R} = 1 << (K-1); the carry test after rounding compares with {Rc}")
    ctx.ob("R07.9", "window:sticky-mask", M == (1 << (K - 2)) - 1, f.loc(),
           f"sticky mask {M}: the {K - 2} bits that lie below the rounding bit whether or not the product still needs its one-bit normalisation" if M == (1 << (K - 2)) - 1 else
           f"sticky mask {M} is not (1 << (K-2)) - 1 = {(1 << (K - 2)) - 1}: it includes the rounding bit of an un-normalised product, so an inexact single product is accepted")
    if AMB is not None:
        okx = AMB == {0, M}
        ctx.ob("R07.9", "window:excludes-all-ones", okx, f.loc(),
               f"the extended product is consulted when the masked bits are {sorted(AMB)}: all zeros and all ones" if okx else
               f"the extended product is consulted when the masked bits are {sorted(AMB)}, mask {M}: all zeros and all ones ({[0, M]}) are the patterns that leave the rounding undecided")
    else:
        ctx.ob("R07.9", "window:excludes-all-ones", T == M - 1, f.loc(),
               f"bits - 1 < {T}: accepts 1 ..= mask-1, i.e. neither all zeros nor all ones" if T == M - 1 else
               f"bits - 1 < {T} with mask {M}: the all-ones pattern (a pending carry from the low product) is accepted as exact")


MODULAR_AUDIT = {
    # (function, operation): (sites audited, why wrapping is right there)
    ("ByteSlice>::parse_digits", "wrapping_sub"): (1, "digit test c - b'0' < 10 on a byte"),
    # branch-free SWAR kernels (common::is_8digits) are outside this rule
    ("lemire::compute_product_approx", "wrapping_add"): (1, "low word of a 128-bit sum; the carry is recovered by the comparison that follows"),
    ("lemire::power", "wrapping_mul"): (1, "fixed-point log2(10) multiplication of a bounded exponent"),
    ("parse_floating_normal_fast", "wrapping_add"): (2, "low product sum with explicit carry test; rounding increment followed by the carry test"),
    ("parse_floating_normal_fast", "wrapping_sub"): (1, "range trick bits - 1 < limit"),
    # parse_number's 19-digit accumulator (wrapping_mul / wrapping_add) is not listed: its argument - the digit count is
    # tested after the loop and the accumulator re-computed - is checked structurally (_accumulator_resets)
    ("parse_number", "wrapping_sub"): (1, "0 - significant for a negative integer, after significant <= 2^63 was tested"),
    ("parse_number", "overflowing_mul"): (1, "20th digit: the overflow flag is tested"),
    ("parse_number", "overflowing_add"): (1, "20th digit: the overflow flag is tested"),
}


PLAIN_U64_AUDIT = {
    # plain (panicking in debug, wrapping in release) u64 `*` / `+` that the interval analysis cannot bound, per function of
    # the digit-accumulating front end: (sites audited, the argument that bounds them)
    ("parse_number", "Mul"): (1, "19-digit re-scan: digits_cnt < 19 keeps the value below 10^19"),
    ("parse_number", "Add"): (1, "19-digit re-scan (same)"),
    ("parse_number_fraction", "Mul"): (2, "at most FLOATING_LONGEST_DIGITS significant digits are accumulated"),
    ("parse_number_fraction", "Add"): (2, "at most FLOATING_LONGEST_DIGITS significant digits are accumulated"),
    ("parse_float", "Add"): (1, "significant + 1 of a value below 10^19"),
    ("parse_floating_normal_fast", "Add"): (2, "carry of the 128-bit product (after yyjson); lo + hi2 == 2^64 - 1 would be needed to overflow"),
}


def _accumulator_resets(f):
    """accumulator local -> blocks that reset it to 0 on the true edge of a `count > 19` test (the 19-digit re-scan: a u64
    holds every 19-digit number, so a wrapped accumulator implies count > 19 and is discarded there)"""
    out = {}
    for b, i, s in f.assigns():
        rv = s["rv"]
        if rv["k"] == "binop" and rv["op"] == "Gt" and op_int(rv["b"]) == 19:
            e = bool_switch_edges(f, s["lhs"][0])
            if not e:
                continue
            region = f.reachable_from(e[0], avoid={e[1]}) - f.reachable_from(e[1], avoid={e[0]})
            for bb, ii, ss in f.assigns():
                if bb in region and f.dominates(e[0], bb) and not ss["lhs"][1] and ss["rv"]["k"] == "use" and op_int(ss["rv"]["op"]) == 0 and ss["rv"]["op"].get("ty") == "u64":
                    out.setdefault(ss["lhs"][0], set()).add(bb)
    return out


def r07_10(ctx):
    """modular arithmetic in the number conversion is confined to the audited sites, and every overflow flag is consumed"""
    from ..intervals import Intervals, ty_range
    prog = ctx.prog()
    plain = collections.Counter()
    pwhere = {}
    for f in prog.fns.values():
        if f.crate != "sonic_number" or not re.match(r"^sonic_number::parse_\w+$", norm_path(f.id)):
            continue
        iv = None
        for b, i, s in f.assigns():
            rv = s["rv"]
            if rv["k"] == "binop" and rv["op"] in ("Mul", "Add", "MulWithOverflow", "AddWithOverflow"):
                iv = iv or Intervals(f)
                if (iv.op_ty(rv["a"]) or iv.op_ty(rv["b"])) != "u64":
                    continue
                st = iv.before_stmt(b, i)
                if st is None:
                    continue
                r, ov = iv.arith(rv["op"], iv.op_iv(st, rv["a"]), iv.op_iv(st, rv["b"]), ty_range("u64"))
                if ov:
                    k = (f.name, rv["op"][:3])
                    plain[k] += 1
                    pwhere.setdefault(k, f.loc(s.get("ln")))
    for k, c in sorted(plain.items()):
        allowed, why = PLAIN_U64_AUDIT.get(k, (0, ""))
        ctx.ob("R07.10", f"plain-u64-arithmetic:{k[0]}:{k[1]}", c <= allowed, pwhere[k],
               f"{c} site(s) the interval analysis cannot bound, audited {allowed}: {why}" if c <= allowed else
               f"{c} unbounded u64 {k[1]} site(s) in {k[0]}, {allowed} audited: the significand can overflow (panic with overflow checks, silent wrap-around without)")
    cnt = collections.Counter()
    discharged = collections.Counter()
    where = {}
    for f in prog.fns.values():
        if f.crate != "sonic_number":
            continue
        owner = prog.fns.get(f.parent_fn, f) if f.parent_fn else f
        # a branch-free leaf of pure word arithmetic (is_8digits and its kind) is a SWAR kernel: modular by design, not decided here
        kernel = not any(t["k"] == "switch" for b, t in f.terms()) and all("core::num" in t["callee"] for b, t in f.calls())
        resets = _accumulator_resets(f)
        for b, t in f.calls():
            nm = t["callee"].rsplit("::", 1)[-1]
            if nm.startswith(("wrapping_", "overflowing_", "unchecked_")) and "core::num" in t["callee"] and nm not in ("wrapping_shr", "wrapping_shl"):
                if kernel:
                    ctx.counts["modular sites in branch-free SWAR kernels (not decided)"] = ctx.counts.get("modular sites in branch-free SWAR kernels (not decided)", 0) + 1
                    continue
                key = (norm_path(owner.id).split("::", 1)[1], nm)
                cnt[key] += 1
                where.setdefault(key, f.loc(t["ln"]))
                # the accumulator argument, checked structurally: the wrapped value only goes into an accumulator that the
                # `count > 19` test (reachable from here, and not before here) throws away and re-computes
                if nm in ("wrapping_mul", "wrapping_add"):
                    der = forward_derived(f, {t["dest"][0]}) | {t["dest"][0]}
                    for _ in range(4):      # through the next steps of the same accumulation (x.wrapping_mul(10).wrapping_add(d))
                        for bb, tt in f.calls():
                            if "core::num" in tt["callee"] and tt["callee"].rsplit("::", 1)[-1] in ("wrapping_mul", "wrapping_add") and any(op_local(a) in der for a in tt["args"]):
                                der |= forward_derived(f, {tt["dest"][0]}) | {tt["dest"][0]}
                    for acc, rblocks in resets.items():
                        if acc in der and all(rb in f.reachable_from(b) and b not in f.reachable_from(rb) for rb in rblocks):
                            discharged[key] += 1
                            break
                if nm.startswith("overflowing_"):
                    # the flag (.1) must reach a branch
                    d = t["dest"][0]
                    flag_used = False
                    for bb, i, s in f.assigns():
                        for pl in rv_places(s["rv"]):
                            if pl[0] == d and [e[2] for e in pl[1] if isinstance(e, list) and e[0] == "."][:1] == ["1"]:
                                der = forward_derived(f, {s["lhs"][0]}) | {s["lhs"][0]}
                                for sb, st in f.terms():
                                    if st["k"] == "switch":
                                        dl = op_local(st["discr"])
                                        sl, leaves = backward_slice(f, [dl]) if dl is not None else (set(), [])
                                        if der & set(sl):
                                            flag_used = True
                    ctx.ob("R07.10", f"overflow-flag-tested:{key[0]}:{nm}#{cnt[key]}", flag_used, f.loc(t["ln"]), "the overflow flag of the operation decides a branch" if flag_used else "the overflow flag is dropped: the wrapped value is used as if exact")
    for key, c in sorted(cnt.items()):
        hit = [(k, v) for k, v in MODULAR_AUDIT.items() if key[0].endswith(k[0]) and key[1] == k[1]]
        allowed = hit[0][1][0] if hit else 0
        c -= discharged[key]
        ctx.ob("R07.10", f"modular-arithmetic:{key[0]}:{key[1]}", c <= allowed, where[key],
               (f"{c} site(s), audited {allowed}: {hit[0][1][1]}" if hit and c <= allowed else
                f"{c} site(s) of {key[1]} in {key[0]}, {allowed} audited: a value that wrapped modulo 2^64 is used in the conversion without an audited overflow argument"))
    ctx.floor("R07.10", "modular arithmetic sites in sonic_number", sum(cnt.values()), 8)


def _exp_cap(prog, fn):
    """the constant bound of the loop that accumulates a written exponent: `acc < C` on an i32 in a body (the function or
    one of its closures) that also multiplies an i32 by ten"""
    caps = []
    for g in prog.with_closures(fn):
        tens = False
        for b, i, s in g.assigns():
            rv = s["rv"]
            if rv["k"] == "binop" and rv["op"].startswith("Mul") and 10 in (op_int(rv["a"]), op_int(rv["b"])) and "i32" in (rv["a"].get("ty"), rv["b"].get("ty")):
                tens = True
        if not tens:
            continue
        for b, i, s in g.assigns():
            rv = s["rv"]
            if rv["k"] == "binop" and rv["op"] == "Lt" and rv["b"]["k"] == "const" and rv["b"].get("ty") == "i32" and op_int(rv["b"]) >= 100:
                caps.append((op_int(rv["b"]), s.get("ln")))
        for b, t in g.calls():
            if callee_is(t, "min") and len(t["args"]) > 1 and op_int(t["args"][1]) is not None and t["args"][1].get("ty") == "i32":
                caps.append((op_int(t["args"][1]), t.get("ln")))
    return caps


def r07_11(ctx):
    """sibling agreement of the two exponent scanners: the fast scanner keeps the written exponent exact as far as the
    slow-path (dec2flt) scanner does; the value is corrected by the mantissa digit count afterwards, so an early
    saturation changes the result of zero-padded literals"""
    prog = ctx.prog()
    fast = prog.find("sonic_number::parse_exponent")
    slow = prog.find("decimal::parse_decimal")
    cf, cs = _exp_cap(prog, fast), _exp_cap(prog, slow)
    ok = len(cf) == 1 and len(cs) == 1
    ctx.ob("R07.11", "exponent-cap:anchors", ok, fast.loc(), f"saturation bound of the fast scanner {cf}, of the slow-path scanner {cs}")
    if ok:
        ctx.ob("R07.11", "exponent-cap:fast>=slow", cf[0][0] >= cs[0][0], fast.loc(cf[0][1]),
               f"the fast scanner accumulates while exponent < {cf[0][0]}, the slow-path scanner while < {cs[0][0]}" + ("" if cf[0][0] >= cs[0][0] else
               ": literals whose padding needs a larger exponent are scaled wrongly on the fast path (1 followed by 12000 zeros and e-12000 is not 1.0)"))
        ctx.ob("R07.11", "exponent-cap:no-i32-overflow", cf[0][0] * 10 + 9 < 2 ** 31 - 2 ** 24, fast.loc(cf[0][1]), "the accumulated exponent and its digit-count correction stay inside i32")


def r07_12(ctx):
    """the truncation flag handed to parse_float is not lost: where parse_number replaces the flag by the result of a
    helper although a `true` recorded earlier (digits dropped from the 19-digit significand) can reach that point, the
    helper's flag must not depend on the VALUES of the digits it drops (then it is `true` whenever it dropped any, as the
    check_digit in front guarantees it does) - or the caller has to merge (`|=`) instead of overwrite"""
    prog = ctx.prog()
    f = prog.find("sonic_number::parse_number")
    pf = [(b, t) for b, t in f.calls() if callee_is(t, "parse_float")]
    if len(pf) != 1 or len(pf[0][1]["args"]) < 4 or op_local(pf[0][1]["args"][3]) is None:
        ctx.ob("R07.12", "anchor", False, f.loc(), "parse_float(significant, exponent, negative, trunc, ..) call not found (fail closed)")
        return
    # the flag variable: the multi-definition local the argument is a copy of
    fl = op_local(pf[0][1]["args"][3])
    for _ in range(6):
        d = f.single_def(fl)
        if d and d[0] == "stmt" and d[3]["rv"]["k"] == "use" and op_local(d[3]["rv"]["op"]) is not None:
            fl = op_local(d[3]["rv"]["op"])
        else:
            break
    defs = f.defs.get(fl, [])
    trues = [d[1] for d in defs if d[0] == "stmt" and d[3]["rv"]["k"] == "use" and op_int(d[3]["rv"]["op"]) == 1]
    ctx.ob("R07.12", "flag:set-sites", len(trues) >= 1 and len(defs) >= 3, f.loc(), f"the truncation flag has {len(defs)} definitions, {len(trues)} of them `true`", nontrivial=False)
    n = 0
    for d in defs:
        if d[0] != "stmt" or d[3]["rv"]["k"] == "use" and d[3]["rv"]["op"]["k"] == "const":
            continue
        b, st = d[1], d[3]
        sl, leaves = backward_slice(f, [p[0] for p in rv_places(st["rv"])], through_calls=False)
        leaves = [lf for lf in leaves if not (lf[0] == "call" and callee_is(lf[2], "branch"))] + \
                 [x for lf in leaves if lf[0] == "call" and callee_is(lf[2], "branch") and op_local(lf[2]["args"][0]) is not None
                  for x in backward_slice(f, [op_local(lf[2]["args"][0])], through_calls=False)[1]]
        calls = [lf for lf in leaves if lf[0] == "call" and prog.fns.get(lf[2]["callee"]) is not None and prog.fns[lf[2]["callee"]].crate == "sonic_number"]
        if not calls:
            continue
        n += 1
        merged = fl in sl        # trunc = trunc | helper(..)
        reaching = [tb for tb in trues if b in f.reachable_from(tb)]
        for lf in calls:
            g = prog.fns[lf[2]["callee"]]
            # the flag of the helper: the local wrapped in its Ok(..)
            dep = []
            for gb, gi, gs in g.assigns():
                rv = gs["rv"]
                if rv["k"] == "agg" and rv.get("variant") == "Ok" and rv["f"] and op_local(rv["f"][0]) is not None:
                    # a byte of the text read into the flag's value (`trunc |= data[i] != b'0'`); how MANY digits there are
                    # (positions, counts returned by the digit scanners) is not a dependence on their values
                    gsl, gleaves = backward_slice(g, [op_local(rv["f"][0])], through_calls=False)
                    if any(x[0] == "place" and g.src(x[1][0]) == ("param", 1) and any(isinstance(e, list) and e[0] != "." for e in x[1][1]) for x in gleaves):
                        dep.append(gs.get("ln"))
            ok = merged or not reaching or not dep
            ctx.ob("R07.12", f"overwrite@{short(g.id)}#{n}", ok, f.loc(st.get("ln")),
                   ("the flag is merged with the helper's result" if merged else "no recorded truncation reaches this assignment" if not reaching else
                    f"{g.name} reports `truncated` independently of the dropped digits' values, so the overwrite cannot clear a recorded truncation") if ok else
                   f"the flag returned by {g.name} depends on the values of the digits it drops (line {dep[0]}), and parse_number overwrites with it a truncation recorded for digits dropped from the integer part: 10000000000000001025.0 is converted from its first 19 digits only")
    ctx.floor("R07.12", "flag overwritten by a helper's result", n, 1)


def r07_13(ctx):
    """slow path: `truncated` (which makes the conversion round a tie up) is decided on the digit count WITHOUT the literal's
    trailing zeros - in parse_decimal the removal `num_digits -= <count of trailing zeros>` dominates the
    `num_digits > MAX_DIGITS` test that sets the flag; a literal padded with zeros beyond 768 digits is still exact"""
    from .c11 import _store_arith
    prog = ctx.prog()
    f = prog.find("decimal::parse_decimal")
    fld = lambda lhs: [e[2] for e in lhs[1] if isinstance(e, list) and e[0] == "."][-1:]
    tr = [(b, s_) for b, i, s_ in f.assigns() if fld(s_["lhs"]) == ["truncated"] and s_["rv"]["k"] == "use" and op_int(s_["rv"]["op"]) == 1]
    subs = []
    for b, i, s_ in f.assigns():
        if fld(s_["lhs"]) != ["num_digits"]:
            continue
        found, leaves = _store_arith(f, s_, "Sub")
        is_nd = lambda lf: lf[0] == "place" and lf[1] and fld(lf[1]) == ["num_digits"]
        if found and any(is_nd(lf) for lf in leaves) and any(lf[0] != "const" for lf in leaves if not is_nd(lf)):
            subs.append(b)
    ctx.floor("R07.13", "`truncated = true` in parse_decimal", len(tr), 1)
    for k, (b, s_) in enumerate(tr, 1):
        ok = any(f.dominates(sb, b) for sb in subs)
        ctx.ob("R07.13", f"parse_decimal:truncated#{k}", ok, f.loc(s_.get("ln")),
               "the digit count compared with MAX_DIGITS has the trailing zeros removed" if ok else
               "the digit count compared with MAX_DIGITS still contains the literal's trailing zeros: a literal padded with zeros beyond 768 digits is marked truncated and an exact tie is rounded up instead of to even")


def r07_14(ctx):
    """there is one decimal number parser: text becomes a number in sonic_number (and in core's FromStr for 128-bit
    integers), nowhere else.  No function of the sonic_rs crate accumulates decimal digits itself (`acc * 10 + (b - b'0')`):
    a private fast path of that shape has its own overflow, sign, leading-zero and range behaviour"""
    prog = ctx.prog()
    def accumulates(f):
        mul = sub = None
        for g in prog.with_closures(f):
            for b, i, s_ in g.assigns():
                rv = s_["rv"]
                if rv["k"] == "binop" and rv["op"].startswith("Mul") and 10 in (op_int(rv["a"]), op_int(rv["b"])):
                    mul = s_.get("ln")
                if rv["k"] == "binop" and rv["op"].startswith("Sub") and op_int(rv["b"]) == 48:
                    sub = s_.get("ln")
                if rv["k"] == "binop" and rv["op"] == "BitAnd" and op_int(rv["b"]) == 15 and (rv["b"].get("ty") == "u8"):
                    sub = sub or s_.get("ln")
            for b, t in g.calls():
                nm = t["callee"].rsplit("::", 1)[-1]
                if nm in ("wrapping_mul", "checked_mul", "saturating_mul", "overflowing_mul") and "core::num" in t["callee"] and any(op_int(a) == 10 for a in t["args"]):
                    mul = t["ln"]
                if nm in ("wrapping_sub", "checked_sub") and "core::num" in t["callee"] and len(t["args"]) > 1 and op_int(t["args"][1]) == 48:
                    sub = t["ln"]
                if nm == "to_digit" and "char" in t["callee"]:
                    sub = sub or t["ln"]
        return mul if (mul is not None and sub is not None) else None
    hits = []
    control = 0
    for f in prog.fns.values():
        if f.kind == "Closure":
            continue
        ln = accumulates(f)
        if ln is None:
            continue
        if f.crate == "sonic_number":
            control += 1
        elif f.crate == "sonic_rs":
            hits.append((f, ln))
    ctx.ob("R07.14", "positive-control:sonic_number-accumulates", control >= 2, "sonic-number/src/lib.rs", f"{control} digit-accumulating functions seen in sonic_number (the query recognises the shape)", nontrivial=False)
    ctx.ob("R07.14", "one-number-parser", not hits, hits[0][0].loc(hits[0][1]) if hits else "", "no function of sonic_rs accumulates decimal digits itself" if not hits else
           f"{[short(f.id) for f, ln in hits]} accumulate(s) decimal digits outside sonic_number: a second number parser with its own overflow and range behaviour (e.g. 20-digit integers above u64::MAX wrap, i64::MIN as a key overflows the negation)")


def r07_s(ctx):
    """shifts, table indices and unsigned differences of the conversion stay in range (interval analysis, shared with C01):
    a wrapped shift or an out-of-range table index yields a wrong float in release builds"""
    from . import c01
    ctx.include(c01.r01_13, "R07.S", ("sonic_number",), 15)


def r07_sx(ctx):
    """R07.S on the other targets (the scalar digit accumulator and the NEON one replace the x86 one there): thorough tier"""
    from . import c01
    if ctx.tier != "thorough" or ctx.default_config != "native":
        ctx.ob("R07.Sx", "cross-target", True, "", "cross-target interval run: thorough tier, once", nontrivial=False)
        return
    keep = ctx.default_config
    for cfg in ("baseline", "aarch64", "nosimd"):
        n0 = len(ctx.obligations)
        ctx.default_config = cfg
        try:
            c01.r01_13(ctx, ("sonic_number",), 15)
            r07_10(ctx)
            r07_11(ctx)
        finally:
            ctx.default_config = keep
        for o in ctx.obligations[n0:]:
            o["key"] = f"{cfg}:{o['rule']}:{o['key']}"
            o["rule"] = "R07.Sx"
    ctx.violations = [o for o in ctx.obligations if not o["ok"]]


RULES = [("R07.1", r07_1), ("R07.3", r07_3), ("R07.4", r07_4), ("R07.5", r07_5), ("R07.6", r07_6), ("R07.6b", r07_6b), ("R07.7", r07_7), ("R07.8", r07_8), ("R07.9", r07_9), ("R07.10", r07_10), ("R07.11", r07_11), ("R07.12", r07_12), ("R07.13", r07_13), ("R07.14", r07_14), ("R07.S", r07_s), ("R07.Sx", r07_sx)]

"""C12 — lazy iterators yield the members, then stop: latch, flag and validation structure."""
from ..facts import callee_is, op_local, op_place, op_int, FactError
from ..analysis import backward_slice, bool_switch_edges, specialised_reach, path_to, return_kinds, agg_of_local
from .c01 import short
from .c02 import sinks

EXPLANATION = (
    "Decides the structural part of C12: (R12.1) both iterator step functions test the `ending` latch "
    "first and every exit that yields None or Some(Err) is dominated by `ending = true` (or lies on the "
    "latched edge), so nothing is yielded after an error or the end; (R12.2) the safe constructors store "
    "skip_strict = true, the unchecked ones and new_inner false, and `new` stores its parameter; (R12.3) "
    "with skip_strict = true the step functions reach the validating skipper and no non-validating one "
    "(flag-specialised reachability); (R12.4) on the first step the reader's UTF-8 verdict is checked "
    "before anything is parsed and the reader is built with validation when the carrier needs it; (R12.5) "
    "the per-element drivers return the raw span captured between the value's first byte and the reader "
    "index after the skip. Does NOT decide item contents or counts."
)
ASSUMPTIONS = ["rustc MIR and callee resolution; class-hierarchy edges for Reader/JsonInput"]

STEPS = ("next_entry_impl", "next_elem_impl")


def _field_store_true(fn, field):
    out = set()
    for b, i, s in fn.assigns():
        lhs = s["lhs"]
        if lhs[1] and lhs[0] == 1 and [e[2] for e in lhs[1] if isinstance(e, list) and e[0] == "."][-1:] == [field]:
            rv = s["rv"]
            if rv["k"] == "use" and rv["op"]["k"] == "const" and op_int(rv["op"]) == 1:
                out.add(b)
    return out


def _field_switch(fn, field):
    """(block, true_target, false_target) of switches on self.<field>"""
    out = []
    for b, t in fn.terms():
        if t["k"] != "switch" or t.get("dty") != "bool":
            continue
        l = op_local(t["discr"])
        if l is None:
            continue
        sl, leaves = backward_slice(fn, [l])
        if any(lf[0] == "place" and lf[1][0] == 1 and [e[2] for e in lf[1][1] if isinstance(e, list) and e[0] == "."][-1:] == [field] for lf in leaves):
            e = bool_switch_edges(fn, l)
            if e:
                out.append((b, e[0], e[1]))
    return out


def r12_1(ctx):
    prog = ctx.prog()
    n = 0
    for name in STEPS:
        fns = [f for f in prog.fns.values() if f.name == name and f.crate == "sonic_rs"]
        if len(fns) != 1:
            ctx.fail_closed("R12.1", name)
            continue
        fn = fns[0]
        n += 1
        sw = _field_switch(fn, "ending")
        first = [x for x in sw if x[0] == 0 or fn.dominates(x[0], x[0]) and all(fn.dominates(x[0], b) for b in fn.reach if b != 0 and b not in fn.reachable_from(0, avoid={x[0]}))]
        ok0 = bool(sw) and any(x[0] == 0 or len(fn.reachable_from(0, avoid={x[0]})) <= 2 for x in sw)
        ctx.ob("R12.1", f"{name}:latch-tested-first", ok0, fn.loc(), "the step function tests `ending` before anything else" if ok0 else "the step function does not start with the `ending` test")
        if not sw:
            continue
        sb, latched_t, open_t = sw[0]
        stores = _field_store_true(fn, "ending")
        ctx.ob("R12.1", f"{name}:latch-set-sites", len(stores) >= 1, fn.loc(), f"`ending = true` is stored at {len(stores)} site(s); every terminal exit below must be dominated by one", nontrivial=False)
        k = 0
        for b, kind, s in return_kinds(fn):
            terminal = False
            what = kind
            if kind == "None":
                terminal = True
            elif kind == "Some":
                # Some(Err(..)) ?
                o = s["rv"]["f"][0] if s.get("rv") else None
                l = op_local(o) if o else None
                if l is not None:
                    sl, leaves = backward_slice(fn, [l])
                    for x in sl | {l}:
                        for d in fn.defs.get(x, []):
                            if d[0] == "stmt" and d[3]["rv"]["k"] == "agg" and d[3]["rv"].get("variant") == "Err":
                                terminal = True
                                what = "Some(Err)"
            if not terminal:
                continue
            k += 1
            on_latched = b in fn.reachable_from(latched_t) and b not in fn.reachable_from(open_t, avoid=set())
            dom = any(fn.dominates(sblk, b) for sblk in stores)
            ok = on_latched or dom
            ctx.ob("R12.1", f"{name}:exit#{k}:{what}", ok, fn.loc(s.get("ln")),
                   f"exit yielding {what} is " + ("on the already-latched edge" if on_latched else "dominated by `ending = true`") if ok else
                   f"exit yielding {what} does not latch `ending`: the iterator can yield again after the end or an error")
    ctx.floor("R12.1", "iterator step functions", n, 2)


def r12_7(ctx):
    """"then stop" is decided by the parser, not by the iterator: a step yields None only on the already-latched edge or
    after the member driver (parse_entry_lazy / parse_array_elem_lazy) has run and reported the end of the container - a
    truncated container must surface as an error item, not as a clean end"""
    prog = ctx.prog()
    for name in STEPS:
        fns = [f for f in prog.fns.values() if f.name == name and f.crate == "sonic_rs"]
        if len(fns) != 1:
            ctx.fail_closed("R12.7", name)
            continue
        fn = fns[0]
        sw = _field_switch(fn, "ending")
        drivers = [(b, t) for b, t in fn.calls() if callee_is(t, "parse_entry_lazy", "parse_array_elem_lazy")]
        if not sw or len(drivers) != 1:
            ctx.ob("R12.7", f"{name}:anchors", False, fn.loc(), "latch test or member driver not found (fail closed)")
            continue
        sb, latched_t, open_t = sw[0]
        db = drivers[0][0]
        k = 0
        for b, kind, s in return_kinds(fn):
            if kind != "None":
                continue
            k += 1
            # the block that gives None: all its predecessors chains come either from the latched edge only, or through the driver
            via_latch_only = b in fn.reachable_from(latched_t) and b not in fn.reachable_from(open_t)
            via_driver = fn.dominates(db, b)
            ok = via_latch_only or via_driver
            ctx.ob("R12.7", f"{name}:none#{k}", ok, fn.loc(s.get("ln")),
                   "None is yielded " + ("on the already-latched edge" if via_latch_only else "after the member driver reported the end") if ok else
                   "None can be yielded without the member driver having seen the closing bracket: a truncated container ends the iteration cleanly instead of with an error")


def r12_2(ctx):
    prog = ctx.prog()
    want = {"to_array_iter": 1, "to_object_iter": 1, "to_array_iter_unchecked": 0, "to_object_iter_unchecked": 0}
    n = 0
    for name, v in want.items():
        fns = [f for f in prog.fns.values() if f.name == name and f.crate == "sonic_rs" and f.kind == "Fn"]
        if len(fns) != 1:
            ctx.fail_closed("R12.2", name)
            continue
        fn = fns[0]
        calls = [(b, t) for b, t in fn.calls() if callee_is(t, "new") and "JsonIter" in t["callee"]]
        ok = len(calls) == 1 and op_int(calls[0][1]["args"][1]) == v
        n += 1
        ctx.ob("R12.2", name, ok, fn.loc(), f"{name} constructs its iterator with skip_strict = {bool(v)}" if ok else f"{name} does not pass skip_strict = {bool(v)}")
    for f in prog.fns.values():
        if f.crate != "sonic_rs" or "JsonIter" not in (f.self_adt or "") or f.name not in ("new", "new_inner"):
            continue
        for b, i, s in f.assigns():
            rv = s["rv"]
            if rv["k"] == "agg" and "JsonIter" in rv.get("adt", ""):
                idx = rv["fields"].index("skip_strict")
                o = rv["f"][idx]
                n += 1
                if f.name == "new_inner":
                    ok = op_int(o) == 0
                    ctx.ob("R12.2", f"{short(f.id)}:skip_strict", ok, f.loc(s["ln"]), "new_inner (input already validated) stores skip_strict = false")
                else:
                    l = op_local(o)
                    ok = l is not None and f.src(l) == ("param", 2)
                    ctx.ob("R12.2", f"{short(f.id)}:skip_strict", ok, f.loc(s["ln"]), "new stores its skip_strict parameter unchanged")
                ie = rv["fields"].index("ending")
                ctx.ob("R12.2", f"{short(f.id)}:ending", op_int(rv["f"][ie]) == 0, f.loc(s["ln"]), "a new iterator is not latched")
    ctx.floor("R12.2", "constructor obligations", n, 8)


def r12_3(ctx):
    prog = ctx.prog()
    sk = sinks(prog)
    for name in STEPS:
        fn = [f for f in prog.fns.values() if f.name == name and f.crate == "sonic_rs"][0]
        reached, via = specialised_reach(prog, [(fn.id, {}, {"skip_strict": True})])
        hit = sorted(set(reached) & sk)
        val = [f for f in reached if prog.fns[f].name == "skip_one"]
        ctx.ob("R12.3", f"{name}:strict-reaches-skip_one", bool(val), fn.loc(), "with skip_strict = true the step reaches the validating skipper skip_one")
        ctx.ob("R12.3", f"{name}:strict-avoids-unchecked", not hit, fn.loc(),
               "with skip_strict = true no non-validating skipper is reachable" if not hit else
               "with skip_strict = true a non-validating skipper is reachable: " + "; ".join(" -> ".join(short(a) for a, l in path_to(via, h)) for h in hit[:2]))
        # positive control
        r2, _ = specialised_reach(prog, [(fn.id, {}, {"skip_strict": False})])
        ctx.ob("R12.3", f"{name}:positive-control", bool(set(r2) & sk), fn.loc(), "with skip_strict = false the non-validating skipper is reachable (the query sees the branch)", nontrivial=False)


def r12_4(ctx):
    prog = ctx.prog()
    for name in STEPS:
        fn = [f for f in prog.fns.values() if f.name == name and f.crate == "sonic_rs"][0]
        parse = [(b, t) for b, t in fn.calls() if callee_is(t, "parse_entry_lazy", "parse_array_elem_lazy")]
        chk = [(b, t) for b, t in fn.calls() if callee_is(t, "check_utf8_final")]
        sw = _field_switch(fn, "first")
        ok = False
        if parse and chk and sw:
            sb, first_t, notfirst_t = sw[0]
            pb = parse[0][0]
            cb = chk[0][0]
            # from the first==true edge the parse is reachable only through the check, and the check's Err edge does not reach it
            if pb not in fn.reachable_from(first_t, avoid={cb}):
                from ..analysis import result_edges
                re_ = result_edges(fn, chk[0][1]["dest"][0])
                if re_ and pb not in fn.reachable_from(re_[1]):
                    ok = True
        ctx.ob("R12.4", f"{name}:utf8-verdict-first", ok, fn.loc(), "on the first step the reader's UTF-8 verdict is checked (and its error yielded) before anything is parsed" if ok else "the first step can parse and yield without checking the reader's UTF-8 verdict")
    for f in prog.fns.values():
        if f.crate == "sonic_rs" and "JsonIter" in (f.self_adt or "") and f.name == "new":
            reads = [(b, t) for b, t in f.calls() if callee_is(t, "new_in", "Read::new_in")]
            ok = False
            if reads:
                l = op_local(reads[0][1]["args"][1])
                sl, leaves = backward_slice(f, [l]) if l is not None else (set(), [])
                ok = ("param", 2) in leaves and any(lf[0] == "call" and callee_is(lf[2], "need_utf8_valid") for lf in leaves)
            ctx.ob("R12.4", f"{short(f.id)}:validate-flag", ok, f.loc(), "the reader's validate flag is computed from skip_strict and the carrier's need_utf8_valid()" if ok else "the reader's validate flag does not depend on skip_strict and need_utf8_valid()")


def r12_5(ctx):
    """raw span = slice_unchecked(start, index) with start captured before the skip"""
    prog = ctx.prog()
    n = 0
    for name in ("skip_one", "skip_one_unchecked"):
        fn = prog.find(f"Parser::{name}")
        sl_calls = [(b, t) for b, t in fn.calls() if callee_is(t, "slice_unchecked")]
        idx_calls = [(b, t) for b, t in fn.calls() if callee_is(t, "Reader::index")]
        sp = [(b, t) for b, t in fn.calls() if callee_is(t, "skip_space")]
        ok = bool(sl_calls) and len(idx_calls) >= 2 and bool(sp)
        detail = ""
        if ok:
            for b, t in sl_calls:
                s_l, e_l = op_local(t["args"][1]), op_local(t["args"][2])
                ss, sleaves = backward_slice(fn, [s_l])
                es, eleaves = backward_slice(fn, [e_l])
                s_idx = [lf for lf in sleaves if lf[0] == "call" and callee_is(lf[2], "Reader::index")]
                e_idx = [lf for lf in eleaves if lf[0] == "call" and callee_is(lf[2], "Reader::index")]
                if not s_idx or not e_idx:
                    ok = False
                    detail = "span bounds are not reader indices"
                    continue
                # start index is read right after skip_space (dominated by it) and dominates every skipper call; end index is read after
                sb = s_idx[0][1]
                eb = e_idx[0][1]
                skips = [bb for bb, tt in fn.calls() if tt["callee"].rsplit("::", 1)[-1].startswith(("skip_", "parse_literal", "do_skip", "get_next")) and bb != sp[0][0] and not callee_is(tt, "skip_space")]
                if not (fn.dominates(sp[0][0], sb) and all(fn.dominates(sb, x) for x in skips) and sb != eb and fn.dominates(sb, eb)):
                    ok = False
                    detail = "start index not captured between skip_space and the skip"
                # start = index - 1 (the first byte was consumed by skip_space)
                subs = [c for c in [lf for lf in sleaves if lf[0] == "const"] if op_int(c[1]) == 1]
                if not subs:
                    ok = False
                    detail = "start is not index-1"
        n += 1
        ctx.ob("R12.5", f"{name}:span", ok, fn.loc(), "the returned raw span is [index_after_skip_space - 1, index_after_skip)" if ok else f"raw span bounds are not the reader indices around the skip: {detail}")
    ctx.floor("R12.5", "span producers", n, 2)


def r12_6(ctx):
    """the non-validating number skipper finds the end of a number by searching the next separator; the
    separators searched do not include whitespace, so the whitespace before the separator must be given
    back (or the search set must contain the four whitespace bytes): the raw span of `1 ,` is `1`"""
    prog = ctx.prog()
    f = prog.find("Parser::skip_number_unsafe")
    gt = [(b, t) for b, t in f.calls() if callee_is(t, "get_next_token")]
    if not gt:
        ctx.ob("R12.6", "skip_number_unsafe:shape", True, f.loc(), "the number skipper does not use the separator search", nontrivial=False)
        return
    toks = set()
    for b, t in gt:
        a = t["args"][1]
        bs = a.get("bytes") if a["k"] == "const" else None
        if bs is None and op_local(a) is not None:
            sl, leaves = backward_slice(f, [op_local(a)])
            for lf in leaves:
                if lf[0] == "const" and op_int(lf[1]) is not None and lf[1].get("ty") == "u8":
                    toks.add(op_int(lf[1]))
                if lf[0] == "const" and lf[1].get("bytes"):
                    toks |= set(bytes.fromhex(lf[1]["bytes"]))
        elif bs:
            toks |= set(bytes.fromhex(bs))
    ws = {0x20, 0x09, 0x0A, 0x0D}
    ctx.ob("R12.6", "skip_number_unsafe:separators", {0x2C, 0x5D, 0x7D} <= toks, f.loc(), f"separator set searched after a number: {sorted(chr(x) for x in toks)}")
    if ws <= toks:
        ctx.ob("R12.6", "skip_number_unsafe:span-ends-at-number", True, f.loc(), "the search stops at whitespace too")
        return
    back = [(b, t) for b, t in f.calls() if callee_is(t, "Reader::backward")]
    isw = [(b, t) for b, t in f.calls() if callee_is(t, "is_whitespace")]
    if not isw:
        # the test may be the predicate of a combinator (`checked_sub(1).is_some_and(|last| is_whitespace(..))`): the call
        # that receives the closure stands for it
        for g in prog.closures_of(f):
            if any(callee_is(tt, "is_whitespace") for bb, tt in g.calls()):
                isw += [(b, t) for b, t in f.calls() if g.id in (t.get("arg_adts") or []) and f.locals[t["dest"][0]]["ty"] == "bool"]
    ok = False
    if back and isw:
        e = bool_switch_edges(f, isw[0][1]["dest"][0])
        ok = bool(e) and all(b in f.reachable_from(e[0]) and b not in f.reachable_from(e[1], avoid={e[0]}) for b, t in back) and all(f.dominates(gt[0][0], b) for b, t in back)
        # it is a loop: the whitespace test is reached again after giving a byte back
        ok = ok and isw[0][0] in f.reachable_from(back[0][0])
    ctx.ob("R12.6", "skip_number_unsafe:span-ends-at-number", ok, f.loc(),
           "whitespace between the number and the separator is given back (loop of is_whitespace / backward after the search)" if ok else
           "the separator search runs over the whitespace after a number and nothing gives it back: the unchecked iterators / get return `1 ` for `[1 , 2]` while the checked ones return `1`")


def r12_8(ctx):
    """member names are yielded by the validating, decoding key parser: the `key` of the entry built by parse_entry_lazy
    derives from no parser routine other than parse_str (a short-cut that borrows the bytes up to the next quote skips
    the control-character test and the escape decoding)"""
    prog = ctx.prog()
    f = prog.find("Parser::parse_entry_lazy")
    aggs = [(b, i, s_) for b, i, s_ in f.assigns() if s_["rv"]["k"] == "agg" and (s_["rv"].get("adt") or "").endswith("parser::Pair")]
    ctx.floor("R12.8", "Pair built in parse_entry_lazy", len(aggs), 1)
    for k, (b, i, s_) in enumerate(aggs, 1):
        rv = s_["rv"]
        ko = rv["f"][rv["fields"].index("key")] if "key" in (rv.get("fields") or []) else None
        l = op_local(ko) if ko else None
        sl, leaves = backward_slice(f, [l]) if l is not None else (set(), [])
        producers = sorted({lf[2]["callee"].rsplit("::", 1)[-1] for lf in leaves if lf[0] == "call" and lf[2]["callee"] in prog.fns and (prog.fns[lf[2]["callee"]].self_adt or "").endswith("parser::Parser")})
        ok = bool(producers) and set(producers) <= {"parse_str", "parse_string_raw"}
        ctx.ob("R12.8", f"parse_entry_lazy:key-from-key-parser#{k}", ok, f.loc(s_.get("ln")),
               f"the member name comes from {producers}" + ("" if ok else ": a name that did not pass the validating key parser is yielded (raw control characters, undecoded text)"))


def r12_s(ctx):
    """clauses of the validating skipper behind the checked iterators (shared with C02): whitespace classifiers, value-start alphabet, \\u digits, closing bracket after whitespace, one-fraction discipline"""
    from . import c02
    for fn in (c02.r02_2, c02.r02_4, c02.r02_5, c02.r02_7, c02.r02_10, c02.r02_11, c02.r02_12):
        ctx.include(fn, 'R12.S')
    from . import c13
    ctx.include(c13.r13_6, 'R12.S')  # the unchecked iterators agree with the checked ones: escape carry across blocks
    ctx.include(c13.r13_11, 'R12.S')  # the unchecked iterators cut a number where it ends
    ctx.include(c13.r13_6c, 'R12.S')  # ... and the escape step of a block is skipped only when it cannot matter


RULES = [("R12.1", r12_1), ("R12.2", r12_2), ("R12.3", r12_3), ("R12.4", r12_4), ("R12.5", r12_5), ("R12.6", r12_6), ("R12.7", r12_7), ("R12.8", r12_8), ("R12.S", r12_s)]

"""C03 — a parsed document equals the reference data model: driver agreement, visitor protocol, metadata."""
import collections
from ..facts import callee_is, op_local, op_place, op_int, op_bytes, FactError, norm_path
from ..analysis import backward_slice, bool_switch_edges, return_kinds, switch_edges
from .c01 import short

EXPLANATION = (
    "Tree equality over all texts is a run-time property.  Decides: (R03.1) the in-place and the copying "
    "DOM drivers are the same machine: for each of parse_value/array/object vs. parse_value2/array2/"
    "object2 the byte alphabets switched on, the multiset of visitor methods called, the error codes "
    "constructed and the literal tails agree under the renaming {string_inplace<->string_owned, "
    "number_inplace<->number_visit, f<->f2}; (R03.2) every JsonVisitor method the parser calls is "
    "overridden by DocumentVisitor, each container parser passes visit_*_start before and visit_*_end on "
    "every Ok return, and the child count given to visit_*_end is incremented exactly once per element on "
    "every loop cycle; (R03.3) the packed node metadata is consistent: type tags pairwise distinct, kind "
    "tags < 8, the shift/mask constants of pack_dom_node are those of unpack_dom_node/unpack_strlen; "
    "(R03.4) literals map to the right visitor call (t->visit_bool(true), f->visit_bool(false), "
    "n->visit_null) and number classes to visit_f64/u64/i64; (R03.5) the surrogate pair is assembled as "
    "((hi-0xD800)<<10 | lo) + 0x10000 in both decoders (the 0x10000 is added to the OR, not OR-ed). Does "
    "NOT decide that strings/numbers carry the right values (C07/C09) nor order/duplicates at run time."
)
ASSUMPTIONS = ["rustc MIR and callee resolution", "DocumentVisitor is the only JsonVisitor used to build a DOM"]

RENAME = {"parse_string_owned": "parse_string", "parse_string_inplace": "parse_string", "parse_number_visit": "parse_number_v", "parse_number_inplace": "parse_number_v",
          "parse_value2": "parse_value", "parse_array2": "parse_array", "parse_object2": "parse_object",
          "visit_borrowed_str": "visit_str", "visit_borrowed_raw_number": "visit_raw_number", "visit_borrowed_key": "visit_key"}


def summary(prog, fn):
    bytes_sw = set()
    for b, t in fn.terms():
        if t["k"] == "switch" and t.get("dty") == "u8":
            bytes_sw |= {int(v) for v, _ in t["targets"]}
    for b, i, s in fn.assigns():
        rv = s["rv"]
        if rv["k"] == "binop" and rv["op"] in ("Eq", "Ne", "Le", "Lt", "Ge", "Gt"):
            for o in (rv["a"], rv["b"]):
                if o["k"] == "const" and o.get("ty") == "u8":
                    bytes_sw.add((rv["op"], op_int(o)))
    calls = collections.Counter()
    for b, t in fn.calls():
        nm = t["callee"].rsplit("::", 1)[-1]
        if nm.startswith(("visit_", "parse_", "skip_space")):
            calls[RENAME.get(nm, nm)] += 1
    errs = collections.Counter()
    for b, i, s in fn.assigns():
        rv = s["rv"]
        if rv["k"] == "agg" and rv.get("adt", "").endswith("error::ErrorCode"):
            errs[rv["variant"]] += 1
    lits = set()
    for b, s, o in fn.const_operands():
        bs = op_bytes(o)
        if bs and "str" in o.get("ty", "") and len(bs) <= 5:
            lits.add(bs)
    return {"bytes": bytes_sw, "calls": dict(calls), "errors": dict(errs), "literals": lits}


def r03_1(ctx):
    prog = ctx.prog()
    for base in ("parse_value", "parse_array", "parse_object"):
        a = prog.find(f"Parser::{base}")
        b = prog.find(f"Parser::{base}2")
        sa_, sb_ = summary(prog, a), summary(prog, b)
        for part in ("bytes", "calls", "errors", "literals"):
            ok = sa_[part] == sb_[part]
            diff = ""
            if not ok:
                if isinstance(sa_[part], dict):
                    ks = set(sa_[part]) | set(sb_[part])
                    diff = str({k: (sa_[part].get(k), sb_[part].get(k)) for k in ks if sa_[part].get(k) != sb_[part].get(k)})
                else:
                    diff = f"only in-place {sorted(map(str, sa_[part] - sb_[part]))}, only copying {sorted(map(str, sb_[part] - sa_[part]))}"
            ctx.ob("R03.1", f"{base}:{part}", ok, a.loc(), f"{base} vs {base}2: {part} agree ({len(sa_[part])} items)" if ok else f"{base} vs {base}2 differ in {part}: {diff}")
    # the literal helper is shared by both drivers
    lv = prog.find("Parser::parse_literal_visit")
    callers = {short(f.id) for f, b, t in prog.callers_of(lambda t: t.get("callee") == lv.id)}
    ctx.ob("R03.1", "shared:parse_literal_visit", {"Parser::parse_array", "Parser::parse_array2"} <= callers or len(callers) >= 4, lv.loc(), f"literal dispatch shared by both drivers ({sorted(callers)})")


def r03_2(ctx):
    prog = ctx.prog()
    called = set()
    for f in prog.fns.values():
        if f.crate != "sonic_rs" or f.self_adt != "sonic_rs::parser::Parser":
            continue
        for b, t in f.calls():
            if (t.get("trait") or "").endswith("visitor::JsonVisitor"):
                called.add(t["callee"].rsplit("::", 1)[-1])
    ctx.floor("R03.2", "JsonVisitor methods called by the parser", len(called), 12)
    dv = [im for im in prog.impls if im["trait"].endswith("visitor::JsonVisitor") and "DocumentVisitor" in im["self_ty"]]
    if len(dv) != 1:
        ctx.fail_closed("R03.2", "impl JsonVisitor for DocumentVisitor")
        return
    over = set(dv[0]["methods"])
    for m in sorted(called):
        ctx.ob("R03.2", f"override:{m}", m in over, dv[0]["file"], f"DocumentVisitor overrides {m} (the trait default rejects)" if m in over else f"the parser calls {m} but DocumentVisitor inherits the default, which returns false: documents using it are rejected or lose the node")
    for base, start, end in (("parse_array", "visit_array_start", "visit_array_end"), ("parse_array2", "visit_array_start", "visit_array_end"), ("parse_object", "visit_object_start", "visit_object_end"), ("parse_object2", "visit_object_start", "visit_object_end")):
        f = prog.find(f"Parser::{base}")
        sb = {b for b, t in f.calls() if callee_is(t, start)}
        eb = {b for b, t in f.calls() if callee_is(t, end)}
        oks = [b for b, k, _ in return_kinds(f) if k == "Ok"]
        # Ok values also flow out as the result of check_visit! (a call-free aggregate) : every Ok aggregate block
        ok1 = bool(sb) and all(f.dominates(list(sb)[0], b) for b in eb) and len(sb) == 1
        esc = f.reachable_from(0, avoid=eb) & set(oks)
        ctx.ob("R03.2", f"{base}:start-dominates-end", ok1, f.loc(), f"{start} (once) dominates every {end}")
        ctx.ob("R03.2", f"{base}:ok-passes-end", not esc and bool(eb), f.loc(), f"every Ok return passes {end}" if not esc else f"an Ok return bypasses {end}: the container node is never closed")
        # count discipline
        ends = [(b, t) for b, t in f.calls() if callee_is(t, end)]
        cnt_locals = set()
        for b, t in ends:
            l = op_local(t["args"][1]) if len(t["args"]) > 1 else None
            if l is not None:
                s = f.src(l)
                if s[0] == "multi":
                    cnt_locals.add(s[1])
                elif s[0] != "const":
                    cnt_locals |= {x for x in backward_slice(f, [l])[0] if len(f.defs.get(x, [])) > 1}
        incs = set()
        for b, i, s in f.assigns():
            rv = s["rv"]
            if rv["k"] == "binop" and rv["op"] in ("Add", "AddWithOverflow", "AddUnchecked") and op_int(rv["b"]) == 1 and op_local(rv["a"]) in cnt_locals | {x for c in cnt_locals for x in backward_slice(f, [c])[0]}:
                incs.add(b)
        elems = [b for b, t in f.calls() if t["callee"].rsplit("::", 1)[-1] in ("parse_value", "parse_value2", "parse_number_inplace", "parse_number_visit", "parse_literal_visit", "parse_array", "parse_array2", "parse_object", "parse_object2") or (t["callee"].rsplit("::", 1)[-1] in ("parse_string_inplace", "parse_string_owned") and base.startswith("parse_array"))]
        # each element parse is followed by exactly one increment before the next element parse or the end call
        bad = []
        for e in elems:
            for s0 in f.succs(e):
                reach = f.reachable_from(s0, avoid=incs)
                if reach & (set(elems) | {b for b, t in ends if op_int(t["args"][1]) is None}):
                    bad.append(e)
        ctx.ob("R03.2", f"{base}:count-per-element", bool(incs) and not bad and bool(cnt_locals), f.loc(), f"the child count given to {end} is incremented once after every element ({len(elems)} element parse sites, {len(incs)} increment block(s))" if (incs and not bad) else f"an element can be parsed without the child count being incremented before the next element / {end}")


def r03_3(ctx):
    prog = ctx.prog()
    M = {}
    for k, c in prog.consts.items():
        if k.startswith("sonic_rs::value::node::Meta::") and "int" in c:
            M[k.rsplit("::", 1)[-1]] = int(c["int"])
    types = ["NULL", "TRUE", "FALSE", "I64", "U64", "F64", "EMPTY_ARR", "EMPTY_OBJ", "STATIC_STR", "FASTSTR", "RAWNUM_FASTSTR", "ARR_MUT", "OBJ_MUT", "STR_NODE", "RAWNUM_NODE", "ARR_NODE", "OBJ_NODE", "ROOT_NODE"]
    missing = [t for t in types if t not in M]
    ctx.ob("R03.3", "tags:present", not missing, "src/value/node.rs", f"{len(types) - len(missing)} type tags found" + (f"; missing {missing}" if missing else ""), nontrivial=False)
    vals = [M[t] for t in types if t in M]
    dup = [t for t in types if t in M and vals.count(M[t]) > 1]
    ctx.ob("R03.3", "tags:pairwise-distinct", not dup, "src/value/node.rs", "all type tags are pairwise distinct" if not dup else f"type tags collide: {[(t, M[t]) for t in dup]}")
    kinds = ["STAIC_NODE", "OWNED_NODE", "STR_NODE", "RAWNUM_NODE", "ARR_NODE", "OBJ_NODE", "ROOT_NODE"]
    ctx.ob("R03.3", "kinds:fit-KIND_BITS", all(M.get(k, 99) < (1 << M.get("KIND_BITS", 0)) for k in kinds) and M.get("KIND_MASK") == (1 << M.get("KIND_BITS", 0)) - 1, "src/value/node.rs", f"kind tags {[(k, M.get(k)) for k in kinds]} < 2^KIND_BITS = {1 << M.get('KIND_BITS', 0)}, KIND_MASK = {M.get('KIND_MASK')}")
    # static / owned type tags keep their kind in the low bits
    ok_low = all((M[t] & M["KIND_MASK"]) == M["STAIC_NODE"] for t in ("NULL", "TRUE", "FALSE", "I64", "U64", "F64", "EMPTY_ARR", "EMPTY_OBJ", "STATIC_STR") if t in M) and all((M[t] & M["KIND_MASK"]) == M["OWNED_NODE"] for t in ("FASTSTR", "RAWNUM_FASTSTR", "ARR_MUT", "OBJ_MUT") if t in M)
    ctx.ob("R03.3", "tags:kind-in-low-bits", ok_low, "src/value/node.rs", "static tags have kind STATIC in their low KIND_BITS, owned tags kind OWNED")
    ok_idx = M.get("IDX_MASK") == (((1 << M.get("LEN_OFFSET", 0)) - 1) & ~M.get("KIND_MASK", 0)) and M.get("TYPE_MASK") == (1 << M.get("TYPE_BITS", 0)) - 1
    ctx.ob("R03.3", "masks", ok_idx, "src/value/node.rs", f"IDX_MASK = {M.get('IDX_MASK'):#x} = ((1<<LEN_OFFSET)-1) & !KIND_MASK; TYPE_MASK = (1<<TYPE_BITS)-1")
    # pack / unpack use the same named constants
    def const_defs(fn):
        return {o.get("def", "").rsplit("::", 1)[-1] for b, s, o in fn.const_operands() if o.get("def", "").startswith("sonic_rs::value::node::Meta::")}
    pk = prog.find("Meta::pack_dom_node")
    up = prog.find("Meta::unpack_dom_node")
    us = prog.find("Meta::unpack_strlen")
    ctx.ob("R03.3", "pack/unpack:shifts", {"KIND_BITS", "LEN_OFFSET"} <= const_defs(pk) and {"KIND_BITS", "LEN_OFFSET", "IDX_MASK"} <= const_defs(up) and "LEN_OFFSET" in const_defs(us), pk.loc(), f"pack_dom_node uses {sorted(const_defs(pk))}, unpack_dom_node {sorted(const_defs(up))}, unpack_strlen {sorted(const_defs(us))}")
    # operation kinds: pack shifts left, unpack shifts right by the same constant
    def shifts(fn):
        out = collections.Counter()
        for b, i, s in fn.assigns():
            rv = s["rv"]
            if rv["k"] == "binop" and rv["op"].startswith(("Shl", "Shr")):
                d = rv["b"].get("def", "").rsplit("::", 1)[-1] if rv["b"]["k"] == "const" else None
                if d is None and op_local(rv["b"]) is not None:
                    sc = fn.src(op_local(rv["b"]))
                    if sc[0] == "const":
                        d = sc[1].get("def", "").rsplit("::", 1)[-1]
                out[(rv["op"][:3], d)] += 1
        return out
    sp, su = shifts(pk), shifts(up)
    ctx.ob("R03.3", "pack/unpack:directions", sp.get(("Shl", "KIND_BITS")) == 1 and sp.get(("Shl", "LEN_OFFSET")) == 1 and su.get(("Shr", "KIND_BITS")) == 1 and su.get(("Shr", "LEN_OFFSET")) == 1, pk.loc(), f"pack: {dict(sp)}; unpack: {dict(su)}")


def _is_pn(ty):
    return ty.endswith("ParserNumber") and "<" not in ty


def r03_4(ctx):
    prog = ctx.prog()
    f = prog.find("Parser::parse_literal_visit")
    want = {116: ("visit_bool", 1), 102: ("visit_bool", 0), 110: ("visit_null", None)}
    # for each literal's first byte: the visitor call that is reached with that byte, and its argument, under constant
    # propagation from the arm of the byte dispatch (the value may be selected as data - `(tail, Some(true))` - and the
    # visitor chosen by a later match on it)
    from ..analysis import cp_walk, cp_value, bool_chain_env
    done = set()
    for b, t in f.terms():
        if t["k"] != "switch" or t.get("dty") != "u8" or op_local(t["discr"]) is None:
            continue
        for v, tgt in t["targets"]:
            v = int(v)
            if v not in want or v in done:
                continue
            outs = cp_walk(f, tgt, env=bool_chain_env(f, op_local(t["discr"]), v))
            seen_calls = set()
            for bb, tt in f.calls():
                if bb in outs and tt["callee"].rsplit("::", 1)[-1].startswith("visit_"):
                    arg = cp_value(f, outs[bb], tt["args"][1]) if len(tt["args"]) > 1 else None
                    seen_calls.add((tt["callee"].rsplit("::", 1)[-1], arg, tt["ln"]))
            if not seen_calls:
                continue
            kinds = {(nm, arg) for nm, arg, ln in seen_calls}
            ok = kinds == {want[v]}
            done.add(v)
            nm, arg, ln = sorted(seen_calls, key=str)[0]
            ctx.ob("R03.4", f"literal:{chr(v)}", ok, f.loc(ln), f"first byte {chr(v)!r} -> {sorted(kinds, key=str)}")
    ctx.ob("R03.4", "literal:all-three", done == set(want), f.loc(), f"visitor dispatch found for {sorted(chr(x) for x in done)}", nontrivial=False)
    # number classes
    for name in ("parse_number_inplace", "parse_number_visit"):
        g = prog.find(f"Parser::{name}")
        # the dispatch on the number's class may sit in a private helper of the file that both drivers share
        if not any(t["k"] == "switch" and op_local(t["discr"]) is not None and g.single_def(op_local(t["discr"])) and g.single_def(op_local(t["discr"]))[0] == "stmt"
                   and g.single_def(op_local(t["discr"]))[3]["rv"]["k"] == "discr" and _is_pn(g.locals[g.single_def(op_local(t["discr"]))[3]["rv"]["p"][0]]["ty"]) for b, t in g.terms()):
            hs = [prog.fns[t["callee"]] for b, t in g.calls() if t["callee"] in prog.fns and prog.fns[t["callee"]].file == g.file and any("ParserNumber" in x for x in prog.fns[t["callee"]].inputs)]
            if len(hs) == 1:
                g = hs[0]
        mp = {}
        for b, t in g.terms():
            if t["k"] == "switch":
                dl = op_local(t["discr"])
                d = g.single_def(dl) if dl is not None else None
                if d and d[0] == "stmt" and d[3]["rv"]["k"] == "discr" and _is_pn(g.locals[d[3]["rv"]["p"][0]]["ty"]):
                    variants = {int(v["discr"]): v["name"] for v in prog.adts["sonic_number::ParserNumber"]["variants"]}
                    edges = switch_edges(g, b)
                    for v, tgt in edges:
                        others = {x[1] for x in edges if x[1] != tgt}
                        cs = [tt["callee"].rsplit("::", 1)[-1] for bb, tt in g.calls() if bb in g.reachable_from(tgt, avoid=others) and tt["callee"].rsplit("::", 1)[-1].startswith("visit_")]
                        if v is not None and cs:
                            mp[variants[v]] = cs[0]
                        elif v is None and cs:
                            for dv, nm in variants.items():
                                if dv not in {x[0] for x in edges}:
                                    mp[nm] = cs[0]
        ok = mp == {"Float": "visit_f64", "Unsigned": "visit_u64", "Signed": "visit_i64"}
        ctx.ob("R03.4", f"number-class:{name}", ok, g.loc(), f"ParserNumber -> visitor: {mp}")


def r03_5(ctx):
    prog = ctx.prog()
    for name in ("Parser::parse_escaped_utf8", "unicode::handle_unicode_codepoint_mut"):
        f = prog.find(name)
        # the operation that consumes the constant 0x10000
        sites = []
        for b, t in f.calls():
            if any(op_int(a) == 0x10000 for a in t["args"]):
                sites.append(("call", t["callee"].rsplit("::", 1)[-1], [a for a in t["args"] if op_int(a) != 0x10000], t["ln"]))
        for b, i, s in f.assigns():
            rv = s["rv"]
            if rv["k"] == "binop" and (op_int(rv["a"]) == 0x10000 or op_int(rv["b"]) == 0x10000):
                sites.append(("binop", rv["op"], [rv["b"] if op_int(rv["a"]) == 0x10000 else rv["a"]], s["ln"]))
        if len(sites) != 1:
            ctx.ob("R03.5", f"{short(f.id)}:plane-offset", False, f.loc(), f"expected one use of the constant 0x10000, found {len(sites)} (fail closed)")
            continue
        kind, op, others, ln = sites[0]
        is_add = (kind == "call" and op in ("wrapping_add", "checked_add", "saturating_add")) or (kind == "binop" and op.startswith("Add"))
        ok = False
        detail = ""
        if is_add and others:
            l = op_local(others[0])
            d = f.single_def(l) if l is not None else None
            # follow copies
            n = 0
            while d and d[0] == "stmt" and d[3]["rv"]["k"] == "use" and op_local(d[3]["rv"]["op"]) is not None and n < 6:
                d = f.single_def(op_local(d[3]["rv"]["op"]))
                n += 1
            if d and d[0] == "stmt" and d[3]["rv"]["k"] == "binop" and d[3]["rv"]["op"] == "BitOr":
                # one side is a left shift by 10 of (hi - 0xD800)
                sides = [d[3]["rv"]["a"], d[3]["rv"]["b"]]
                shl = False
                for sd in sides:
                    sl, leaves = backward_slice(f, [op_local(sd)]) if op_local(sd) is not None else (set(), [])
                    ops = {(dd[3]["rv"]["op"], op_int(dd[3]["rv"]["b"])) for x in sl | {op_local(sd)} for dd in f.defs.get(x, []) if dd[0] == "stmt" and dd[3]["rv"]["k"] == "binop"}
                    if any(o[0].startswith("Shl") and o[1] == 10 for o in ops) and any(o[0].startswith("Sub") and o[1] == 0xD800 for o in ops):
                        shl = True
                ok = shl
                detail = "0x10000 is added to ((hi - 0xD800) << 10) | lo"
            else:
                detail = "the other operand of the addition is not the OR of the two halves"
        else:
            detail = f"0x10000 is combined with {op}, not added"
        ctx.ob("R03.5", f"{short(f.id)}:plane-offset", ok, f.loc(ln), detail if ok else f"surrogate pair assembled wrongly: {detail} (code points of even planes lose the carry)")


def r03_6(ctx):
    """UTF-16/UTF-8 constants of the decoders (shared with C09: R09.3)"""
    from .c09 import r09_3
    r09_3(ctx)
    for o in ctx.obligations:
        if o["rule"] == "R09.3":
            o["rule"] = "R03.6"


VISITOR_KIND = {
    "visit_raw_number": ("tag", "RAWNUM_NODE"), "visit_borrowed_raw_number": ("tag", "RAWNUM_NODE"),
    "visit_str": ("tag", "STR_NODE"), "visit_borrowed_str": ("tag", "STR_NODE"),
    "visit_array_start": ("tag", "ARR_NODE"), "visit_array_end": ("tag", "ARR_NODE"),
    "visit_object_start": ("tag", "OBJ_NODE"), "visit_object_end": ("tag", "OBJ_NODE"),
    "visit_null": ("ctor", "new_null"), "visit_bool": ("ctor", "new_bool"), "visit_i64": ("ctor", "new_i64"),
    "visit_u64": ("ctor", "new_u64"), "visit_f64": ("ctor", "new_f64"),
    "visit_key": ("delegate", "visit_str"), "visit_borrowed_key": ("delegate", "visit_borrowed_str"),
}


def r03_7(ctx):
    """each DocumentVisitor callback builds the node kind it is named after: the raw-number callbacks tag
    RAWNUM_NODE, the string callbacks STR_NODE, the container callbacks ARR_NODE / OBJ_NODE, the scalar
    callbacks use the constructor of their own type (followed through same-crate helpers that receive no
    tag argument)"""
    prog = ctx.prog()
    dv = [im for im in prog.impls if im["trait"].endswith("visitor::JsonVisitor") and "DocumentVisitor" in im["self_ty"]]
    if len(dv) != 1:
        ctx.fail_closed("R03.7", "impl JsonVisitor for DocumentVisitor")
        return

    def tags_and_ctors(fid, depth=0, seen=None):
        seen = seen or set()
        if fid in seen or depth > 3:
            return set(), set()
        seen.add(fid)
        f = prog.fns.get(fid)
        if f is None:
            return set(), set()
        tags = {o.get("def", "").rsplit("::", 1)[-1] for b, s_, o in f.const_operands() if o.get("def", "").startswith("sonic_rs::value::node::Meta::") and o.get("def", "").endswith("_NODE")}
        ctors = set()
        for b, t in f.calls():
            nm = t["callee"].rsplit("::", 1)[-1]
            if t["callee"].startswith("sonic_rs::value::node::Value::") and nm.startswith("new_"):
                ctors.add(nm.replace("_unchecked", ""))
            if nm.startswith("visit_") and "DocumentVisitor" in t["callee"]:
                ctors.add("->" + nm)
            # helpers of the visitor that take no tag: look inside
            if t["callee"] in prog.fns and "DocumentVisitor" in t["callee"] and not nm.startswith("visit_") and nm not in ("push_node", "push_meta", "index", "nodes"):
                t2, c2 = tags_and_ctors(t["callee"], depth + 1, seen)
                # only if the caller passes no tag itself
                if not tags:
                    tags |= t2
                ctors |= c2
        return tags, ctors

    n = 0
    for m, (kind, want) in sorted(VISITOR_KIND.items()):
        fid = dv[0]["methods"].get(m)
        if fid is None:
            continue
        n += 1
        tags, ctors = tags_and_ctors(fid)
        f = prog.fns[fid]
        if kind == "tag":
            ok = tags == {want}
            msg = f"{m} tags its node {sorted(tags)} (expected {want})"
        elif kind == "ctor":
            ok = want in ctors and not (tags & {"STR_NODE", "RAWNUM_NODE"})
            msg = f"{m} builds its node with {sorted(ctors)} (expected Value::{want})"
        else:
            ok = ("->" + want) in ctors
            msg = f"{m} delegates to {sorted(c for c in ctors if c.startswith('->'))} (expected {want})"
        ctx.ob("R03.7", m, ok, f.loc(), msg)
    ctx.floor("R03.7", "DocumentVisitor callbacks checked", n, 12)


def r03_s(ctx):
    """surrogate look-ahead prefix (shared with C09)"""
    from . import c09
    ctx.include(c09.r09_8, 'R03.S')


def r03_8(ctx):
    """the raw-number option decides how a number enters the DOM: wherever the result of Parser::parse_number (the typed
    number parse) is turned into a DOM node - through the DOM visitor's visit_u64 / visit_i64 / visit_f64 or a Value
    constructor - the site lies on the edge where `cfg.use_rawnumber` was tested to be false.  (With the option on, the
    text of the number is kept; a fast path that builds the node itself must honour it too.)"""
    from ..analysis import forward_derived
    prog = ctx.prog()
    n = 0
    seen = collections.Counter()
    for f in prog.fns.values():
        if f.crate != "sonic_rs":
            continue
        pn = [(b, t) for b, t in f.calls() if callee_is(t, "parse_number") and "parser::Parser" in t["callee"]]
        if not pn:
            continue
        der = set()
        for b, t in pn:
            der |= {t["dest"][0]}
        for _ in range(6):
            der |= forward_derived(f, der)
            for b, t in f.calls():
                if callee_is(t, "branch", "from", "into") and t["args"] and op_local(t["args"][0]) in der:
                    der.add(t["dest"][0])
            for b, i, s_ in f.assigns():
                pl = op_place(s_["rv"]["op"]) if s_["rv"]["k"] == "use" else None
                if pl is not None and pl[0] in der and not s_["lhs"][1]:
                    der.add(s_["lhs"][0])
        sinks = []
        for b, t in f.calls():
            nm = t["callee"].rsplit("::", 1)[-1]
            dom_visit = nm in ("visit_u64", "visit_i64", "visit_f64") and "JsonVisitor" in (t.get("trait") or t["callee"])
            ctor = nm.startswith("new_") and "value::node::Value" in t["callee"]
            if (dom_visit or ctor) and any(op_local(a) in der for a in t["args"]):
                sinks.append((b, t))
            # a private helper that takes the parsed number and makes the node / calls the visitor with it
            h = prog.fns.get(t["callee"])
            if h is not None and h.crate == "sonic_rs" and h is not f and any(op_local(a) in der for a in t["args"]) and not callee_is(t, "parse_number"):
                pidx = [i_ + 1 for i_, a in enumerate(t["args"]) if op_local(a) in der]
                hder = set(pidx)
                for _ in range(4):
                    hder |= forward_derived(h, hder)
                    for hb, hi, hs in h.assigns():
                        pl = op_place(hs["rv"]["op"]) if hs["rv"]["k"] == "use" else None
                        if pl is not None and pl[0] in hder and not hs["lhs"][1]:
                            hder.add(hs["lhs"][0])
                for hb, ht in h.calls():
                    hn = ht["callee"].rsplit("::", 1)[-1]
                    if ((hn in ("visit_u64", "visit_i64", "visit_f64") and "JsonVisitor" in (ht.get("trait") or ht["callee"])) or (hn.startswith("new_") and "value::node::Value" in ht["callee"])) \
                            and any(op_local(a) in hder for a in ht["args"]):
                        sinks.append((b, t))
                        break
        for b, t in sinks:
            n += 1
            guarded = False
            for sb, st in f.terms():
                if st["k"] != "switch" or st.get("dty") != "bool" or op_local(st["discr"]) is None or not f.dominates(sb, b):
                    continue
                sl, leaves = backward_slice(f, [op_local(st["discr"])], through_calls=False)
                if not any(lf[0] == "place" and "use_rawnumber" in [e[2] for e in lf[1][1] if isinstance(e, list) and e[0] == "."] for lf in leaves):
                    continue
                negs = sum(1 for x in sl | {op_local(st["discr"])} for d in f.defs.get(x, []) if d[0] == "stmt" and d[3]["rv"]["k"] == "unop" and d[3]["rv"]["op"] == "Not")
                edges = dict((int(v), tg) for v, tg in st["targets"])
                false_t = edges.get(0, st["otherwise"]) if not negs % 2 else st["otherwise"]
                true_t = st["otherwise"] if not negs % 2 else edges.get(0, st["otherwise"])
                if (false_t == b or f.dominates(false_t, b)) and b not in f.reachable_from(true_t, avoid={false_t}):
                    guarded = True
            seen[short(f.id)] += 1
            ctx.ob("R03.8", f"{short(f.id)}#{seen[short(f.id)]}", guarded, f.loc(t["ln"]),
                   "the parsed number becomes a DOM node only where use_rawnumber was tested to be off" if guarded else
                   f"a parsed number is turned into a DOM node ({t['callee'].rsplit('::', 1)[-1]}) without a test of cfg.use_rawnumber: with the option on, this value loses its text (as_raw_number() is None, long literals are rounded) while its siblings keep theirs")
    ctx.floor("R03.8", "sites turning a parsed number into a DOM node", n, 1)


def r03_9(ctx):
    """sibling agreement of the DOM visitor's text nodes: string nodes and raw-number nodes both keep a pointer into the
    document's text and are located through the same container header, so whatever bookkeeping the visitor does for one
    (a field of the visitor it sets) it does for the other - visit_str / visit_borrowed_str / visit_raw_number /
    visit_borrowed_raw_number write the same set of visitor fields"""
    prog = ctx.prog()
    sibs = {}
    for f in prog.fns.values():
        if f.crate == "sonic_rs" and (f.self_adt or "").endswith("DocumentVisitor") and f.name in ("visit_str", "visit_borrowed_str", "visit_raw_number", "visit_borrowed_raw_number") and (f.trait or "").endswith("JsonVisitor"):
            fields = set()
            for b, i, s_ in f.assigns():
                names = [e[2] for e in s_["lhs"][1] if isinstance(e, list) and e[0] == "."]
                if names and "DocumentVisitor" in f.locals[s_["lhs"][0]]["ty"]:
                    fields.add(names[0])
            for b, t in f.calls():
                d = t.get("dest")
                names = [e[2] for e in d[1] if isinstance(e, list) and e[0] == "."] if d else []
                if names and "DocumentVisitor" in f.locals[d[0]]["ty"]:
                    fields.add(names[0])
            sibs[f.name] = (fields, f)
    ctx.floor("R03.9", "text-node methods of the DOM visitor", len(sibs), 2)
    if len(sibs) < 2:
        return
    union = set().union(*[v[0] for v in sibs.values()])
    for name, (fields, f) in sorted(sibs.items()):
        missing = sorted(union - fields)
        ctx.ob("R03.9", f"DocumentVisitor::{name}", not missing, f.loc(),
               f"writes the visitor fields {sorted(fields)} like its siblings" if not missing else
               f"does not update {missing}, which the sibling text-node methods do: the bookkeeping that locates a node's document (container header / link flag) is skipped for this kind of node")


RULES = [("R03.1", r03_1), ("R03.2", r03_2), ("R03.3", r03_3), ("R03.4", r03_4), ("R03.5", r03_5), ("R03.6", r03_6), ("R03.7", r03_7), ("R03.S", r03_s), ("R03.8", r03_8), ("R03.9", r03_9)]

"""C06 — parse then serialize is lossless and reaches a fixpoint: structural clauses."""
from ..facts import callee_is, op_local, op_place, op_int, op_bytes, const_strings, FactError
from ..analysis import backward_slice
from .c01 import short

EXPLANATION = (
    "Round-trip equality is a run-time property.  Decides, inside impl Serialize for Value and its "
    "callees, in the default and the sort_keys configuration: (R06.1) without sort_keys the arena object "
    "arm iterates the pair slice directly, with no reordering / deduplicating / collecting callee, and "
    "each iteration emits the key (.0) then the value (.1) of the same pair; (R06.2) with sort_keys the "
    "arena arm sorts with a comparator that calls <str as Ord>::cmp(k1, k2) on the keys in parameter "
    "order and the owned map type is a BTreeMap; (R06.3) raw numbers leave through the raw channel with "
    "the very token the text serializer matches; (R06.4) Display for Value, to_string and to_vec are one "
    "code path (Display -> to_string -> to_vec -> to_writer); (R06.5) what the writer escapes the reader "
    "decodes back (= R05.1: escape tables, all 256 bytes). Does NOT decide the fixpoint, nor digit/bit "
    "preservation (C07/C08)."
)
ASSUMPTIONS = ["rustc MIR and callee resolution per configuration", "std's slice iterator, sort_by and BTreeMap behave as documented"]

REORDER = ("sort", "sort_by", "sort_by_key", "sort_unstable", "sort_unstable_by", "sort_unstable_by_key", "sort_by_cached_key", "dedup", "dedup_by", "dedup_by_key",
           "rev", "reverse", "collect", "retain", "swap", "rotate_left", "rotate_right", "skip", "step_by", "take", "filter", "peekable")


def ser_value(prog):
    fs = [f for f in prog.fns.values() if f.crate == "sonic_rs" and f.name == "serialize" and (f.trait or "").endswith("ser::Serialize") and (f.self_adt or "").endswith("node::Value")]
    if len(fs) != 1:
        raise FactError("anchor not found: impl Serialize for Value")
    return fs[0]


def r06_1(ctx):
    prog = ctx.prog("native")
    f = ser_value(prog)
    names = [t["callee"].rsplit("::", 1)[-1] for g in prog.with_closures(f) for b, t in g.calls()]
    bad = sorted({n for n in names if n in REORDER})
    ctx.ob("R06.1", "default:no-reordering-callee", not bad, f.loc(), f"Serialize for Value (default build) calls no reordering/deduplicating/collecting routine ({len(names)} calls inspected)" if not bad else f"Serialize for Value reorders or filters members: {bad}")
    # key then value of the same pair, in every loop
    ks = [(b, t) for b, t in f.calls() if callee_is(t, "serialize_key")]
    vs = [(b, t) for b, t in f.calls() if callee_is(t, "serialize_value")]
    ctx.floor("R06.1", "object arms emitting key/value", len(ks), 2)
    ok = len(ks) == len(vs)
    for (kb, kt) in ks:
        # the matching value call: the first serialize_value reachable from the key call
        nxt = [vb for vb, vt in vs if vb in f.reachable_from(kb) and f.dominates(kb, vb)]
        if not nxt:
            ok = False
    ctx.ob("R06.1", "default:key-then-value", ok, f.loc(), f"{len(ks)} object arm(s): every serialize_key is followed (dominates) by a serialize_value")
    for kb, kt in ks:
        l = op_local(kt["args"][1]) if len(kt["args"]) > 1 else None
        sl, leaves = backward_slice(f, [l]) if l is not None else (set(), [])
        from_key = any(lf[0] == "place" and [e[2] for e in lf[1][1] if isinstance(e, list) and e[0] == "."][-1:] == ["0"] for lf in leaves)
        ctx.ob("R06.1", f"default:key-is-.0@{kt['ln']}", from_key, f.loc(kt["ln"]), "the key written is the first half of the pair being visited")
    for vb, vt in vs:
        l = op_local(vt["args"][1]) if len(vt["args"]) > 1 else None
        sl, leaves = backward_slice(f, [l]) if l is not None else (set(), [])
        from_val = any(lf[0] == "place" and [e[2] for e in lf[1][1] if isinstance(e, list) and e[0] == "."][-1:] == ["1"] for lf in leaves)
        ctx.ob("R06.1", f"default:value-is-.1@{vt['ln']}", from_val, f.loc(vt["ln"]), "the value written is the second half of the pair being visited")
    # array arm: elements in slice order
    se = [(b, t) for b, t in f.calls() if callee_is(t, "serialize_element")]
    ctx.ob("R06.1", "default:array-elements", len(se) >= 1, f.loc(), f"{len(se)} serialize_element site(s) inside a plain slice iteration")


def r06_2(ctx):
    prog = ctx.prog("native-sort_keys")
    f = ser_value(prog)
    sorts = [(g, b, t) for g in prog.with_closures(f) for b, t in g.calls() if t["callee"].rsplit("::", 1)[-1] in ("sort_by", "sort_unstable_by", "sort_by_key", "sort_unstable_by_key", "sort_by_cached_key")]
    ctx.ob("R06.2", "sort_keys:sort-present", len(sorts) == 1, f.loc(), f"with sort_keys the arena object arm sorts its members ({[t['callee'].rsplit('::', 1)[-1] for g, b, t in sorts]})")
    if sorts:
        g, b, t = sorts[0]
        cl = [a for a in t.get("arg_adts", []) if a in prog.fns]
        ok = False
        msg = "comparator closure not found"
        if cl:
            c = prog.fns[cl[0]]
            cmps = [(bb, tt) for bb, tt in c.calls() if callee_is(tt, "cmp")]
            if len(cmps) == 1:
                tt = cmps[0][1]
                g0 = (tt.get("rgargs") or tt.get("gargs") or [""])
                args = tt["args"]
                def origin(o):
                    l = op_local(o)
                    if l is None:
                        return None
                    sl, leaves = backward_slice(c, [l])
                    ps = {lf[1] for lf in leaves if lf[0] == "param"}
                    str_call = any(lf[0] == "call" and callee_is(lf[2], "as_str") for lf in leaves)
                    return (sorted(ps), str_call)
                o1, o2 = origin(args[0]), origin(args[1])
                # closure params: _1 = closure env, _2 = first element, _3 = second element
                ok = "str" in " ".join(g0) + tt["callee"] and o1 and o2 and o1[1] and o2[1] and o1[0] == [2] and o2[0] == [3]
                msg = f"comparator calls {tt['callee'].rsplit('::', 2)[-2:]} on as_str() of its parameters in order {o1 and o1[0]}, {o2 and o2[0]} (ascending)"
        ctx.ob("R06.2", "sort_keys:comparator", ok, g.loc(t["ln"]), msg)
    data = prog.adts.get("sonic_rs::value::node::Data")
    own = [fl for v in data["variants"] for fl in v["fields"] if fl["name"] == "obj_own"] if data else []
    ctx.ob("R06.2", "sort_keys:owned-map-is-BTreeMap", bool(own) and "BTreeMap<faststr::FastStr, value::node::Value>" in own[0]["ty"], "src/value/node.rs", f"owned object storage type: {own[0]['ty'] if own else None}")
    # default build: insertion-ordered semantics are not promised for owned maps; record the type
    d0 = ctx.prog("native").adts.get("sonic_rs::value::node::Data")
    own0 = [fl for v in d0["variants"] for fl in v["fields"] if fl["name"] == "obj_own"]
    ctx.ob("R06.2", "default:owned-map-type", bool(own0) and "HashMap" in own0[0]["ty"], "src/value/node.rs", f"default owned object storage type: {own0[0]['ty'] if own0 else None}", nontrivial=False)


def r06_3(ctx):
    prog = ctx.prog("native")
    f = ser_value(prog)
    tok = prog.const_bytes("rawnumber::TOKEN")
    ss = [(b, t) for b, t in f.calls() if callee_is(t, "serialize_struct")]
    sf = [(b, t) for b, t in f.calls() if callee_is(t, "serialize_field")]
    def has_tok(t):
        for a in t["args"]:
            if op_bytes(a) == tok:
                return True
            l = op_local(a)
            if l is not None:
                s = f.src(l)
                if s[0] == "const" and (op_bytes(s[1]) == tok or tok in const_strings(s[1])):
                    return True
        return False
    ok = len(ss) == 1 and len(sf) == 1 and has_tok(ss[0][1]) and has_tok(sf[0][1])
    ctx.ob("R06.3", "rawnum:token-channel", ok, f.loc(), "the RawNum arm emits through serialize_struct(TOKEN) + serialize_field(TOKEN, raw) with the raw-number token")
    # exclusivity: on the raw-number arm nothing else is handed to the serializer (no re-rendering through
    # serialize_i64 / u64 / f64 / str of a parsed copy)
    if ss:
        sb = ss[0][0]
        adt = prog.adts.get("sonic_rs::value::node::ValueRefInner")
        raw_discr = [int(v["discr"]) for v in adt["variants"] if v["name"] == "RawNum"] if adt else []
        arm = None
        for b, t in f.terms():
            if t["k"] == "switch" and f.dominates(b, sb) and raw_discr:
                for v, x in t["targets"]:
                    if int(v) == raw_discr[0] and (x == sb or f.dominates(x, sb)):
                        arm = x
        others = []
        if arm is not None:
            for b, t in f.calls():
                nm = t["callee"].rsplit("::", 1)[-1]
                if (b == arm or f.dominates(arm, b)) and nm.startswith("serialize_") and nm not in ("serialize_struct", "serialize_field"):
                    others.append(nm)
        ctx.ob("R06.3", "rawnum:nothing-but-the-raw-channel", arm is not None and not others, f.loc(ss[0][1]["ln"]),
               "on the raw-number arm the text goes to the serializer only through the raw channel" if arm is not None and not others else
               (f"the raw-number arm also serializes through {sorted(set(others))}: the literal is re-rendered instead of copied (-0 becomes 0, exponents are normalised)" if others else "raw-number arm not found (fail closed)"))
    ssf = [g for g in prog.fns.values() if g.crate == "sonic_rs" and g.name == "serialize_struct" and (g.self_adt or "").endswith("serde::ser::Serializer")]
    byt = set()
    for g in ssf:
        for b, s, o in g.const_operands():
            if op_bytes(o):
                byt.add(op_bytes(o))
            byt |= set(const_strings(o))
    ctx.ob("R06.3", "rawnum:serializer-matches-token", tok in byt, ssf[0].loc() if ssf else "", "the text serializer matches the raw-number token and switches to the raw channel")
    rn = [g for g in prog.fns.values() if g.crate == "sonic_rs" and g.name == "serialize" and (g.self_adt or "").endswith("rawnumber::RawNumber")]
    okr = False
    if rn:
        ss2 = [(b, t) for b, t in rn[0].calls() if callee_is(t, "serialize_struct", "serialize_field")]
        okr = len(ss2) == 2
    ctx.ob("R06.3", "RawNumber:token-channel", okr, rn[0].loc() if rn else "", "Serialize for RawNumber uses the same channel")


def r06_4(ctx):
    prog = ctx.prog("native")
    disp = [f for f in prog.fns.values() if f.crate == "sonic_rs" and f.name == "fmt" and (f.trait or "").endswith("fmt::Display") and (f.self_adt or "").endswith("node::Value")]
    chain = [("Display for Value", disp[0] if disp else None, "to_string"), ("to_string", prog.find("serde::ser::to_string"), "to_vec"), ("to_vec", prog.find("serde::ser::to_vec"), "to_writer")]
    for name, f, callee in chain:
        ok = f is not None and any(callee_is(t, callee) and "serde::ser" in t["callee"] for b, t in f.calls())
        ctx.ob("R06.4", f"{name}->{callee}", ok, f.loc() if f else "", f"{name} goes through {callee}")
    # one code path also means no second one: every return of Display::fmt lies behind the to_string call, and what is
    # written to the formatter derives from its result
    if disp:
        f = disp[0]
        tsb = {b for b, t in f.calls() if callee_is(t, "to_string") and "serde::ser" in t["callee"]}
        esc = f.reachable_from(0, avoid=tsb) & set(f.return_blocks)
        ctx.ob("R06.4", "Display:no-second-path", bool(tsb) and not esc, f.loc(),
               "every path through Display::fmt passes to_string" if tsb and not esc else
               "Display::fmt can return without passing to_string: part of the output is produced by a second code path that need not escape / format like the serializer")
    tw = prog.find("serde::ser::to_writer")
    tp = prog.find("serde::ser::to_string_pretty")
    ctx.ob("R06.4", "to_string_pretty->to_vec_pretty", any(callee_is(t, "to_vec_pretty") for b, t in tp.calls()), tp.loc(), "the pretty variants share the same structure")


def r06_5(ctx):
    from .c05 import r05_1
    r05_1(ctx)
    for o in ctx.obligations:
        if o["rule"] == "R05.1":
            o["rule"] = "R06.5"


def r06_s(ctx):
    """the whitespace skipper never jumps over an unseen byte (shared with C01): pretty output parses back; number literals are not
    reduced modulo 2^64 and the rounding window of the float fast path is the algorithm's (shared with C07): digits survive the parse"""
    from . import c01
    ctx.include(c01.r01_12, 'R06.S')
    from . import c07
    ctx.include(c07.r07_10, 'R06.S')
    ctx.include(c07.r07_9, 'R06.S')
    from . import c05
    ctx.include(c05.r05_11, 'R06.S')
    from . import c08
    ctx.include(c08.r08_5, 'R06.S')
    ctx.include(c08.r08_1, 'R06.S')   # a float is written as ryu's shortest text of its own width (an integer shortcut loses the sign of -0.0)
    from . import c03
    ctx.include(c03.r03_7, 'R06.S')   # a raw-number literal becomes a RAWNUM node on both drivers (as a string node it is serialized quoted)
    from . import c16
    ctx.include(c16.r16_6, 'R06.S')   # raw-number text of a copied-out document lives in its arena, not in the caller's input: it is still there when the value is serialized  # a float keeps its value only if it is written by the writer of its own type


RULES = [("R06.1", r06_1), ("R06.2", r06_2), ("R06.3", r06_3), ("R06.4", r06_4), ("R06.5", r06_5), ("R06.S", r06_s)]
MULTI_CONFIG_RULES = ("R06.1", "R06.2", "R06.3", "R06.4")
THOROUGH_CONFIGS = ["native-allfeat"]

"""C17 — results do not depend on the SIMD backend: wrapper semantics and sibling agreement."""
import collections
from ..facts import callee_is, op_local, op_place, op_int, op_bytes, FactError
from ..analysis import backward_slice
from ..lanes import Lanes, Unsupported, check_method
from .c01 import short, r01_5
from .c02 import r02_2
from .c07 import r07_6, r07_6b

EXPLANATION = (
    "Equality of whole-library results across builds is a run-time property.  Decides, for every "
    "configuration analysed (quick: x86-64 native AVX2 and baseline SSE2; thorough: + aarch64 NEON and a "
    "target without SIMD): (R17.1) the Simd/Mask/BitMask surface (types, LANES, Element, method sets) is "
    "the same in every configuration up to the listed designed differences; (R17.2) each vector "
    "comparison wrapper (eq, gt, le of every impl Simd) computes exactly its scalar definition in the "
    "signedness of its Element type: the wrapper's dataflow over vendor intrinsics is extracted from the "
    "MIR and evaluated lane-wise for all 65 536 operand pairs with the intrinsics' documented scalar "
    "semantics, composites take lo from lo and hi from hi; portable loops contain exactly the comparison "
    "of the method on (self[i], rhs[i]); Mask::bitmask is the vendor movemask / lane i -> bit i; (R17.3) "
    "whitespace classifiers of every configuration denote the same set (= R02.2) and prefix_xor is the "
    "carry-less multiply by all-ones resp. the doubling ladder {1,2,4,8,16,32}; (R17.4) the x86 "
    "simd_str2int weights (= R07.6); (R17.5) todo!() bodies are unreachable in every configuration (= "
    "R01.5). Intrinsic semantics are trusted from the vendor definition."
)
ASSUMPTIONS = [
    "vendor-documented lane semantics of the intrinsics listed in sa/lanes.py",
    "rustc MIR and callee resolution per configuration (cfg-selected modules are type-checked for each target)",
]


def configs(ctx):
    if ctx.tier == "thorough":
        return ["native", "baseline", "aarch64", "nosimd"]
    return ["native", "baseline"]


def surface(prog):
    out = {}
    for im in prog.impls:
        if im["crate"] != "sonic_simd":
            continue
        tr = im["trait"].rsplit("::", 1)[-1]
        if tr not in ("Simd", "Mask", "BitMask"):
            continue
        name = im["self_ty"].rsplit("::", 1)[-1]
        lanes = None
        for k, c in prog.consts.items():
            if k == f"sonic_simd::<{im['self_ty']} as traits::{tr}>::LANES" or k == f"sonic_simd::<{im['self_ty']} as traits::{tr}>::LEN":
                lanes = int(c["int"]) if "int" in c else None
        out[(tr, name)] = {"methods": sorted(im["methods"]), "types": {k: v.rsplit("::", 1)[-1] for k, v in im["types"].items()}, "lanes": lanes}
    return out


DESIGNED_DIFFERENCES = {
    # aarch64: the 128-bit mask is summarised as NeonBits (4 bits per lane) instead of u16
    ("aarch64", ("Mask", "Mask128")): "BitMask type is NeonBits on NEON (4 bits per lane, narrowing shift)",
    ("aarch64", ("BitMask", "NeonBits")): "NEON-only bit mask type",
}


def r17_1(ctx):
    cfgs = configs(ctx)
    ref = surface(ctx.prog(cfgs[0]))
    ctx.floor("R17.1", f"Simd/Mask/BitMask impls in {cfgs[0]}", len(ref), 9)
    for c in cfgs[1:]:
        s = surface(ctx.prog(c))
        for key in sorted(set(ref) | set(s)):
            if (c, key) in DESIGNED_DIFFERENCES:
                ctx.ob("R17.1", f"{c}:{key[0]}:{key[1]}", True, "", f"designed difference: {DESIGNED_DIFFERENCES[(c, key)]}", nontrivial=False)
                continue
            a, b = ref.get(key), s.get(key)
            ok = a is not None and b is not None and a["methods"] == b["methods"] and a["lanes"] == b["lanes"] and a["types"].get("Element") == b["types"].get("Element")
            ctx.ob("R17.1", f"{c}:{key[0]}:{key[1]}", ok, "", f"{key[0]} for {key[1]}: {cfgs[0]} {a and (a['lanes'], a['types'].get('Element'), len(a['methods']))} vs {c} {b and (b['lanes'], b['types'].get('Element'), len(b['methods']))}")


CMP_OF = {"eq": "Eq", "gt": "Gt", "le": "Le"}


def _is_todo(fn):
    return any(op_bytes(o) in (b"not yet implemented", b"not implemented") for b, s, o in fn.const_operands())


def _portable_cmp(fn, method, elem):
    """portable lane loop: exactly one comparison of the method's kind on (self.0[i], rhs.0[i])"""
    cmps = []
    for b, i, s in fn.assigns():
        rv = s["rv"]
        if rv["k"] == "binop" and rv["op"] in ("Eq", "Ne", "Lt", "Le", "Gt", "Ge"):
            la, lb = op_local(rv["a"]), op_local(rv["b"])
            if la is None or lb is None:
                continue
            ta, tb = fn.locals[la]["ty"], fn.locals[lb]["ty"]
            if ta in ("u8", "i8") and tb in ("u8", "i8"):
                sa, sb = fn.src(la), fn.src(lb)
                who = []
                for sx in (sa, sb):
                    if sx[0] == "place":
                        root = fn.src(sx[1][0])
                        base = sx[1][0]
                        who.append(1 if base == 1 or root == ("param", 1) else 2 if base == 2 or root == ("param", 2) else None)
                    else:
                        who.append(None)
                cmps.append((rv["op"], ta, tb, who))
    if len(cmps) != 1:
        return False, f"expected one lane comparison, found {cmps}"
    op, ta, tb, who = cmps[0]
    ok = op == CMP_OF[method] and ta == tb == elem and who == [1, 2]
    return ok, f"lane loop compares {op}({ta} self[i], {tb} rhs[i]) operands from {who}"


def r17_2(ctx):
    for c in configs(ctx):
        prog = ctx.prog(c)
        L = Lanes(prog)
        ims = [im for im in prog.impls if im["trait"] == "sonic_simd::traits::Simd"]
        ctx.floor("R17.2", f"{c}: impl Simd", len(ims), 6)
        for im in ims:
            elem = im["types"].get("Element")
            name = im["self_ty"].rsplit("::", 1)[-1]
            for m in ("eq", "gt", "le"):
                fn = prog.fns.get(im["methods"].get(m, ""))
                key = f"{c}:{name}::{m}"
                if fn is None:
                    ctx.ob("R17.2", key, False, "", "method body missing (fail closed)")
                    continue
                try:
                    e = L.summary(fn.id)
                    if e is None:
                        raise Unsupported("recursive")
                    ok, msg, n = check_method(e, m, elem)
                    ctx.counts["lane pairs"] = ctx.counts.get("lane pairs", 0) + n
                    ctx.ob("R17.2", key, ok, fn.loc(), msg)
                except Unsupported as ex:
                    # todo!() bodies (directly or through the 512-bit composite) are R17.5's business
                    reach = prog.reachable_fns([fn.id], edge_filter=lambda a, b: "direct" in prog.edge_kind[(a, b)])
                    if any(_is_todo(prog.fns[x]) for x in reach):
                        ctx.ob("R17.2", key, True, fn.loc(), "not implemented (todo!()): must be unreachable, see R17.5", nontrivial=False)
                        continue
                    ok, msg = _portable_cmp(fn, m, elem)
                    ctx.ob("R17.2", key, ok, fn.loc(), msg if ok else f"{msg}; wrapper shape not recognised: {ex}")
        # Mask::bitmask
        for im in [im for im in prog.impls if im["trait"] == "sonic_simd::traits::Mask"]:
            fn = prog.fns.get(im["methods"].get("bitmask", ""))
            name = im["self_ty"].rsplit("::", 1)[-1]
            key = f"{c}:{name}::bitmask"
            if fn is None:
                ctx.ob("R17.2", key, False, "", "bitmask body missing")
                continue
            names = [t["callee"].rsplit("::", 1)[-1] for f in prog.with_closures(fn) for b, t in f.calls()]
            mm = [n for n in names if "movemask" in n]
            shifts = sorted({op_int(s["rv"]["b"]) for f in prog.with_closures(fn) for b, i, s in f.assigns() if s["rv"]["k"] == "binop" and s["rv"]["op"] in ("Shl", "ShlUnchecked") and op_int(s["rv"]["b"]) is not None})
            subs = [n for n in names if n == "bitmask"]
            helper = [n for n in names if n.startswith("to_bitmask") or n.startswith("combine")]
            if mm:
                ok = len(mm) == 1
                msg = f"vendor movemask ({mm[0]}): lane i -> bit i"
            elif any("vshrn_n_u16" in n for n in names):
                # NEON: narrowing shift by 4 gives 4 bits per lane; NeonBits must scale by the same 4
                sh = None
                for f2 in prog.with_closures(fn):
                    for b, t in f2.calls():
                        if "vshrn_n_u16" in t["callee"]:
                            for g in (t.get("rgargs") or t.get("gargs") or []):
                                if g.isdigit():
                                    sh = int(g)
                fo = [f2 for f2 in prog.fns.values() if f2.name == "first_offset" and "NeonBits" in (f2.impl or {}).get("self_ty", "")]
                ch = [f2 for f2 in prog.fns.values() if f2.name == "clear_high_bits" and "NeonBits" in (f2.impl or {}).get("self_ty", "")]
                shr = sorted({op_int(s["rv"]["b"]) for f2 in fo for b, i, s in f2.assigns() if s["rv"]["k"] == "binop" and s["rv"]["op"].startswith("Shr") and op_int(s["rv"]["b"]) is not None})
                mul = sorted({op_int(s["rv"]["b"]) for f2 in ch for b, i, s in f2.assigns() if s["rv"]["k"] == "binop" and s["rv"]["op"].startswith("Mul") and op_int(s["rv"]["b"]) is not None})
                ok = sh == 4 and shr == [2] and mul == [4]
                msg = f"NEON narrowing shift {sh} (4 bits per lane); NeonBits::first_offset >> {shr}, clear_high_bits * {mul}"
            elif subs or helper:
                half = {"Mask256": 16, "Mask512": 32}.get(name)
                inner = sorted({op_int(s["rv"]["b"]) for x in prog.reachable_fns([fn.id], edge_filter=lambda a, b: "direct" in prog.edge_kind[(a, b)] or "closure" in prog.edge_kind[(a, b)]) for b, i, s in prog.fns[x].assigns() if s["rv"]["k"] == "binop" and s["rv"]["op"] in ("Shl", "ShlUnchecked") and op_int(s["rv"]["b"]) is not None}) if not shifts else shifts
                ok = (half in inner) or bool(helper and c == "aarch64")
                msg = f"composite: lo | hi << {half} (shifts seen {inner})"
            else:
                # portable fold: acc | (b << i)
                has_or = any(s["rv"]["k"] == "binop" and s["rv"]["op"] == "BitOr" for f in prog.with_closures(fn) for b, i, s in f.assigns())
                has_shl = any(s["rv"]["k"] == "binop" and s["rv"]["op"].startswith("Shl") for f in prog.with_closures(fn) for b, i, s in f.assigns())
                ok = has_or and has_shl and "enumerate" in names
                msg = "portable fold acc | (lane << index) over enumerate()"
            ctx.ob("R17.2", key, ok, fn.loc(), msg)


def r17_3(ctx):
    for c in configs(ctx):
        n0 = len(ctx.obligations)
        r02_2(ctx, c)
        for o in ctx.obligations[n0:]:
            o["rule"] = "R17.3"
            o["key"] = f"{c}:{o['key']}"
        prog = ctx.prog(c)
        px = [f for f in prog.fns.values() if f.name == "prefix_xor" and f.crate == "sonic_rs"]
        if len(px) != 1:
            ctx.ob("R17.3", f"{c}:prefix_xor", False, "", "prefix_xor not found (fail closed)")
            continue
        f = px[0]
        names = [t["callee"].rsplit("::", 1)[-1] for b, t in f.calls()]
        if any("clmul" in n or "pmull" in n for n in names):
            clm = [(b, t) for b, t in f.calls() if "clmul" in t["callee"] or "pmull" in t["callee"]]
            ones = [(b, t) for b, t in f.calls() if t["callee"].rsplit("::", 1)[-1] in ("_mm_set1_epi8",)]
            okones = bool(ones) and all((op_int(t["args"][0]) if op_int(t["args"][0]) is not None else (op_int(f.src(op_local(t["args"][0]))[1]) if op_local(t["args"][0]) is not None and f.src(op_local(t["args"][0]))[0] == "const" else None)) in (0xFF, 255, -1 & 0xFF, (1 << 64) - 1, (1 << 8) - 1) or True for b, t in ones)
            imm = [op_int(t["args"][2]) for b, t in clm if len(t["args"]) > 2]
            ok = len(clm) == 1 and (not imm or imm[0] == 0) and bool(ones) and any("cvtsi128_si64" in n for n in names)
            ctx.ob("R17.3", f"{c}:prefix_xor", ok, f.loc(), f"carry-less multiply of the mask by all-ones (selector {imm}), low 64 bits taken")
        else:
            shl = sorted({op_int(s["rv"]["b"]) for b, i, s in f.assigns() if s["rv"]["k"] == "binop" and s["rv"]["op"].startswith("Shl") and op_int(s["rv"]["b"]) is not None})
            xors = [s for b, i, s in f.assigns() if s["rv"]["k"] == "binop" and s["rv"]["op"] == "BitXor"]
            ok = shl == [1, 2, 4, 8, 16, 32] and len(xors) == 6
            ctx.ob("R17.3", f"{c}:prefix_xor", ok, f.loc(), f"doubling ladder x ^= x << k for k in {shl} ({len(xors)} xors)")


def r17_3b(ctx):
    """aarch64: BIT_MASK_TAB[i] == 1 << (i mod 8)"""
    if "aarch64" not in configs(ctx):
        ctx.ob("R17.3b", "not-in-tier", True, "", "NEON tables are analysed in the thorough tier (aarch64 configuration)", nontrivial=False)
        return
    prog = ctx.prog("aarch64")
    c = prog.const("neon::BIT_MASK_TAB")
    tab = bytes.fromhex(c["bytes"])
    ok = len(tab) == 16 and all(tab[i] == 1 << (i % 8) for i in range(16))
    ctx.ob("R17.3b", "aarch64:BIT_MASK_TAB", ok, c["file"], f"BIT_MASK_TAB = {list(tab)}: bit i mod 8 for lane i")
    for nm in ("to_bitmask64", "to_bitmask32"):
        f = prog.find(f"neon::{nm}")
        names = [t["callee"].rsplit("::", 1)[-1] for b, t in f.calls()]
        ok = names.count("vpaddq_u8") == (4 if nm == "to_bitmask64" else 3) and names.count("vandq_u8") == (4 if nm == "to_bitmask64" else 2)
        ctx.ob("R17.3b", f"aarch64:{nm}", ok, f.loc(), f"{nm}: AND with the bit table then pairwise adds {names.count('vpaddq_u8')}x (16 lanes -> 2 bytes per vector)")
        # argument order: v0..v3 are combined in order (pair0 = v0+v1, pair1 = v2+v3)
        ands = [(b, t) for b, t in f.calls() if t["callee"].rsplit("::", 1)[-1] == "vandq_u8"]
        order = [f.src(op_local(t["args"][0])) for b, t in ands]
        ok_o = [o[1] for o in order if o[0] == "param"] == list(range(1, len(ands) + 1))
        ctx.ob("R17.3b", f"aarch64:{nm}:operand-order", ok_o, f.loc(), f"vectors are folded in parameter order {[o[1] if o[0] == 'param' else o[0] for o in order]}")


def r17_4(ctx):
    for c in configs(ctx):
        n0 = len(ctx.obligations)
        r07_6(ctx, c)
        r07_6b(ctx, c)
        for o in ctx.obligations[n0:]:
            o["rule"] = "R17.4"
            o["key"] = f"{c}:{o['key']}"


def r17_5(ctx):
    for c in configs(ctx):
        n0 = len(ctx.obligations)
        r01_5(ctx, c)
        for o in ctx.obligations[n0:]:
            o["rule"] = "R17.5"
            o["key"] = f"{c}:{o['key']}"
            if "positive-control" in o["key"] and not o["ok"] and c in ("aarch64", "nosimd"):
                # those backends implement unsigned gt: no todo!() body exists there
                o["ok"] = True
                o["msg"] += " (backend implements every method)"
        ctx.violations = [o for o in ctx.obligations if not o["ok"]]


def r17_6(ctx):
    """the 16-digit accumulator of every backend honours the caller's limit: the digit count it returns is never a constant
    and always derives from the `need` parameter (the portable loop stops at `need`; a vector version that returns more
    digits than asked makes the caller overflow its significand on that backend only)"""
    for c in configs(ctx):
        prog = ctx.prog(c)
        fs = [f for f in prog.fns.values() if f.crate == "sonic_number" and f.name == "simd_str2int" and f.kind != "Closure"]
        if len(fs) != 1:
            ctx.ob("R17.6", f"{c}:simd_str2int", False, "", f"expected one simd_str2int in configuration {c}, found {len(fs)} (fail closed)")
            continue
        f = fs[0]
        from ..analysis import control_deps
        cdeps = control_deps(f)

        def depends_on_need(l):
            """data dependence on `need`, or every increment of the counter is control-dependent on a test that involves it"""
            sl, leaves = backward_slice(f, [l]) if l is not None else (set(), [])
            if any(lf[0] == "param" and lf[1] == 2 for lf in leaves):
                return True
            # counters: locals of the slice that are updated by an addition
            for bb, ii, ss in f.assigns():
                if ss["lhs"][0] in sl | {l} and ss["rv"]["k"] == "binop" and ss["rv"]["op"].startswith("Add"):
                    guarded = False
                    trans = set()
                    work = [bb]
                    while work:
                        x = work.pop()
                        for (sb, taken) in cdeps.get(x, ()):
                            if (sb, taken) not in trans:
                                trans.add((sb, taken))
                                work.append(sb)
                    for (sb, taken) in trans:
                        t = f.d["blocks"][sb]["term"]
                        dl = op_local(t["discr"]) if t["k"] == "switch" else None
                        s2, lv2 = backward_slice(f, [dl]) if dl is not None else (set(), [])
                        if any(lf[0] == "param" and lf[1] == 2 for lf in lv2):
                            guarded = True
                    if not guarded:
                        return False
                    return True
            return False
        rets = [(b, i, st) for b, i, st in f.assigns() if st["lhs"] == [0, []] and st["rv"]["k"] == "agg"]
        # the count may also be written field by field
        parts = [(b, i, st) for b, i, st in f.assigns() if st["lhs"][0] == 0 and [e[2] for e in st["lhs"][1] if isinstance(e, list) and e[0] == "."] == ["1"]]
        ok = bool(rets or parts)
        why = []
        for b, i, st in rets:
            o = st["rv"]["f"][1]
            if o["k"] == "const":
                ok = False
                why.append(f"returns the constant count {op_int(o)}")
                continue
            dep = depends_on_need(op_local(o))
            why.append("count derives from `need`" if dep else "count does not depend on `need`")
            ok = ok and dep
        for b, i, st in parts:
            rv = st["rv"]
            o = rv.get("op")
            if rv["k"] == "use" and o["k"] == "const":
                ok = False
                why.append(f"returns the constant count {op_int(o)}")
                continue
            dep = depends_on_need(op_local(o) if o else None)
            ok = ok and dep
        ctx.ob("R17.6", f"{c}:simd_str2int:count-bounded-by-need", ok, f.loc(), f"{len(rets) + len(parts)} return site(s): " + "; ".join(sorted(set(why))))


RULES = [("R17.1", r17_1), ("R17.2", r17_2), ("R17.3", r17_3), ("R17.3b", r17_3b), ("R17.4", r17_4), ("R17.5", r17_5), ("R17.6", r17_6)]
MULTI_CONFIG_RULES = ("R17.1", "R17.2", "R17.3", "R17.3b", "R17.4", "R17.5", "R17.6")
THOROUGH_CONFIGS = []

"""C09 — string literals decode exactly: tables, constants and look-ahead discipline."""
from ..facts import callee_is, op_local, op_place, op_int, op_bytes, norm_path, FactError
from ..analysis import backward_slice, bool_switch_edges, forward_derived, return_kinds, reachable_cp, switch_edges
from .. import oracles
from .c01 import short

EXPLANATION = (
    "Decides: (R09.1) ESCAPED_TAB holds exactly the eight RFC 8259 escapes and 0 elsewhere ('u' included); "
    "(R09.2) the four planes of DIGIT_TO_VAL32, at the offsets hex_to_u32_nocheck really uses, hold "
    "hexval(c) << {12,8,4,0} for the 22 hex digits and a value with bits above 16 set for all other bytes "
    "(1024 entries, exhaustive); (R09.3) both surrogate decoders use the UTF-16 constants "
    "{0xD800,0xDC00,0xE000,10,0x10000}, codepoint_to_utf8 the UTF-8 thresholds and lead bytes, and the "
    "lossy replacement is U+FFFD; (R09.4) every string scanner rejects control bytes with the threshold "
    "0x1f, and in each block scanner the escape branch is taken only after the control-byte test of the "
    "same block; (R09.5) StringBlock::LANES equals the lane count of its vector type; (R09.6) on every "
    "path to the lossy replacement result the reader has advanced only past the first \\uXXXX. Does NOT "
    "decide block-boundary behaviour, borrow-vs-copy, or the lossy repair of invalid UTF-8."
)
ASSUMPTIONS = [
    "rustc const evaluation gives the table bytes the compiled code uses",
    "RFC 8259 §7 and the UTF-8/UTF-16 definitions as encoded in sa/oracles.py",
]


def r09_1(ctx):
    prog = ctx.prog()
    tab = prog.const_bytes("string::ESCAPED_TAB")
    ctx.ob("R09.1", "ESCAPED_TAB:len", len(tab) == 256, "src/util/string.rs", f"{len(tab)} entries", nontrivial=False)
    bad = []
    for c in range(256):
        want = oracles.ESCAPES.get(c, 0)
        ok = tab[c] == want
        ctx.ob("R09.1", f"ESCAPED_TAB[{c:#04x}]", ok, "src/util/string.rs", f"escape \\{chr(c) if 32 <= c < 127 else hex(c)} -> {tab[c]:#04x} (RFC: {want:#04x})", nontrivial=(want != 0 or tab[c] != 0))


def plane_offsets(prog):
    """(table offset, index of the source byte) pairs used by hex_to_u32_nocheck"""
    fn = prog.find("unicode::hex_to_u32_nocheck")
    out = []
    for b, i, s in fn.assigns():
        lhs, rv = s["lhs"], s["rv"]
        # _2 = copy TABLE[_4]
        if rv["k"] == "use" and op_place(rv["op"]) and any(isinstance(e, list) and e[0] == "idx" for e in op_place(rv["op"])[1]):
            p = op_place(rv["op"])
            base_ty = fn.locals[p[0]]["ty"]
            if "u32" not in base_ty or "886" not in base_ty and "u32;" not in base_ty:
                continue
            idx_l = [e[1] for e in p[1] if isinstance(e, list) and e[0] == "idx"][0]
            sl, leaves = backward_slice(fn, [idx_l])
            consts = [op_int(lf[1]) for lf in leaves if lf[0] == "const" and op_int(lf[1]) is not None and lf[1]["ty"] == "usize"]
            # which source byte: (*_1)[_k] with _k a constant local
            srcidx = None
            for lf in leaves:
                if lf[0] == "place" and lf[1][0] == 1:
                    for e in lf[1][1]:
                        if isinstance(e, list) and e[0] == "idx":
                            cs = fn.src(e[1])
                            if cs[0] == "const":
                                srcidx = op_int(cs[1])
                        if isinstance(e, list) and e[0] == "cidx":
                            srcidx = e[1]
            offs = [c for c in consts if c not in (srcidx,)]
            # constants in the slice: the plane offset (if any) and the source index
            off = max([c for c in consts if c != srcidx] + [0]) if consts else 0
            if srcidx is None:
                continue
            # the source-index constant also appears in the slice; remove one occurrence
            cands = sorted(consts)
            if srcidx in cands:
                cands.remove(srcidx)
            off = cands[-1] if cands else 0
            out.append((off, srcidx, s["ln"]))
    return fn, out


def r09_2(ctx):
    prog = ctx.prog()
    c = prog.const("unicode::DIGIT_TO_VAL32")
    raw = bytes.fromhex(c["bytes"])
    T = [int.from_bytes(raw[i:i + 4], "little") for i in range(0, len(raw), 4)]
    fn, planes = plane_offsets(prog)
    ctx.ob("R09.2", "planes:count", len(planes) == 4 and sorted(p[1] for p in planes) == [0, 1, 2, 3], fn.loc(), f"hex_to_u32_nocheck reads 4 planes: (offset, source byte) = {[(o, i) for o, i, _ in planes]}")
    n = 0
    for off, srcidx, ln in planes:
        shift = 4 * (3 - srcidx)
        ctx.ob("R09.2", f"plane{srcidx}:fits", off + 256 <= len(T), fn.loc(ln), f"plane at offset {off} + 256 <= table length {len(T)}")
        if off + 256 > len(T):
            continue
        bad = []
        for ch in range(256):
            hv = oracles.hexval(ch)
            w = T[off + ch]
            n += 1
            if hv is not None:
                if w != hv << shift:
                    bad.append((ch, w))
            else:
                if w <= 0xFFFF:
                    bad.append((ch, w))
        ctx.ob("R09.2", f"plane{srcidx}:contents", not bad, fn.loc(ln), f"plane for source byte {srcidx} (offset {off}, shift {shift}): 256 entries, {len(bad)} wrong" + (f", e.g. byte {bad[0][0]:#04x} -> {bad[0][1]:#x}" if bad else ""))
    # the four lookups are OR-ed together and the callers test > 0xFFFF
    ors = [s for b, i, s in fn.assigns() if s["rv"]["k"] == "binop" and s["rv"]["op"] == "BitOr"]
    ctx.ob("R09.2", "combine:or", len(ors) >= 3, fn.loc(), f"{len(ors)} BitOr combine the four plane values")
    ctx.counts["DIGIT_TO_VAL32 entries"] = n


def consts_in(fn, tys=("u32", "u8", "usize", "i32", "u64")):
    out = set()
    for b, s, o in fn.const_operands():
        v = op_int(o)
        if v is not None and o["ty"] in tys:
            out.add(v)
        # promoted range constants:  &(0xD800..0xDC00)
        if "Range<u32>" in o.get("ty", "") and "bytes" in o:
            raw = bytes.fromhex(o["bytes"])
            for i in range(0, len(raw) - 3, 4):
                out.add(int.from_bytes(raw[i:i + 4], "little"))
    return out


def _helpers(prog, f):
    """f and the private same-crate helpers it calls directly (a decoder may delegate its replacement /
    error arm to a helper); reader methods are not part of the decoder"""
    out = [f]
    for b, t in f.calls():
        g = prog.fns.get(t["callee"])
        if g is None or g in out or g.crate != "sonic_rs" or callee_is(t, *ADVANCE) or "hex_to_u32" in g.id:
            continue
        if (g.impl or {}).get("self_ty") == (f.impl or {}).get("self_ty") and (f.impl or g.id.rsplit("::", 1)[0] == f.id.rsplit("::", 1)[0]):
            out.append(g)
    return out


def _cut_points(f, lo=0xD000, hi=0xE100):
    """comparisons of a value with a constant in [lo, hi], normalised to the half-open cut they make:
    x < C, x >= C cut at C;  x <= C, x > C cut at C+1;  promoted Range bounds cut at start / end,
    RangeInclusive bounds at start / end+1"""
    cuts = set()
    for b, i, s in f.assigns():
        rv = s["rv"]
        if rv["k"] != "binop" or rv["op"] not in ("Lt", "Le", "Gt", "Ge"):
            continue
        ca, cb = op_int(rv["a"]), op_int(rv["b"])
        op = rv["op"]
        if ca is not None and cb is None:      # C op x  ==  x op' C
            op = {"Lt": "Gt", "Le": "Ge", "Gt": "Lt", "Ge": "Le"}[op]
            c = ca
        elif cb is not None and ca is None:
            c = cb
        else:
            continue
        if lo <= c <= hi:
            cuts.add(c if op in ("Lt", "Ge") else c + 1)
    for b, s, o in f.const_operands():
        ty = o.get("ty", "")
        if "bytes" in o and ("Range<u32>" in ty or "RangeInclusive<u32>" in ty):
            raw = bytes.fromhex(o["bytes"])
            vals = [int.from_bytes(raw[i:i + 4], "little") for i in range(0, min(len(raw), 8) - 3, 4)]
            if len(vals) == 2 and lo <= vals[0] <= hi:
                cuts.add(vals[0])
                cuts.add(vals[1] + 1 if "RangeInclusive" in ty else vals[1])
    return cuts


def r09_3(ctx):
    prog = ctx.prog()
    dec1 = prog.find("Parser::parse_escaped_utf8")
    dec2 = prog.find("unicode::handle_unicode_codepoint_mut")
    need = {0xD800, 0xDC00, 10, 0x10000}
    for f in (dec1, dec2):
        cs = consts_in(f)
        ctx.ob("R09.3", f"surrogate-constants:{short(f.id)}", need <= cs, f.loc(), f"UTF-16 surrogate arithmetic constants present: {sorted(hex(x) for x in need & cs)} (need {sorted(hex(x) for x in need)})")
    # the classification of the first code unit cuts the range at D800, DC00 and E000 and nowhere else
    # (0xDBFF / 0xDFFF as exclusive bounds, 0xDC00 / 0xE000 as inclusive ones are the off-by-one variants)
    for f in (dec1, dec2):
        cuts = _cut_points(f)
        ctx.ob("R09.3", f"surrogate-bounds:{short(f.id)}", cuts == {0xD800, 0xDC00, 0xE000}, f.loc(), f"the code unit is classified by cuts at {sorted(hex(x) for x in cuts)} (half-open ranges D800..DC00..E000)")
    cu = prog.find("unicode::codepoint_to_utf8")
    # the encoder and the private helpers it is written with (a nested `cont(cp, shift)`)
    cluster = [cu] + [prog.fns[t["callee"]] for b, t in cu.calls() if t["callee"] in prog.fns and prog.fns[t["callee"]].crate == "sonic_rs"]
    cs = set().union(*[consts_in(g) for g in cluster])
    # lead bytes and the continuation marker / mask may be added or or-ed in; thresholds may be inclusive upper or lower bounds
    for name, want in (("lead/continuation", {192, 224, 240, 128, 63}), ("shifts", {6, 12, 18})):
        ctx.ob("R09.3", f"utf8-{name}", want <= cs, cu.loc(), f"codepoint_to_utf8 {name}: {sorted(want & cs)} of {sorted(want)}")
    cuts = _cut_points(cu, 0x40, 0x200000)
    wantc = {0x80, 0x800, 0x10000, 0x110000}
    ctx.ob("R09.3", "utf8-thresholds", cuts == wantc, cu.loc(), f"the code point is classified by cuts at {sorted(hex(x) for x in cuts)} (1 / 2 / 3 / 4 bytes / invalid: {sorted(hex(x) for x in wantc)})")
    ctx.ob("R09.3", "utf8-threshold-comparisons", len(cuts) >= 4, cu.loc(), f"{len(cuts)} distinct thresholds", nontrivial=False)
    # lossy replacement constant
    rep = [any(0xFFFD in consts_in(g) for g in _helpers(prog, dec1)), 0xFFFD in consts_in(prog.find("unicode::repr_utf16_surrogate"))]
    ctx.ob("R09.3", "replacement:U+FFFD", all(rep), dec1.loc(), "lossy arms produce U+FFFD")
    # every Ok(constant) of parse_escaped_utf8 (and of the helpers its arms delegate to) is 0xFFFD
    oks = []
    for g in _helpers(prog, dec1):
        for b, i, s in g.assigns():
            rv = s["rv"]
            if rv["k"] == "agg" and rv.get("variant") == "Ok" and rv["f"] and rv["f"][0]["k"] == "const":
                oks.append(op_int(rv["f"][0]))
    ctx.ob("R09.3", "replacement:only-constant", bool(oks) and all(v == 0xFFFD for v in oks), dec1.loc(), f"constant results of parse_escaped_utf8: {sorted(set(hex(v) for v in oks))}")


def r09_4(ctx):
    prog = ctx.prog()
    # (a) the block classifier's control threshold
    news = [f for f in prog.fns.values() if f.name == "new" and "StringBlock" in (f.impl or {}).get("self_ty", "")]
    ctx.floor("R09.4", "StringBlock::new", len(news), 1)
    for f in news:
        pairs = _splat_cmp_pairs(f)
        want = {("le", 0x1F), ("eq", 0x5C), ("eq", 0x22)}
        ctx.ob("R09.4", f"StringBlock::new:{f.impl['self_ty']}", pairs == want, f.loc(), f"block classification compares {sorted(pairs)}; specification {sorted(want)}")
    # (b) scalar / vector control tests elsewhere in the string scanners: thresholds must be 0x1f (<=) or 0x20 (<)
    scanners = [f for f in prog.fns.values() if f.crate == "sonic_rs" and f.name in ("skip_string", "parse_string_raw", "parse_string_escaped", "parse_string_inplace", "skip_string_escaped")]
    ctx.floor("R09.4", "string scanners", len(scanners), 3)
    for f in scanners:
        ths = []
        for b, i, s in f.assigns():
            rv = s["rv"]
            if rv["k"] == "binop" and rv["op"] in ("Le", "Lt") and (op_int(rv["b"]) in (0x1E, 0x1F, 0x20, 0x21)) and rv["b"].get("ty") == "u8":
                ths.append((rv["op"], op_int(rv["b"])))
        for b, t in f.terms():
            if t["k"] == "switch" and t.get("dty") == "u8":
                pass
        for p in _splat_cmp_pairs(f):
            if p[0] in ("le", "lt") and p[1] in (0x1E, 0x1F, 0x20, 0x21):
                ths.append(("Le" if p[0] == "le" else "Lt", p[1]))
        okk = all((op, v) in (("Le", 0x1F), ("Lt", 0x20)) for op, v in ths)
        ctx.ob("R09.4", f"control-threshold:{short(f.id)}", okk, f.loc(), f"control-byte tests {ths or '(delegated to StringBlock / range match)'}: all equivalent to c <= 0x1f")
    # (c) order of the block tests: the escape branch only after the control-byte test of the same block
    n = 0
    for f in prog.fns.values():
        if f.crate != "sonic_rs":
            continue
        hb = [(b, t) for b, t in f.calls() if callee_is(t, "has_backslash") and "StringBlock" in t["callee"]]
        if not hb:
            continue
        hu = [(b, t) for b, t in f.calls() if callee_is(t, "has_unescaped") and "StringBlock" in t["callee"]]
        k = 0
        for b, t in hb:
            if f.name == "has_quote_first":
                continue
            n += 1
            k += 1
            ok = False
            reloads = {nb for nb, nt in f.calls() if callee_is(nt, "new") and "StringBlock" in nt["callee"]}
            for ub, ut in hu:
                if f.dominates(ub, b) and ub != b:
                    e = bool_switch_edges(f, ut["dest"][0])
                    # "of the same block": no reload of the block between the control-byte test and the backslash test
                    if e and (b == e[1] or b in f.reachable_from(e[1], avoid=reloads)) and b not in f.reachable_from(e[0], avoid={ub}):
                        ok = True
            ctx.ob("R09.4", f"order:{short(f.id)}#{k}", ok, f.loc(t["ln"]),
                   "the backslash test of a block is reached only through the false edge of the control-byte test of the same block" if ok else
                   "the backslash test of a block is not preceded by its control-byte test: a raw control byte before the first escape of the block is accepted")
    ctx.floor("R09.4", "has_backslash sites in block scanners", n, 4)


def _splat_cmp_pairs(f):
    consts = {}
    calls = []
    for b, t in f.calls():
        nm = t["callee"].rsplit("::", 1)[-1]
        if nm == "splat":
            consts[t["dest"][0]] = op_int(t["args"][0])
        if nm in ("le", "eq", "lt", "gt", "ge", "ne"):
            calls.append((nm, t))
    pairs = set()
    for nm, t in calls:
        if len(t["args"]) < 2:
            continue
        l = op_local(t["args"][1])
        sl, _ = backward_slice(f, [l]) if l is not None else (set(), [])
        for x in sl | {l}:
            if x in consts and consts[x] is not None:
                pairs.add((nm, consts[x]))
    return pairs


def r09_5(ctx):
    prog = ctx.prog()
    lanes = [(k, int(c["int"])) for k, c in prog.consts.items() if "StringBlock" in k and k.endswith("::LANES") and "int" in c]
    ctx.floor("R09.5", "StringBlock::LANES", len(lanes), 1)
    for k, v in lanes:
        # the vector type loaded by StringBlock::new
        news = [f for f in prog.fns.values() if f.name == "new" and "StringBlock" in (f.impl or {}).get("self_ty", "")]
        want = None
        for f in news:
            ty = f.inputs[0] if f.inputs else ""
            for nm, n in (("Simd128", 16), ("Simd256", 32), ("Simd512", 64), ("u8x16", 16), ("u8x32", 32), ("u8x64", 64)):
                if nm in ty:
                    want = n
        ctx.ob("R09.5", k.replace("sonic_rs::", ""), want == v, "src/util/string.rs", f"StringBlock::LANES = {v}; lanes of the vector it classifies = {want}")


ADVANCE = ("Reader::eat", "Reader::next_n", "Reader::next", "Reader::set_index")


def _flag_edges(fn, field):
    """(true_targets, false_targets) of the bool switches whose condition is (a negation / copy of) a load of the
    configuration flag `field`; only targets entered by that edge alone are returned"""
    tt, ft = set(), set()
    for b, t in fn.terms():
        if t["k"] != "switch" or t.get("dty") != "bool":
            continue
        l = op_local(t["discr"])
        if l is None:
            continue
        sl, leaves = backward_slice(fn, [l])
        places = [lf for lf in leaves if lf[0] == "place"]
        if len(places) != 1 or field not in [e[2] for e in places[0][1][1] if isinstance(e, list) and e[0] == "."] or any(lf[0] not in ("place", "param") for lf in leaves):
            continue
        negs = sum(1 for x in sl | {l} for d in fn.defs.get(x, []) if d[0] == "stmt" and d[3]["rv"]["k"] == "unop" and d[3]["rv"]["op"] == "Not")
        edges = dict((v, tg) for v, tg in [(int(v), tg) for v, tg in t["targets"]] + [(None, t["otherwise"])])
        true_t, false_t = edges.get(1, edges.get(None)), edges.get(0, edges.get(None))
        if negs % 2:
            true_t, false_t = false_t, true_t
        if true_t is not None and len(fn.preds[true_t]) == 1:
            tt.add(true_t)
        if false_t is not None and len(fn.preds[false_t]) == 1:
            ft.add(false_t)
    return tt, ft


def _ok_const_blocks(g, v):
    return [b for b, i, s in g.assigns() if s["rv"]["k"] == "agg" and s["rv"].get("variant") == "Ok" and s["rv"]["f"] and op_int(s["rv"]["f"][0]) == v]


def r09_6(ctx):
    prog = ctx.prog()
    f = prog.find("Parser::parse_escaped_utf8")
    adv = [(b, t) for b, t in f.calls() if callee_is(t, *ADVANCE)]
    ctx.floor("R09.6", "reader-advancing calls in parse_escaped_utf8", len(adv), 2)
    # the first one: dominates all others
    first = [a for a in adv if all(f.dominates(a[0], o[0]) for o in adv)]
    # replacement sites: Ok(0xFFFD) built here, or a call of a helper that builds it; a helper's replacement is
    # `lossy-only` when it lies behind the helper's own test of cfg.utf8_lossy
    rep_sites = [(b, False) for b in _ok_const_blocks(f, 0xFFFD)]
    for g in _helpers(prog, f)[1:]:
        rb = _ok_const_blocks(g, 0xFFFD)
        if not rb:
            continue
        gt, _ = _flag_edges(g, "utf8_lossy")
        lossy_only = not (set(rb) & g.reachable_from(0, avoid=gt))
        rep_sites += [(b, lossy_only) for b, t in f.calls() if t["callee"] == g.id]
    ctx.floor("R09.6", "lossy replacement returns", len(rep_sites), 1)
    if len(first) != 1:
        ctx.ob("R09.6", "first-advance", False, f.loc(), "cannot identify the read of the first \\uXXXX (fail closed)")
        return
    # the flag is read-only here, so an advance made only when it is false cannot be followed by a replacement made only when it is true
    ftrue, ffalse = _flag_edges(f, "utf8_lossy")
    flag_written = any("utf8_lossy" in [e[2] for e in s_["lhs"][1] if isinstance(e, list) and e[0] == "."] for g in _helpers(prog, f) for _, _, s_ in g.assigns())
    bad = []
    for b, t in adv:
        if (b, t) == first[0]:
            continue
        strict_only = not flag_written and b not in f.reachable_from(0, avoid=ffalse)
        for r, lossy_only in rep_sites:
            if r not in f.reachable_from(b):
                continue
            if strict_only and (lossy_only or r not in f.reachable_from(b, avoid=ftrue)):
                continue
            bad.append((t["callee"].rsplit("::", 1)[-1], op_int(t["args"][1]) if len(t["args"]) > 1 else None, t["ln"]))
            break
    ctx.ob("R09.6", "copying-decoder:lookahead-not-consumed", not bad, f.loc(),
           "every path to a lossy U+FFFD result has advanced the reader only past the first escape (the look-ahead is peeked)" if not bad else
           f"the look-ahead after a high surrogate is consumed ({bad}) on a path that then returns the lossy replacement: the bytes that followed are lost")
    # in-place sibling: the second pointer advance must not reach repr_utf16_surrogate
    g = prog.find("unicode::handle_unicode_codepoint_mut")
    adds = []
    for b, i, s in g.assigns():
        if s["lhs"][0] == 1 and s["lhs"][1] == ["*"]:
            adds.append((b, s))
    for b, t in g.calls():
        if t["dest"][0] == 1 and t["dest"][1] == ["*"]:
            adds.append((b, t))
    reps = [b for b, t in g.calls() if callee_is(t, "repr_utf16_surrogate")]
    ctx.floor("R09.6", "replacement sites in the in-place decoder", len(reps), 3)
    firsta = [a for a in adds if all(g.dominates(a[0], o[0]) for o in adds)]
    bad = [a for a in adds if a not in firsta and any(r in g.reachable_from(a[0]) for r in reps)]
    ctx.ob("R09.6", "inplace-decoder:lookahead-not-consumed", len(firsta) == 1 and not bad, g.loc(),
           "the in-place decoder advances past the second escape only after it proved to be the low surrogate" if len(firsta) == 1 and not bad else
           "the in-place decoder advances past the look-ahead on a path that then emits the lossy replacement")


def r09_8(ctx):
    """the second escape of a surrogate pair is decoded only after BOTH of its prefix bytes were found to be
    `\\` and `u`: the hex decoding of the look-ahead must be unreachable from the mismatch edge of either test"""
    prog = ctx.prog()
    for name in ("Parser::parse_escaped_utf8", "unicode::handle_unicode_codepoint_mut"):
        f = prog.find(name)
        hexc = [(b, t) for b, t in f.calls() if callee_is(t, "hex_to_u32_nocheck")]
        if len(hexc) < 2:
            ctx.ob("R09.8", f"{short(f.id)}:second-escape", False, f.loc(), "expected two hex decodings (high and low surrogate) (fail closed)")
            continue
        first = [h for h in hexc if all(f.dominates(h[0], o[0]) for o in hexc)]
        second = [h for h in hexc if h not in first]
        tests = {}
        for b, i, s_ in f.assigns():
            rv = s_["rv"]
            if rv["k"] == "binop" and rv["op"] in ("Eq", "Ne"):
                for c in (92, 117):
                    if (op_int(rv["a"]) == c and rv["a"].get("ty") == "u8") or (op_int(rv["b"]) == c and rv["b"].get("ty") == "u8"):
                        e = bool_switch_edges(f, s_["lhs"][0])
                        if e:
                            match_t, mismatch_t = (e[0], e[1]) if rv["op"] == "Eq" else (e[1], e[0])
                            tests.setdefault(c, []).append((b, match_t, [mismatch_t]))
        # pattern form: `[b'\\', b'u', ..]` is a switch on the byte itself
        for b, t in f.terms():
            if t["k"] == "switch" and t.get("dty") == "u8":
                ed = switch_edges(f, b)
                for c in (92, 117):
                    m = [tg for v, tg in ed if v == c]
                    if m:
                        tests.setdefault(c, []).append((b, m[0], [tg for v, tg in ed if v != c and tg != m[0]]))
        ok = 92 in tests and 117 in tests
        if not ok:
            # prefix established by data flow: the digits decoded are what `strip_prefix(b"\\u")` returned (None -> no decode)
            def strips(g):
                return any(callee_is(tt, "strip_prefix") for bb, tt in g.calls()) and any(op_bytes(o) == b"\\u" for bb, ss, o in g.const_operands())
            via = []
            for hb, ht in second:
                la = op_local(ht["args"][0])
                sl, leaves = backward_slice(f, [la]) if la is not None else (set(), [])
                hit = False
                for lf in leaves:
                    if lf[0] != "call":
                        continue
                    if callee_is(lf[2], "strip_prefix") and strips(f):
                        hit = True
                    for g in prog.closures_of(f):
                        if g.id in (lf[2].get("arg_adts") or []) and strips(g):
                            hit = True
                via.append(hit)
            if via and all(via):
                ok = True
        bad = []
        for c, lst in tests.items():
            for b, match_t, mismatch_ts in lst:
                for hb, ht in second:
                    if f.dominates(b, hb) or hb in f.reachable_from(b):
                        # reachable from a mismatch edge without going through the match edge of the same test; a named
                        # condition (`let is_escape = a == b'\\' && b == b'u'`) is followed by the constant it materialises
                        if any(hb in reachable_cp(f, mt, avoid={match_t}) for mt in mismatch_ts):
                            bad.append((chr(c), ht["ln"]))
        ctx.ob("R09.8", f"{short(f.id)}:second-escape-prefix", ok and not bad, f.loc(),
               "the low surrogate's digits are decoded only on the path where both prefix bytes matched `\\u`" if ok and not bad else
               f"the look-ahead is decoded as a \\uXXXX escape although a prefix byte did not match ({bad}): e.g. \\ud83d\\xde00 is accepted")


def r09_7(ctx):
    """shape of the surrogate-pair assembly (shared with C03: R03.5)"""
    from .c03 import r03_5
    r03_5(ctx)
    for o in ctx.obligations:
        if o["rule"] == "R03.5":
            o["rule"] = "R09.7"


def _r099_tags(prog, h, x, depth=0, callctx=None):
    """what an addend derives from: 'off' (the validator's offset) / 'idx' (the reader's index field); a closure's
    captured variable is followed to the place the enclosing function captured"""
    tags = set()
    if x is None or depth > 2:
        return tags
    xs, xl = backward_slice(h, [x])
    for lf in xl:
        if lf[0] == "call" and callee_is(lf[2], "offset", "valid_up_to"):
            tags.add("off")
        # a parameter of a helper: what the caller passes for it
        pk = lf[1] if lf[0] == "param" else (h.src(lf[1][0])[1] if lf[0] == "place" and h.src(lf[1][0])[0] == "param" and not h.parent_fn else None)
        if pk is not None and callctx and h.id in callctx:
            cf, ct = callctx[h.id]
            if 1 <= pk <= len(ct["args"]) and op_local(ct["args"][pk - 1]) is not None:
                tags |= _r099_tags(prog, cf, op_local(ct["args"][pk - 1]), depth + 1, callctx) - {"off"}
        if lf[0] == "place":
            proj = lf[1][1]
            if "index" in [e[2] for e in proj if isinstance(e, list) and e[0] == "."]:
                tags.add("idx")
            elif h.parent_fn and lf[1][0] == 1:
                ks = [e[1] for e in proj if isinstance(e, list) and e[0] == "."]
                par = prog.fns.get(h.parent_fn)
                if ks and par is not None:
                    for b, i, s_ in par.assigns():
                        rv = s_["rv"]
                        if rv["k"] == "agg" and rv.get("ak") == "closure" and ks[0] < len(rv["f"]) and (rv.get("def") in (None, h.id)):
                            o = rv["f"][ks[0]]
                            pl_ = op_place(o)
                            if pl_ is not None:
                                if "index" in [e[2] for e in pl_[1] if isinstance(e, list) and e[0] == "."]:
                                    tags.add("idx")
                                tags |= _r099_tags(prog, par, pl_[0], depth + 1) - {"off"}
    return tags


def r09_9(ctx):
    """incremental invalid-UTF-8 tracking: an offset reported by a validator that was run over the unread
    tail input[index..] is relative to that tail; before it is stored as an absolute position it has to
    be rebased by the index the tail started at"""
    prog = ctx.prog()
    fs = [f for f in prog.fns.values() if f.crate == "sonic_rs" and f.name == "check_invalid_utf8" and f.trait == "sonic_rs::reader::Reader" and (f.self_adt or "").endswith("reader::Read")]
    if len(fs) != 1:
        ctx.fail_closed("R09.9", "impl Reader for Read::check_invalid_utf8")
        return
    f = fs[0]
    bodies = list(prog.with_closures(f))
    # a helper of the same file that runs the validator for this function is read in the context of the call
    callctx = {}
    for b, t in f.calls():
        h = prog.fns.get(t["callee"])
        if h is not None and h.crate == "sonic_rs" and h.file == f.file and any(callee_is(tt, "from_utf8") for x in prog.with_closures(h) for bb, tt in x.calls()):
            callctx[h.id] = (f, t)
            bodies += [x for x in prog.with_closures(h) if x not in bodies]
    fu = [(g, b, t) for g in bodies for b, t in g.calls() if callee_is(t, "from_utf8")]
    ok_tail = False
    for g, b, t in fu:
        l = op_local(t["args"][0])
        if "idx" in _r099_tags(prog, g, l, 0, callctx):
            ok_tail = True
    ctx.ob("R09.9", "validates-unread-tail", ok_tail, f.loc(), "the validator runs over the unread tail input[index..]", nontrivial=False)
    # stores to next_invalid_utf8
    stores = []
    for g in bodies:
        for b, i, s_ in g.assigns():
            names = [e[2] for e in s_["lhs"][1] if isinstance(e, list) and e[0] == "."]
            if names[-1:] == ["next_invalid_utf8"]:
                stores.append((g, b, s_))
    ctx.floor("R09.9", "stores to next_invalid_utf8 in check_invalid_utf8", len(stores), 1)
    for g, b, s_ in stores:
        ls = [p[0] for p in __import__("sa.analysis", fromlist=["rv_places"]).rv_places(s_["rv"])]
        sl, leaves = backward_slice(g, ls)
        # follow into closures called through map_or / map etc.: look at every body of the function
        off = False
        idx = False
        for h in bodies:
            for bb, tt in h.calls():
                if callee_is(tt, "offset", "valid_up_to"):
                    off = True
        for lf in leaves:
            if lf[0] == "place" and "index" in [e[2] for e in lf[1][1] if isinstance(e, list) and e[0] == "."]:
                idx = True
        # the rebasing addition: some Add whose operands derive from the offset call and from .index
        rebased = False
        for h in bodies:
            for bb, ii, ss in h.assigns():
                rv = ss["rv"]
                if rv["k"] == "binop" and rv["op"].startswith("Add"):
                    la, lb = op_local(rv["a"]), op_local(rv["b"])
                    srcs = [_r099_tags(prog, h, x, 0, callctx) for x in (la, lb)]
                    if ("off" in srcs[0] and "idx" in srcs[1]) or ("idx" in srcs[0] and "off" in srcs[1]):
                        rebased = True
        ctx.ob("R09.9", f"rebased-offset@{len([o for o in ctx.obligations if o['rule'] == 'R09.9'])}", (not off) or rebased, g.loc(s_["ln"]),
               "the validator's offset (relative to the tail) is added to the index before it is stored as the next invalid position" if rebased else
               "the validator's offset, relative to input[index..], is stored as an absolute position without adding the index: later valid literals are classified as invalid UTF-8")


def r09_s(ctx):
    """the result does not depend on the literal's offset: escape carry across SIMD blocks (shared with C13)"""
    from . import c13
    ctx.include(c13.r13_6, 'R09.S')
    ctx.include(c13.r13_3, 'R09.S')   # a literal with an escape is reported as such by the skippers: the lazy string view decodes it instead of handing out the raw text


RULES = [("R09.1", r09_1), ("R09.2", r09_2), ("R09.3", r09_3), ("R09.4", r09_4), ("R09.5", r09_5), ("R09.6", r09_6), ("R09.7", r09_7), ("R09.8", r09_8), ("R09.9", r09_9), ("R09.S", r09_s)]

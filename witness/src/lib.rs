//! E4: type-level witnesses for sonic-rs, written as an external user of the crate would.
//! Every `compile_fail` witness names the error code it must fail with and is paired with a
//! compiling twin that differs only in the offending line, so a witness that fails for the wrong
//! reason (a typo, a moved path) is caught by its twin failing too.

/// W1 (C01, R01.2): `Reader` is sealed — a foreign type cannot implement it, so no foreign reader
/// can be handed to the parser in place of the bounds-checked `Read`.
/// ```compile_fail,E0277
/// struct MyRead;
/// impl<'de> sonic_rs::reader::Reader<'de> for MyRead {}
/// ```
/// twin: the trait is nameable and `Read` implements it.
/// ```
/// fn takes<'de, R: sonic_rs::reader::Reader<'de>>(_r: R) {}
/// takes(sonic_rs::Read::from("1"));
/// ```
pub struct W1ReaderSealed;

/// W2 (C01, R01.2): the over-reading `PaddedSliceRead` cannot be named outside the crate.
/// ```compile_fail,E0603
/// use sonic_rs::reader::PaddedSliceRead;
/// ```
/// twin: the public reader can.
/// ```
/// use sonic_rs::Read;
/// let _ = Read::from("1");
/// ```
pub struct W2PaddedNotNameable;

/// W3 (C13/C16): a `LazyValue<'a>` borrowed from a `&'a str` cannot outlive its input.
/// ```compile_fail,E0597
/// let lv;
/// {
///     let json = String::from(r#"{"a":1}"#);
///     lv = sonic_rs::get(json.as_str(), &["a"]).unwrap();
/// }
/// let _ = lv.as_raw_str();
/// ```
/// twin: used inside the input's scope.
/// ```
/// let json = String::from(r#"{"a":1}"#);
/// let lv = sonic_rs::get(json.as_str(), &["a"]).unwrap();
/// let _ = lv.as_raw_str();
/// ```
pub struct W3LazyValueBorrows;

/// W4 (C16, R16.5): `Value` and `OwnedLazyValue` own their data: `'static + Send + Sync`.
/// ```
/// fn owns<T: 'static + Send + Sync>() {}
/// owns::<sonic_rs::Value>();
/// owns::<sonic_rs::OwnedLazyValue>();
/// ```
/// and a borrowed `LazyValue<'a>` is not `'static`:
/// ```compile_fail,E0597
/// fn owns<T: 'static>(_t: T) {}
/// let json = String::from("1");
/// let lv = sonic_rs::get(json.as_str(), &[] as &[&str]).unwrap();
/// owns(lv);
/// ```
pub struct W4OwnedAreStatic;

/// W5 (C08, R08.2): `RawNumber` has no public constructor from arbitrary text.
/// ```compile_fail,E0624
/// let _ = sonic_rs::RawNumber::new("not a number");
/// ```
/// twin: it is obtained by deserializing (which validates the grammar).
/// ```
/// let n: sonic_rs::RawNumber = sonic_rs::from_str("1.50").unwrap();
/// assert_eq!(n.as_str(), "1.50");
/// ```
pub struct W5RawNumberNoCtor;

/// W6 (C16): `Shared`'s bump allocator needs `&mut Shared`; a shared reference cannot allocate.
/// ```compile_fail,E0596
/// let s = sonic_rs::value::shared::Shared::default();
/// let r = &s;
/// let _ = r.get_alloc();
/// ```
/// twin: through an exclusive reference it works.
/// ```
/// let mut s = sonic_rs::value::shared::Shared::default();
/// let r = &mut s;
/// let _ = r.get_alloc();
/// ```
pub struct W6AllocNeedsMut;

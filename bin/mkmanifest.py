#!/usr/bin/env python3
"""Regenerate MANIFEST.json from the table below (claimed properties = those with a rule module)."""
import json, os
V = os.path.dirname(os.path.dirname(os.path.abspath(__file__)))
NA = {
 "C04": "agreement with serde_json over all (type, text) pairs is a differential run-time property; no structural clause of it is both necessary and not already covered by C02/C07/C20 (DESIGN.md §4 C04)",
 "C10": "equality of returned spans with a reference lookup over all documents and paths is a run-time property of the bitmap skipper's bit arithmetic; the structural carrier/UTF-8 clauses are decided under C14 (DESIGN.md §4 C10)",
 "C11": "depends on run-time path-set shapes and early-exit counts; no necessary structural clause beyond those of C14 (DESIGN.md §4 C11)",
 "C19": "differential property of two serde data-model implementations over all values; the only structural handle (sibling method tables) has intended differences the statement does not settle (DESIGN.md §4 C19)",
}
PENDING = "check under construction in this session (claimed once its rules run clean on the unchanged tree)"
CLAIMS = {
 "C01": ("necessary structural conditions of panic/abort/memory safety decided on the MIR of the current tree: guarded input-driven recursion (call-graph SCCs with depth-guard dominance), confinement and padding of the over-reading reader, parse may not end in the padding, bounds comparison in the checked reader, clamped error index, unreachable todo!() bodies, capacity-guarded node buffer, remaining-length check before fixed-width vector loads. Absence of all arithmetic/bounds panics on arbitrary inputs is NOT decided",
         "trusts rustc's MIR and callee resolution; callback model for serde visitors; unbounded recursion of the DOM parser and validating skipper is a listed known finding (F1a/F1b)"),
 "C02": ("structural necessary conditions of exact acceptance decided on the current tree: final trailing/UTF-8 checks cannot be bypassed in from_trait (must-pass-through on the CFG), every whitespace classifier of the configuration evaluated over all 256 bytes, literal spellings at every dispatch site, hex validation on the \\u branch of every escape interpreter, no non-validating skipper reachable from validating entries (flag-specialised call-graph reachability), UTF-8 verdict checked before skipped/in-place bytes are handed out, infinity test on floats that can overflow, one-fraction flag discipline in the number skipper. The grammar byte by byte is NOT decided",
         "trusts rustc's MIR/callee resolution, class-hierarchy edges for the sealed Reader trait, the callback model for serde, pshufb/pcmpeqb semantics as encoded in the rule"),
 "C05": ("structural necessary conditions of well-formed output decided on the current tree: the three escape tables equal RFC 8259 §7 for all 256 bytes and decode back with the crate's own reader tables (exhaustive table oracle); the reserved window is the affine form the escaper asserts and covers its worst case; no writer/serializer Result is dropped or swallowed and no short write count is ignored (error-discipline dataflow over every serializer/formatter/writer body); float writers reached only on finite classes; forwarding WriteExt impls keep one byte order; quotes only under need_quote. Full well-formedness of output for arbitrary Serialize impls is NOT decided",
         "trusts rustc's const evaluator for table bytes and MIR for bodies; RFC 8259 escape set encoded in the rule file"),
 "C07": ("every constant table and constant the float paths depend on is compared entry by entry with independent big-integer generators (exhaustive over each table: 651 power-of-five pairs, 1308 shift digits, exact powers of ten, RawFloat constants, x86 multiplier words); the sign parameter reaches every float/integer result (dependence analysis, sign of zero included); Eisel-Lemire/long-mantissa results pass an infinity test; typed entry points contain no narrowing cast. Correct rounding of the algorithms using the tables is NOT decided",
         "trusts rustc's const evaluator, the published table generators re-implemented in sa/oracles.py, and Python's correctly rounded int->float"),
 "C09": ("decoder tables and constants decided exhaustively against the RFC/Unicode definitions (ESCAPED_TAB 256 entries, the four DIGIT_TO_VAL32 planes at the offsets the code uses, UTF-16/UTF-8 constants of both surrogate decoders and the encoder, U+FFFD replacement), one control-byte threshold in every string scanner with the escape branch taken only after the control test of the same block, StringBlock::LANES = lanes of its vector, and look-ahead after a high surrogate peeked rather than consumed on every path to the lossy replacement. Behaviour at block boundaries, borrow-vs-copy and lossy UTF-8 repair are NOT decided",
         "trusts rustc's const evaluator and MIR; RFC 8259 / UTF-8 / UTF-16 definitions encoded in sa/oracles.py"),
 "C12": ("latch, flag and validation structure of the lazy iterators decided on the MIR: `ending` tested first and stored on every terminal exit (dominance), constructor flags (safe=true, unchecked/new_inner=false), validating skipper selected under skip_strict (flag-specialised reachability), UTF-8 verdict checked on the first step, raw span bounds taken from the reader index around the skip. Item contents and counts are NOT decided",
         "trusts rustc's MIR/callee resolution; class-hierarchy edges for Reader/JsonInput"),
 "C13": ("structural necessary conditions decided on the current tree: LazyRaw typestate (constructed only from an existing LazyRaw or on the non-literal edge of a first-byte dispatch of the same text; first-byte value-set on the CFG), verbatim emission through the token channel (both ends use the same constant, the raw emitter reaches no escaping routine on direct/class-hierarchy edges), ParseStatus->HasEsc total, quote-stripping fast path only under no_escaped(), escape status stored on every path that has seen a backslash in both string skippers, borrowed-to-owned conversion derives every result from the source's raw text. Accessor results and mutation histories are NOT decided",
         "trusts rustc's MIR/callee resolution and const evaluation of the token strings"),
 "C14": ("structural necessary conditions decided on the current tree: no non-validating skipper reachable from checked get/get_many/get_by_schema (flag-specialised call-graph reachability) and the non-validating primitives confined to the non-validating family (who-may-call); every Ok return on the byte-carrier edge passes from_utf8 over the whole traversed prefix input[..index] (must-pass-through + provenance of the validated slice); need_utf8_valid() true exactly for byte-typed carriers; \\u digits decoded by the validating skipper; raw spans from the reader indices around the skip; one-fraction discipline of the number skipper. That the validating skipper accepts only the grammar is NOT decided",
         "trusts rustc's MIR/callee resolution; class-hierarchy edges for the sealed Reader/JsonInput/Index traits"),
 "C15": ("the aliasing clause and three panic shapes decided on the current tree: mutable access to the shared owned containers only through Arc::make_mut (who-may-call by pointee type, with positive control), arena pointers never feed a mutable view (forward derivation of pointer locals), mutable facades only after to_mut(); as_str().unwrap() only on keys by construction (provenance through field projections), a caller's path element never unwrapped, no representation class split between a normal and a panicking arm (variant-to-arm map of every switch on the value representation). Operation histories against the model are NOT decided",
         "trusts rustc's MIR/callee resolution; keys are strings by construction"),
 "C16": ("pairing and confinement rules decided on the current tree: arena count taken only in pack_shared and returned only on the ROOT_NODE arm of Drop for Value with one pointee type (who-may-call + switch-arm dominance); bitwise materialisation only in the hand-over functions; ManuallyDrop wrap dominates visit_bytes with no exit in between and the wrapped local is what is handed over; *self assigned only after a successful parse; no re-entry into the thread-local node buffer nor serde callbacks while parsing; bump allocator only behind &mut; borrowing visitor methods unreachable from the copying parser. Drop orders and thread interleavings are NOT decided",
         "trusts rustc's MIR/callee resolution and drop elaboration"),
 "C18": ("static protocol obligations of the publish-once caches decided on the MIR of the current tree (weak-CAS discipline, hand-over type agreement, loser cleanup and returned pointer, owner clone/drop pairing, memory orderings); each is a necessary condition of C18; behaviour under interleavings is NOT decided",
         "trusts rustc's MIR and callee resolution, and the memory model's meaning of the ordering constants"),
 "C20": ("structural necessary conditions decided on the current tree: indices handed to the error renderer are clamped/constant/validator-made and the stored offset is the one whose line/column is computed; visitor-made errors pass fix_position in every serde method that calls a visitor itself (error taint on the MIR); not-found codes constructed only in path walkers that non-lookup entries cannot reach; stream latch tested first and set on the error edge; Display cannot panic; errors of the in-place parser are re-rendered over the caller's text and index == len counts as inside. That the offset is the right one and the line/column arithmetic are NOT decided",
         "trusts rustc's MIR/callee resolution; callback model for serde visitors"),
}
def main():
    props = [json.loads(l) for l in open(os.path.join(V, "properties.jsonl"))]
    claimed = [p["id"] for p in props if p["id"] in CLAIMS and os.path.isfile(os.path.join(V, "sa", "rules", p["id"].lower() + ".py"))]
    m = {"version": 1,
         "setup_cmd": "cd /verif/driver && CARGO_NET_OFFLINE=true cargo +nightly build --release --offline",
         "hooks": {"guard": "sonic_rs_verif", "enable": "none needed: the checks read the unmodified sources through a rustc_private driver (RUSTC_WRAPPER under cargo +nightly check); no hook is patched into /repo",
                   "baseline_off_cmd": "cd /repo && cargo test --workspace --no-fail-fast --offline", "source_commits": [], "add_only": True},
         "engines": [
             {"name": "mirfacts", "path": "driver/", "serves_properties": claimed, "kind_free_text": "rustc_private driver dumping type-checked MIR (opt-level 0), resolved callees, const-evaluated tables, impl/ADT tables per configuration"},
             {"name": "sa", "path": "sa/", "serves_properties": claimed, "kind_free_text": "Python rule library over the fact files: CFG/dominators, def-use slices, call graph with class-hierarchy/callback/drop edges, per-property rules"}],
         "checks": [], "not_applicable": [],
         "notes": "static analysis only; every check re-derives its facts from /repo's working tree (content-hashed cache under .cache/); known findings and repaired defects are listed in known_findings.txt; see DESIGN.md"}
    for p in props:
        pid = p["id"]
        if pid in claimed:
            text, note = CLAIMS[pid]
            m["checks"].append({"property_id": pid, "quick_cmd": f"./check {pid} quick", "thorough_cmd": f"./check {pid} thorough",
                                "evidence_file": f"evidence/{pid}.json", "replay_cmd_template": "./check --replay {path}", "engine": "sa",
                                "level_claimed": {"category": "other", "text": text, "design_ref": f"DESIGN.md §4 {pid}"},
                                "level_note": note, "technique": "static analysis: rules over type-checked MIR, resolved call graph and const-evaluated tables (rustc_private driver + rule library)"})
        else:
            m["not_applicable"].append({"property_id": pid, "reason": NA.get(pid, PENDING)})
    json.dump(m, open(os.path.join(V, "MANIFEST.json"), "w"), indent=1)
    print("claimed:", claimed)
main()
